SPECIFICATION GSpec
CONSTANTS
  Ev = {"1", "2"}
  Posters = {"p1"}
  Transport = "kick"
  MaxFail = 0
  MaxOps = 4
  PostBudget = 2
INVARIANTS Emit CountOK RxOK NoLostWakeup
VIEW GView
CHECK_DEADLOCK FALSE
