--------------------------- MODULE IvPopen ---------------------------
(* System model of iv_popen (src/iv_popen.c) on top of the iv_wait contract,
   composed with the C19 rules of MonSig.

   One request, one child.  State of the code:
     running-child record `ch` (exists / freed), ch->parent (request open?),
     the wait interest (registered, dead flag -- maintained by the reaper),
     the signal timer (armed with an absolute expiry), ch->num_kills.
   Kernel / environment: the child (running | zombie | gone), its reaction to
   SIGTERM (Policy: "exit" | "ignore" | "after-n"), spontaneous exit, SIGCHLD,
   virtual time in seconds.
   Actions (one per callback of the code):
     Submit            iv_popen_request_submit: pipe, register_spawn
     Close             iv_popen_request_close: parent := NULL, timer at now
     TimerFire         iv_popen_running_child_timer: signum by num_kills,
                       iv_wait_interest_kill (refuses when the interest is
                       dead => -ESRCH => unregister + free), re-arm now + 5
     Reap              the SIGCHLD path of iv_wait: collect the status, flag
                       the interest dead, queue the status for the handler
     WaitHandler       iv_popen_running_child_wait: on a terminating status
                       unregister the interest, detach from the request or
                       stop the timer, free the record
     Tick              time advances by one second (only while nothing is due) *)
EXTENDS Naturals, Integers, Sequences, FiniteSets, TLC

CONSTANTS Policy,      \* "exit" | "ignore" | "after-n"
          AfterN,      \* for "after-n": exits on the n-th SIGTERM
          MaxTime

Mon == INSTANCE MonSig
Pid == 101
SIGTERM_ == 15
SIGKILL_ == 9
Interval == 5

VARIABLES now, child, statusq, wdead, wreg, wpend, ch, open, timer, nkills, nterm, submitted, mon
vars == <<now, child, statusq, wdead, wreg, wpend, ch, open, timer, nkills, nterm, submitted, mon>>

Ev(rec) == Mon!SStep(mon, rec)
Ts == <<1000 + now, 0>>

Init ==
  /\ now = 0 /\ child = "none" /\ statusq = <<>> /\ wdead = FALSE /\ wreg = FALSE /\ wpend = <<>>
  /\ ch = FALSE /\ open = FALSE /\ timer = -1 /\ nkills = 0 /\ nterm = 0 /\ submitted = FALSE
  /\ mon = Mon!SInit

Submit ==
  /\ ~submitted /\ submitted' = TRUE
  /\ child' = "running" /\ ch' = TRUE /\ open' = TRUE /\ wreg' = TRUE /\ wdead' = FALSE
  /\ mon' = Mon!SStep(Mon!SStep(mon, [e |-> "Fork", pid |-> Pid, t |-> 0]),
                      [e |-> "A", op |-> "popen", o |-> 1, a |-> 0, r |-> 0, t |-> 0])
  /\ UNCHANGED <<now, statusq, wpend, timer, nkills, nterm>>

Close ==   \* (bounded time: late closes would run into the end of the clock)
  /\ open /\ now + 32 <= MaxTime /\ open' = FALSE
  /\ IF ch THEN timer' = now /\ nkills' = 0 ELSE UNCHANGED <<timer, nkills>>
  /\ mon' = Ev([e |-> "A", op |-> "popen_close", o |-> 1, t |-> 0])
  /\ UNCHANGED <<now, child, statusq, wdead, wreg, wpend, ch, nterm, submitted>>

(* the child ends by itself *)
ChildExit ==
  /\ child = "running" /\ child' = "zombie"
  /\ statusq' = Append(statusq, 0)
  /\ mon' = Ev([e |-> "Child", pid |-> Pid, what |-> 0, arg |-> 0, st |-> 0, t |-> 0])
  /\ UNCHANGED <<now, wdead, wreg, wpend, ch, open, timer, nkills, nterm, submitted>>

(* what kill(pid, sig) does to the child *)
KillEffect(sig) ==
  IF child # "running" THEN <<child, statusq, nterm, "lives">>
  ELSE IF sig = SIGKILL_ \/ (Policy = "exit") \/ (Policy = "after-n" /\ nterm + 1 >= AfterN)
       THEN <<"zombie", Append(statusq, sig), nterm + 1, "dies">>
       ELSE <<child, statusq, nterm + 1, "lives">>

TimerFire ==
  /\ ch /\ ~open /\ timer >= 0 /\ timer <= now
  /\ LET sig == IF nkills < 5 THEN SIGTERM_ ELSE SIGKILL_ IN
     IF wdead
     THEN (* iv_wait_interest_kill returns -ESRCH: unregister, free *)
          /\ wreg' = FALSE /\ ch' = FALSE /\ timer' = -1 /\ nkills' = nkills + 1
          /\ mon' = mon
          /\ UNCHANGED <<child, statusq, nterm, wpend>>
     ELSE /\ nkills' = nkills + 1 /\ timer' = now + Interval
          /\ LET k == KillEffect(sig)
                 m1 == Ev([e |-> "Kill", pid |-> Pid, sig |-> sig, known |-> 1,
                           reaped |-> (IF child = "none" THEN 1 ELSE 0), now |-> Ts, t |-> 0])
             IN /\ child' = k[1] /\ statusq' = k[2] /\ nterm' = k[3]
                /\ mon' = IF k[4] = "dies"
                          THEN Mon!SStep(m1, [e |-> "Child", pid |-> Pid, what |-> 1, arg |-> sig, st |-> sig, t |-> 0])
                          ELSE m1
          /\ UNCHANGED <<wreg, ch, wpend>>
  /\ UNCHANGED <<now, wdead, open, submitted>>

Reap ==   \* iv_wait_got_sigchld for this child
  /\ statusq # <<>>
  /\ statusq' = <<>> /\ child' = "none"
  /\ IF wreg /\ ~wdead THEN wpend' = wpend \o statusq /\ wdead' = TRUE
                       ELSE UNCHANGED <<wpend, wdead>>
  /\ mon' = Ev([e |-> "Reap", pid |-> Pid, st |-> statusq[1], dead |-> 1, t |-> 0])
  /\ UNCHANGED <<now, wreg, ch, open, timer, nkills, nterm, submitted>>

WaitHandler ==   \* iv_popen_running_child_wait with a terminating status
  /\ wreg /\ wpend # <<>>
  /\ wpend' = <<>> /\ wreg' = FALSE /\ ch' = FALSE
  /\ timer' = IF open THEN timer ELSE -1
  /\ UNCHANGED <<now, child, statusq, wdead, open, nkills, nterm, submitted, mon>>

Due == (ch /\ ~open /\ timer >= 0 /\ timer <= now) \/ statusq # <<>> \/ (wreg /\ wpend # <<>>)

Tick ==
  /\ ~Due /\ now < MaxTime /\ now' = now + 1
  /\ UNCHANGED <<child, statusq, wdead, wreg, wpend, ch, open, timer, nkills, nterm, submitted, mon>>

Next == Submit \/ Close \/ ChildExit \/ TimerFire \/ Reap \/ WaitHandler \/ Tick
Spec == Init /\ [][Next]_vars
FairSpec == Spec /\ WF_vars(TimerFire \/ Reap \/ WaitHandler \/ Tick) /\ WF_vars(Close)

NoViolation == mon.viols = {}
(* the record lives exactly as long as the interest is registered *)
RecordOK == ch = wreg
(* the timer is armed only for a closed request with a live record *)
TimerOK == timer >= 0 => (ch /\ ~open)
(* signalling escalates: at most 5 SIGTERM before SIGKILL *)
KillsBounded == nkills <= 7
(* liveness: after close the child ends, is reaped, and everything is released *)
Released == submitted ~> (~open => <>(~ch /\ timer = -1 /\ child = "none"))
Terminates == (submitted /\ ~open) ~> (child = "none" /\ ~ch /\ ~wreg /\ timer = -1)
=============================================================================
