--------------------------- MODULE MC_Signal ---------------------------
(* model-checking instance of IvSignal: interest 1 exclusive process-wide
   (thread 0), 2 this-thread non-exclusive (thread 0), 3 process-wide
   non-exclusive (thread 1), 4 exclusive this-thread (thread 1) *)
EXTENDS IvSignal
IntsDef == {1, 2, 3, 4}
OwnerDef == [i \in IntsDef |-> IF i >= 3 THEN 1 ELSE 0]
ExclDef == [i \in IntsDef |-> i \in {1, 4}]
ThisThrDef == [i \in IntsDef |-> i \in {2, 4}]
=============================================================================
