SPECIFICATION FSpec
CONSTANTS
  Ints <- IntsDef
  Owner <- OwnerDef
  Excl <- ExclDef
  ThisThr <- ThisThrDef
  Threads = {0, 1}
  MaxDeliver = 2
  MaxApi = 5
  MaxChild = 3
  ResetThr = FALSE
  ResetProc = TRUE
  CheckOwner = TRUE
INVARIANTS NoViolation TotalCount DispMatches ActiveImpliesPosted
VIEW FView
CHECK_DEADLOCK FALSE
