SPECIFICATION GSpec
CONSTANTS
  MaxWd = 3
  MaxObj = 3
  MaxBatch = 3
  MaxReads = 1
  MaxLen = 1
  Aliases = {0}
  TermInit = "null"
  Variant = "code"
  MaxOps = 3
  OutsideUnreg = FALSE
INVARIANT Emit
CHECK_DEADLOCK FALSE
