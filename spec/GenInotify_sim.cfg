SPECIFICATION GSpec
CONSTANTS
  MaxWd = 4
  MaxObj = 4
  MaxBatch = 4
  MaxReads = 2
  MaxLen = 1
  Aliases = {0}
  TermInit = "null"
  Variant = "code"
  MaxOps = 8
  OutsideUnreg = TRUE
INVARIANT Emit
CHECK_DEADLOCK FALSE
