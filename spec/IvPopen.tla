--------------------------- MODULE IvPopen ---------------------------
(* System model of iv_popen (src/iv_popen.c) on top of the iv_wait contract,
   composed with the C19 rules of MonSig.

   One request, one child.  State of the code:
     running-child record `ch` (exists / freed), ch->parent (request open?),
     the wait interest (registered, dead flag -- maintained by the reaper),
     the signal timer (armed with an absolute expiry), ch->num_kills.
   Kernel / environment: the child (running | zombie | gone), its reaction to
   SIGTERM (Policy: "exit" | "ignore" | "after-n"), spontaneous exit, SIGCHLD,
   virtual time in seconds.
   Actions (one per callback of the code):
     Submit            iv_popen_request_submit: pipe, register_spawn
     Close             iv_popen_request_close: parent := NULL, timer at now
     TimerFire         iv_popen_running_child_timer: signum by num_kills,
                       iv_wait_interest_kill (refuses when the interest is
                       dead => -ESRCH => unregister + free), re-arm now + 5
     Reap              the SIGCHLD path of iv_wait: collect the status, flag
                       the interest dead, queue the status for the handler
     WaitHandler       iv_popen_running_child_wait: on a terminating status
                       unregister the interest, detach from the request or
                       stop the timer, free the record
     Tick              time advances by one second (only while nothing is due) *)
EXTENDS Naturals, Integers, Sequences, FiniteSets, TLC

CONSTANTS Policy,      \* "exit" | "ignore" | "after-n"
          AfterN,      \* for "after-n": exits on the n-th SIGTERM
          MaxTime,
          MaxStops     \* how many stop / continue status changes the child may go through

Mon == INSTANCE MonSig
Pid == 101
SIGTERM_ == 15
SIGKILL_ == 9
Interval == 5

VARIABLES now, child, statusq, wdead, wreg, wpend, ch, open, timer, nkills, nterm, submitted, mon, nstops
vars == <<now, child, statusq, wdead, wreg, wpend, ch, open, timer, nkills, nterm, submitted, mon, nstops>>
NT == -1       \* a status that is not a termination (stopped / continued)

Ev(rec) == Mon!SStep(mon, rec)
Ts == <<1000 + now, 0>>

Init ==
  /\ now = 0 /\ child = "none" /\ statusq = <<>> /\ wdead = FALSE /\ wreg = FALSE /\ wpend = <<>>
  /\ ch = FALSE /\ open = FALSE /\ timer = -1 /\ nkills = 0 /\ nterm = 0 /\ submitted = FALSE
  /\ mon = Mon!SInit /\ nstops = 0

Submit ==
  /\ ~submitted /\ submitted' = TRUE
  /\ child' = "running" /\ ch' = TRUE /\ open' = TRUE /\ wreg' = TRUE /\ wdead' = FALSE
  /\ mon' = Mon!SStep(Mon!SStep(mon, [e |-> "Fork", pid |-> Pid, t |-> 0]),
                      [e |-> "A", op |-> "popen", o |-> 1, a |-> 0, r |-> 0, t |-> 0])
  /\ UNCHANGED <<now, statusq, wpend, timer, nkills, nterm, nstops>>

Close ==   \* (bounded time: late closes would run into the end of the clock)
  /\ open /\ now + 32 <= MaxTime /\ open' = FALSE
  /\ IF ch THEN timer' = now /\ nkills' = 0 ELSE UNCHANGED <<timer, nkills>>
  /\ mon' = Ev([e |-> "A", op |-> "popen_close", o |-> 1, t |-> 0])
  /\ UNCHANGED <<now, child, statusq, wdead, wreg, wpend, ch, nterm, submitted, nstops>>

(* the child ends by itself *)
ChildExit ==
  /\ child = "running" /\ child' = "zombie"
  /\ statusq' = Append(statusq, 0)
  /\ mon' = Ev([e |-> "Child", pid |-> Pid, what |-> 0, arg |-> 0, st |-> 0, t |-> 0])
  /\ UNCHANGED <<now, wdead, wreg, wpend, ch, open, timer, nkills, nterm, submitted, nstops>>

(* the child is stopped or continued (job control, a debugger): iv_wait reports the status,
   which is not a termination *)
ChildStopCont ==
  /\ child = "running" /\ nstops < MaxStops /\ nstops' = nstops + 1
  /\ statusq' = Append(statusq, NT)
  /\ mon' = Ev([e |-> "Child", pid |-> Pid, what |-> 2, arg |-> 19, st |-> 4991, t |-> 0])
  /\ UNCHANGED <<now, child, wdead, wreg, wpend, ch, open, timer, nkills, nterm, submitted>>

(* what kill(pid, sig) does to the child *)
KillEffect(sig) ==
  IF child # "running" THEN <<child, statusq, nterm, "lives">>
  ELSE IF sig = SIGKILL_ \/ (Policy = "exit") \/ (Policy = "after-n" /\ nterm + 1 >= AfterN)
       THEN <<"zombie", Append(statusq, sig), nterm + 1, "dies">>
       ELSE <<child, statusq, nterm + 1, "lives">>

TimerFire ==
  /\ ch /\ ~open /\ timer >= 0 /\ timer <= now
  /\ LET sig == IF nkills < 5 THEN SIGTERM_ ELSE SIGKILL_ IN
     IF wdead
     THEN (* iv_wait_interest_kill returns -ESRCH: unregister, free *)
          /\ wreg' = FALSE /\ ch' = FALSE /\ timer' = -1 /\ nkills' = nkills + 1
          /\ mon' = mon
          /\ UNCHANGED <<child, statusq, nterm, wpend>>
     ELSE /\ nkills' = nkills + 1 /\ timer' = now + Interval
          /\ LET k == KillEffect(sig)
                 m1 == Ev([e |-> "Kill", pid |-> Pid, sig |-> sig, known |-> 1,
                           reaped |-> (IF child = "none" THEN 1 ELSE 0), now |-> Ts, t |-> 0])
             IN /\ child' = k[1] /\ statusq' = k[2] /\ nterm' = k[3]
                /\ mon' = IF k[4] = "dies"
                          THEN Mon!SStep(m1, [e |-> "Child", pid |-> Pid, what |-> 1, arg |-> sig, st |-> sig, t |-> 0])
                          ELSE m1
          /\ UNCHANGED <<wreg, ch, wpend>>
  /\ UNCHANGED <<now, wdead, open, submitted, nstops>>

Terminal(q) == \E k \in 1..Len(q) : q[k] # NT
Reap ==   \* iv_wait_got_sigchld for this child: every status the kernel has for it
  /\ statusq # <<>>
  /\ statusq' = <<>> /\ child' = IF Terminal(statusq) THEN "none" ELSE child
  /\ IF wreg /\ ~wdead THEN wpend' = wpend \o statusq /\ wdead' = Terminal(statusq)
                       ELSE UNCHANGED <<wpend, wdead>>
  /\ mon' = LET RECURSIVE R(_, _)
                R(m, k) == IF k > Len(statusq) THEN m
                           ELSE R(Mon!SStep(m, [e |-> "Reap", pid |-> Pid, st |-> (IF statusq[k] = NT THEN 4991 ELSE statusq[k]),
                                                dead |-> (IF statusq[k] = NT THEN 0 ELSE 1), t |-> 0]), k + 1)
            IN R(mon, 1)
  /\ UNCHANGED <<now, wreg, ch, open, timer, nkills, nterm, submitted, nstops>>

WaitHandler ==   \* iv_popen_running_child_wait: one queued status per call
  /\ wreg /\ wpend # <<>>
  /\ wpend' = Tail(wpend)
  /\ IF Head(wpend) = NT
     THEN (* neither WIFEXITED nor WIFSIGNALED: ignored *)
          UNCHANGED <<wreg, ch, timer>>
     ELSE /\ wreg' = FALSE /\ ch' = FALSE
          /\ timer' = IF open THEN timer ELSE -1
  /\ UNCHANGED <<now, child, statusq, wdead, open, nkills, nterm, submitted, mon, nstops>>

Due == (ch /\ ~open /\ timer >= 0 /\ timer <= now) \/ statusq # <<>> \/ (wreg /\ wpend # <<>>)

Tick ==
  /\ ~Due /\ now < MaxTime /\ now' = now + 1
  /\ UNCHANGED <<child, statusq, wdead, wreg, wpend, ch, open, timer, nkills, nterm, submitted, mon, nstops>>

Next == Submit \/ Close \/ ChildExit \/ ChildStopCont \/ TimerFire \/ Reap \/ WaitHandler \/ Tick
Spec == Init /\ [][Next]_vars
FairSpec == Spec /\ WF_vars(TimerFire \/ Reap \/ WaitHandler \/ Tick) /\ WF_vars(Close)

NoViolation == mon.viols = {}
(* the record lives exactly as long as the interest is registered *)
RecordOK == ch = wreg
(* the timer is armed only for a closed request with a live record *)
TimerOK == timer >= 0 => (ch /\ ~open)
(* signalling escalates: at most 5 SIGTERM before SIGKILL *)
KillsBounded == nkills <= 7
(* liveness: after close the child ends, is reaped, and everything is released *)
Released == submitted ~> (~open => <>(~ch /\ timer = -1 /\ child = "none"))
Terminates == (submitted /\ ~open) ~> (child = "none" /\ ~ch /\ ~wreg /\ timer = -1)
=============================================================================
