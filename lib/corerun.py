#!/usr/bin/env python3
"""Run ivh_core scripts in parallel and validate the traces with TLC."""
import os
import subprocess
import sys

sys.path.insert(0, os.path.dirname(os.path.abspath(__file__)))
import vlib

CORE_WRAPS = ['syscall', 'epoll_create', 'epoll_ctl', 'epoll_wait', 'epoll_pwait2', 'poll', 'ppoll',
              'timerfd_create', 'timerfd_settime', 'read', 'write', 'close', 'pipe', 'clock_gettime',
              'gettimeofday', 'pthread_create', 'pthread_join', 'pthread_detach', 'pthread_mutex_lock',
              'pthread_mutex_unlock', 'pthread_spin_lock', 'pthread_spin_unlock', 'abort',
              'sigaction', 'signal', 'pthread_sigmask', 'sigprocmask', 'fork', 'wait4', 'kill', 'getpid',
              'pthread_atfork', 'pthread_spin_init', 'pthread_mutex_init', 'malloc', 'calloc', 'free', 'strdup', 'pthread_once']


import re
_LINE_OK = re.compile(rb'^\{"t":\d+,"e":"[A-Za-z]+"[,}]')


def build_core(kind="plain"):
    return vlib.build_harness('ivh_core', ['simk.c', 'simk_sig.c', 'memrec.c', 'ivh_core.c', 'ivh_priv.c'], kind, wraps=CORE_WRAPS)


def run_scripts(exe, scripts, scratch, tag="core", nproc=None, per_file=None):
    """Execute the scripts (list of script texts); returns the trace files."""
    nproc = nproc or vlib.NCPU
    if not scripts:
        return []
    nchunks = max(1, min(nproc * 2, len(scripts)))
    if per_file:
        nchunks = max(nchunks, (len(scripts) + per_file - 1) // per_file)
    chunks = [scripts[i::nchunks] for i in range(nchunks)]
    d = scratch.sub(tag)
    jobs = []
    for i, ch in enumerate(chunks):
        sp = os.path.join(d, "s%d.scr" % i)
        tp = os.path.join(d, "t%d.ndjson" % i)
        with open(sp, "w") as f:
            f.write("".join(ch))
        if os.path.exists(tp):
            os.unlink(tp)
        jobs.append((sp, tp))

    def one(j):
        sp, tp = j
        env = dict(os.environ)
        env.pop("IV_EXCLUDE_POLL_METHOD", None)
        r = subprocess.run([exe, "-i", sp, "-o", tp, "-T", "6"], stdout=subprocess.PIPE,
                           stderr=subprocess.STDOUT, text=True, env=env, timeout=3600)
        if r.returncode != 0:
            raise vlib.MachineryError("harness failed on %s: rc=%d\n%s" % (sp, r.returncode, r.stdout[-2000:]))
        # a process that dies outside the scheduler's control (e.g. glibc aborting in a thread's exit path)
        # can leave a torn line behind: such lines carry no event and are dropped
        torn = False
        with open(tp, "rb") as f:
            head = f.read()
        if b'"why":"crash' in head or b'"why":"abort"' in head or b'"why":"killed"' in head or b"\x00" in head:
            torn = True      # some process died: look at every line properly
        del head
        with open(tp, "rb") as f:
            for ln in (f if not torn else ()):
                if not (_LINE_OK.match(ln) and ln.endswith(b'}\n') and ln.count(b'{"t":') == 1 and b'\x00' not in ln):
                    torn = True
                    break
        if torn:
            import json
            keep = []
            open_exec = False
            lost = b'{"t":0,"e":"End","why":"crash","sig":0,"now":[0,0]}\n'   # its End record was torn
            with open(tp, "rb") as f:
                for ln in f:
                    try:
                        e = json.loads(ln)
                    except ValueError:
                        continue
                    if not isinstance(e, dict) or "e" not in e:
                        continue
                    if e["e"] == "Reset":
                        if open_exec:
                            keep.append(lost)
                        open_exec = True
                    elif not open_exec:
                        continue
                    elif e["e"] == "End":
                        open_exec = False
                    keep.append(ln if ln.endswith(b"\n") else ln + b"\n")
            if open_exec:
                keep.append(lost)
            with open(tp, "wb") as f:
                f.writelines(keep)
        return tp
    return vlib.parallel(one, jobs, nproc)


def script_index(scripts):
    idx = {}
    for s in scripts:
        first = s.split("\n", 1)[0].split()
        idx[first[1]] = s
    return idx
