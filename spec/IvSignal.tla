--------------------------- MODULE IvSignal ---------------------------
(* System model of iv_signal (src/iv_signal.c) composed with the C10 monitor
   of MonSig: every action feeds the observable events it would produce on the
   real code into Mon!SStep, and the invariant is that the monitor never
   fires.  This checks the design against the property and, at the same time,
   the monitor against the design (the same monitor judges the real traces).

   State of the code that is modelled:
     process_sigs / per-thread thr_sigs : ordered sets (comparator: exclusive
        interests first, then by address -- here: by id)
     total_num_interests[signum], the signal disposition
     is->active, the raw event of each interest (posted / not posted)
   Actions:
     Register(i), Unregister(i)  in the owning thread (spin_lock_sigmask held:
        atomic w.r.t. signal delivery and other threads)
     Deliver(t)      the signal handler runs in thread t: per-thread set first,
                     process-wide set if that woke nobody; __iv_signal_do_wake
     EventBegin(i)   the raw event fires in the owner's loop: iv_signal_event
                     clears `active` (signals blocked), then
     Handler(i)      the user handler runs; it may unregister interests of its
                     own thread or trigger another delivery
     Quiesce         nothing is in flight: the monitor's "lost" rule is asked *)
EXTENDS Naturals, Integers, Sequences, FiniteSets, TLC

CONSTANTS Ints,        \* interest ids (subset of 1..8)
          Owner,       \* [Ints -> thread]
          Excl,        \* [Ints -> BOOLEAN]
          ThisThr,     \* [Ints -> BOOLEAN]
          Threads,     \* thread ids (naturals)
          MaxDeliver, MaxApi

Mon == INSTANCE MonSig
SigNum == 10

VARIABLES reg, active, posted, total, disp, inh, ndel, napi, mon
vars == <<reg, active, posted, total, disp, inh, ndel, napi, mon>>

Ev(rec) == Mon!SStep(mon, rec)
Flags(i) == (IF Excl[i] THEN 1 ELSE 0) + (IF ThisThr[i] THEN 2 ELSE 0)

Init ==
  /\ reg = [i \in Ints |-> FALSE] /\ active = [i \in Ints |-> FALSE]
  /\ posted = [i \in Ints |-> FALSE] /\ total = 0 /\ disp = "dfl"
  /\ inh = 0                      \* interest whose user handler is running (0: none)
  /\ ndel = 0 /\ napi = 0 /\ mon = Mon!SInit

(* tree order: exclusive first, then by id *)
Before(a, b) == (Excl[a] /\ ~Excl[b]) \/ (Excl[a] = Excl[b] /\ a < b)
ThrTree(t) == {i \in Ints : reg[i] /\ ThisThr[i] /\ Owner[i] = t}
ProcTree == {i \in Ints : reg[i] /\ ~ThisThr[i]}
TreeOf(i) == IF ThisThr[i] THEN ThrTree(Owner[i]) ELSE ProcTree

(* __iv_signal_do_wake: walk in order, stop after the first exclusive one *)
Woken(T) ==
  LET ex == {i \in T : Excl[i]} IN
  IF ex # {} THEN {CHOOSE i \in ex : \A j \in ex : j = i \/ Before(i, j)} ELSE T

Register(i) ==
  /\ ~reg[i] /\ napi < MaxApi /\ (IF inh = 0 THEN TRUE ELSE Owner[inh] = Owner[i])
  /\ reg' = [reg EXCEPT ![i] = TRUE] /\ active' = [active EXCEPT ![i] = FALSE]
  /\ posted' = [posted EXCEPT ![i] = FALSE]
  /\ total' = total + 1 /\ disp' = "handler" /\ napi' = napi + 1
  /\ mon' = Mon!SStep(Ev([e |-> "A", op |-> "sig_reg", o |-> i, a |-> SigNum, b |-> Flags(i), r |-> 0, t |-> Owner[i]]),
                      [e |-> "DispNow", sig |-> SigNum, h |-> "handler", t |-> Owner[i]])
  /\ UNCHANGED <<inh, ndel>>

Unregister(i) ==
  /\ reg[i] /\ napi < MaxApi /\ (IF inh = 0 THEN TRUE ELSE Owner[inh] = Owner[i])
  /\ LET rest == TreeOf(i) \ {i}
         hand == IF total > 1 /\ Excl[i] /\ active[i] THEN Woken(rest) ELSE {}
     IN /\ reg' = [reg EXCEPT ![i] = FALSE]
        /\ total' = total - 1
        /\ disp' = IF total = 1 THEN "dfl" ELSE disp
        /\ active' = [j \in Ints |-> IF j \in hand THEN TRUE ELSE IF j = i THEN FALSE ELSE active[j]]
        /\ posted' = [j \in Ints |-> IF j \in hand THEN TRUE ELSE IF j = i THEN FALSE ELSE posted[j]]
        /\ mon' = Mon!SStep(Ev([e |-> "A", op |-> "sig_unreg", o |-> i, a |-> SigNum, t |-> Owner[i]]),
                            [e |-> "DispNow", sig |-> SigNum, h |-> (IF total = 1 THEN "dfl" ELSE "handler"), t |-> Owner[i]])
  /\ napi' = napi + 1
  /\ UNCHANGED <<inh, ndel>>

Deliver(t) ==   \* iv_signal_handler in thread t
  /\ ndel < MaxDeliver /\ ndel' = ndel + 1
  /\ LET tw == Woken(ThrTree(t))
         w == IF tw # {} THEN tw ELSE Woken(ProcTree)
     IN /\ IF disp = "handler"
           THEN /\ active' = [j \in Ints |-> active[j] \/ j \in w]
                /\ posted' = [j \in Ints |-> posted[j] \/ j \in w]
           ELSE UNCHANGED <<active, posted>>
        /\ mon' = Mon!SStep(Ev([e |-> "SigDlv", sig |-> SigNum, h |-> disp, pid |-> Mon!ParentPid, t |-> t]),
                            [e |-> "SigRet", sig |-> SigNum, t |-> t])
  /\ UNCHANGED <<reg, total, disp, inh, napi>>

EventBegin(i) ==   \* raw event handler + iv_signal_event up to the user handler
  /\ inh = 0 /\ reg[i] /\ posted[i]
  /\ posted' = [posted EXCEPT ![i] = FALSE] /\ active' = [active EXCEPT ![i] = FALSE]
  /\ inh' = i
  /\ mon' = Ev([e |-> "CbB", k |-> "sig", o |-> i, t |-> Owner[i]])
  /\ UNCHANGED <<reg, total, disp, ndel, napi>>

HandlerEnd ==
  /\ inh # 0 /\ inh' = 0
  /\ UNCHANGED <<reg, active, posted, total, disp, ndel, napi, mon>>

Busy == inh # 0 \/ \E i \in Ints : reg[i] /\ posted[i]

Quiesce ==
  /\ ~Busy
  /\ mon' = Ev([e |-> "Qui", t |-> 0])
  /\ UNCHANGED <<reg, active, posted, total, disp, inh, ndel, napi>>

Next ==
  \/ \E i \in Ints : Register(i) \/ Unregister(i) \/ EventBegin(i)
  \/ \E t \in Threads : Deliver(t)
  \/ HandlerEnd \/ Quiesce

Spec == Init /\ [][Next]_vars

NoViolation == mon.viols = {}
TotalCount == total = Cardinality({i \in Ints : reg[i]})
DispMatches == (disp = "handler") = (total > 0)
(* an undelivered wake-up always sits on a registered interest's raw event *)
ActiveImpliesPosted == \A i \in Ints : (reg[i] /\ active[i]) => posted[i]
View == <<reg, active, posted, total, disp, inh, ndel, napi, mon.owed, mon.groups, mon.viols,
          [i \in Ints |-> mon.sig[i].allowed]>>
=============================================================================
