--------------------------- MODULE MC_TimerHeap ---------------------------
(* Exhaustive check of the timer store (IvTimerHeap): every sequence of
   iv_timer_register (expiry from 1..NExp, so equal keys occur), of
   iv_timer_unregister of ANY stored timer (root, last, interior) and of
   iv_run_timers passes, up to MaxLevel operations and MaxT timers.

   Timer identities do not influence the algorithm, so a registration always
   takes the lowest free id (every history is a renaming of such a history).

   The Next disjuncts are the same two operations classified by what they did
   (tree growth / lazy allocation, level removal, sift direction, p == m), so
   that `-coverage 1` proves that all of these paths were taken. *)
EXTENDS IvTimerHeap

CONSTANTS MaxT, NExp, MaxLevel
VARIABLES h, reg
vars == <<h, reg>>

TimerSet == 1..MaxT
Exps == 1..NExp
Free == TimerSet \ reg
NextId == CHOOSE t \in Free : \A u \in Free : t <= u

Init == h = Init0 /\ reg = {}

RegClass(a, b, t) ==
  << IF b.depth > a.depth THEN "grow" ELSE IF b.alloc # a.alloc THEN "alloc" ELSE "plain",
     IF b.ix[t] < b.n THEN "up" ELSE "stay" >>

Reg(e, c) ==
  /\ Free # {}
  /\ LET t == NextId
         b == Register(h, t, e)
     IN RegClass(h, b, t) = c /\ h' = b /\ reg' = reg \cup {t}

RegGrowUp(e)    == Reg(e, <<"grow", "up">>)
RegGrowStay(e)  == Reg(e, <<"grow", "stay">>)
RegAllocUp(e)   == Reg(e, <<"alloc", "up">>)
RegAllocStay(e) == Reg(e, <<"alloc", "stay">>)
RegPlainUp(e)   == Reg(e, <<"plain", "up">>)
RegPlainStay(e) == Reg(e, <<"plain", "stay">>)

UnClass(a, b, t) ==
  LET i    == a.ix[t]
      last == Slot(a, a.n)
  IN << IF i = a.n THEN "last"                    \* p == m
        ELSE IF b.ix[last] < i THEN "up"          \* the replacement moved towards the root
        ELSE IF b.ix[last] > i THEN "down"
        ELSE "stay",
        IF b.depth < a.depth THEN "level" ELSE "nolevel" >>

Unreg(t, c) ==
  LET b == Unregister(h, t)
  IN UnClass(h, b, t) = c /\ h' = b /\ reg' = reg \ {t}

UnLastLevel(t) == Unreg(t, <<"last", "level">>)
UnLast(t)      == Unreg(t, <<"last", "nolevel">>)
UnUpLevel(t)   == Unreg(t, <<"up", "level">>)
UnUp(t)        == Unreg(t, <<"up", "nolevel">>)
UnDownLevel(t) == Unreg(t, <<"down", "level">>)
UnDown(t)      == Unreg(t, <<"down", "nolevel">>)
UnStayLevel(t) == Unreg(t, <<"stay", "level">>)
UnStay(t)      == Unreg(t, <<"stay", "nolevel">>)

(* one iv_run_timers pass at time `now` whose handlers do nothing *)
PopOK(a, r, now) ==
  /\ \A k \in 1..Len(r.q) : a.ex[r.q[k]] <= now
  /\ \A k \in 1..(Len(r.q) - 1) : a.ex[r.q[k]] <= a.ex[r.q[k + 1]]
  /\ \A t \in Stored(r.h) : a.ex[t] > now
  /\ {r.q[k] : k \in 1..Len(r.q)} \cup Stored(r.h) = Stored(a)

Fire(now) ==
  LET r == RunTimers(h, now, <<>>)
      gone == {r.q[k] : k \in 1..Len(r.q)}
  IN /\ Len(r.q) > 0
     /\ Assert(PopOK(h, r, now), <<"iv_run_timers pops out of order", r.q>>)
     /\ h' = [r.h EXCEPT !.ix = [t \in Timers |-> IF t \in gone THEN -1 ELSE r.h.ix[t]]]
     /\ reg' = reg \ gone

Next ==
  \/ \E e \in Exps : \/ RegGrowUp(e) \/ RegGrowStay(e) \/ RegAllocUp(e)
                     \/ RegAllocStay(e) \/ RegPlainUp(e) \/ RegPlainStay(e)
  \/ \E t \in reg : \/ UnLastLevel(t) \/ UnLast(t) \/ UnUpLevel(t) \/ UnUp(t)
                    \/ UnDownLevel(t) \/ UnDown(t) \/ UnStayLevel(t) \/ UnStay(t)
  \/ \E now \in Exps : Fire(now)

Spec == Init /\ [][Next]_vars

LevelBound == TLCGet("level") <= MaxLevel

(* invariants, one per clause so that a failure names it *)
IHeapOrder    == HeapOrder(h)
IBackIndex    == StoredOK(h) /\ BackIndex(h)
IRootIsMin    == RootIsMin(h)
INoStale      == NoStale(h)
IDepthMinimal == DepthMinimal(h)
INoDangling   == NoDangling(h) /\ OverlayOK(h)
INoLeak       == NoLeak(h)
IMultiset     == NoDup(h) /\ Stored(h) = reg /\ {t \in Timers : h.ix[t] # -1} = reg /\ h.n = Cardinality(reg)
IDeinit       == DeinitFrees(h)
=============================================================================
