SPECIFICATION FairSpec
CONSTANTS
  Posters = {p1}
  SharedEv = {e1, e2}
  LocalEv = {e3}
  Transport = "kick"
  PostBudget = 2
  OwnerBudget = 2
PROPERTY Delivered
CHECK_DEADLOCK FALSE
