--------------------------- MODULE MonInotify ---------------------------
(* Property monitor for C20 "iv_inotify routes events to their watch;
   unregistering in handlers is safe", over OBSERVABLE events only.  The same
   operator is fed by the IvInotify system model (MC_Inotify) and by traces
   recorded from the real code (TraceInotify, harness/ivh_inotify.c).

   Events (records; field e is the kind):
     ApiB  op, o, os       the user calls iv_inotify_register ("ireg"), _unregister ("iunreg"),
                           iv_inotify_watch_register ("wreg"; os = 1: mask has IN_ONESHOT),
                           _watch_unregister ("wunreg") on object o (0 = the instance)
     ApiE  op, o, os, wd, ret   ... returns (wd: the descriptor the kernel assigned, wreg only)
     Read  recs            one read() on the inotify descriptor returned this sequence of
                           records [wd, ign (mask has IN_IGNORED), lc (name length in units of
                           sizeof(struct inotify_event)), mask, ck, name, al]  = GROUND TRUTH
     CbB   o, wd, ign, lc, mask, ck, name    handler of watch object o entered with this record
     CbE   o               ... returned
     Touch k, o            memory of a released object (k = "inst" | "watch") was written
     Fs / Ph               file-system operation / script phase of the harness (no meaning
                           except: at handler depth 0 the parse loop of the last read is over)
     End   why             ok | crash | hang

   Ghost state: which watch objects are registered and with which wd
   (m.reg); which were dropped by the library because their record carried
   IN_IGNORED or they are one-shot (m.dropped); which were unregistered
   through the API (m.unreg); the records of the read being parsed and the
   position the parse loop must have passed (m.batch, m.pos).

   Rules (m.viols); each is a clause of the property statement:
     C20:order       the deliveries made out of one read are a subsequence, in kernel
                     order, of that read's records (same wd, mask, cookie, len, name);
                     no delivery outside a read
     C20:misroute    the handler of watch o is called with a record whose wd is not the
                     wd o is currently registered with
     C20:missed      a record whose wd belongs to a watch that is registered when the
                     parse loop reaches it (earlier handler reactions of the same batch
                     taken into account) is passed over
     C20:after-unreg delivery to (or write into) a watch whose unregistration returned
     C20:stale-watch delivery to (or write into) a watch after the delivery of its
                     IN_IGNORED record / after its one-shot delivery: it was not dropped
                     from the instance before that handler ran
     C20:uaf-instance  delivery out of a batch after the instance was unregistered in
                     that batch, or a write into / crash on the released instance
     C20:crash-unregister-term   the process died inside iv_inotify_unregister() called
                     outside any handler (the uninitialised this->term store)
     C20:crash / C20:hang   the real code died / did not finish on a valid program
   m.seen collects tags of rules whose antecedent held (vacuity accounting). *)
EXTENDS Naturals, Integers, Sequences, FiniteSets, TLC

MonInit ==
  [ inst |-> "none",
    reg |-> {},          \* [o, wd, os] currently registered
    dropped |-> {},      \* [o, wd] dropped by the library at an IN_IGNORED / one-shot delivery
    unreg |-> {},        \* [o, wd] unregistered through the API (or with their instance)
    batch |-> <<>>, pos |-> 1, open |-> FALSE,
    igone |-> FALSE,     \* the instance was unregistered while this batch was open
    depth |-> 0,         \* handler nesting
    api |-> "",          \* API call in progress
    apiOut |-> FALSE,    \* ... was made outside any handler
    viols |-> {}, seen |-> {} ]

V(m, rule) == [m EXCEPT !.viols = @ \cup {rule}]
S(m, tag) == [m EXCEPT !.seen = @ \cup {tag}]
Chk(m, ante, ok, rule, tag) ==
  IF ante
  THEN [m EXCEPT !.seen = @ \cup {tag}, !.viols = IF ok THEN @ ELSE @ \cup {rule}]
  ELSE m

Wds(s) == {x.wd : x \in s}
Os(s) == {x.o : x \in s}

SameRec(r, e) == /\ r.wd = e.wd /\ r.ign = e.ign /\ r.lc = e.lc /\ r.mask = e.mask
                 /\ r.ck = e.ck /\ r.name = e.name

(* the parse loop has passed records from..to-1 of the open batch without a
   delivery: none of them may belong to a registered watch *)
RECURSIVE Skip(_, _, _)
Skip(m, from, to) ==
  IF from >= to THEN m
  ELSE LET r == m.batch[from]
           m1 == Chk(m, TRUE, r.wd \notin Wds(m.reg), "C20:missed",
                     IF m.igone THEN "C20:skip:inst-gone"
                     ELSE IF r.wd \in Wds(m.unreg) THEN "C20:skip:unregistered"
                     ELSE IF r.wd \in Wds(m.dropped) THEN "C20:skip:dropped"
                     ELSE "C20:skip:unknown")
       IN Skip(m1, from + 1, to)

(* the parse loop of the open batch is over *)
Close(m) ==
  IF ~m.open THEN m
  ELSE [Skip(m, m.pos, Len(m.batch) + 1) EXCEPT !.open = FALSE, !.batch = <<>>, !.pos = 1, !.igone = FALSE]

AtTop(m) == IF m.depth = 0 THEN Close(m) ELSE m

Deliver(m, e) ==
  LET cand == IF m.open THEN {j \in m.pos..Len(m.batch) : SameRec(m.batch[j], e)} ELSE {}
      j == IF cand = {} THEN 0 ELSE CHOOSE x \in cand : \A y \in cand : x <= y
      (* kernel order / ground truth *)
      m1 == Chk(m, TRUE, j # 0, "C20:order",
                IF m.open /\ Len(m.batch) > 1 THEN "C20:order:multi" ELSE "C20:order")
      m2 == IF j # 0 THEN [Skip(m1, m.pos, j) EXCEPT !.pos = j + 1] ELSE m1
      (* nothing out of a batch once the instance is gone *)
      m3 == IF m.inst # "reg" THEN V(m2, "C20:uaf-instance") ELSE m2
      me == {x \in m.reg : x.o = e.o}
      (* routing *)
      m4 == CASE me # {} ->
                   LET w == CHOOSE x \in me : TRUE IN
                   Chk(m3, TRUE, w.wd = e.wd, "C20:misroute",
                       IF e.lc > 0 THEN "C20:route:named" ELSE "C20:route")
              [] e.o \in Os(m.dropped) -> V(m3, "C20:stale-watch")
              [] e.o \in Os(m.unreg) -> IF m.inst = "reg" THEN V(m3, "C20:after-unreg") ELSE m3
              [] OTHER -> V(m3, "C20:misroute")
      (* the library drops the watch before this handler runs *)
      gone == {x \in me : x.wd = e.wd /\ (e.ign = 1 \/ x.os = 1)}
      m5 == IF gone = {} THEN m4
            ELSE S([m4 EXCEPT !.reg = @ \ gone, !.dropped = @ \cup {[o |-> x.o, wd |-> x.wd] : x \in gone}],
                   IF e.ign = 1 THEN "C20:drop:ignored" ELSE "C20:drop:oneshot")
      m6 == IF m.depth > 0 THEN V(m5, "C20:order") ELSE m5      \* handlers do not nest
  IN [m6 EXCEPT !.depth = @ + 1]

ApiEnd(m, e) ==
  LET m0 == [m EXCEPT !.api = ""]
      where == IF m.depth > 0 THEN "in-handler" ELSE "outside" IN
  CASE e.op = "ireg" -> IF e.ret = 0 THEN [m0 EXCEPT !.inst = "reg"] ELSE m0
    [] e.op = "wreg" ->
         IF e.ret # 0 THEN m0
         ELSE S([m0 EXCEPT !.reg = @ \cup {[o |-> e.o, wd |-> e.wd, os |-> e.os]}],
                "C20:wreg:" \o where)
    [] e.op = "wunreg" ->
         LET me == {x \in m.reg : x.o = e.o} IN
         S([m0 EXCEPT !.reg = @ \ me, !.unreg = @ \cup {[o |-> x.o, wd |-> x.wd] : x \in me}],
           "C20:wunreg:" \o where)
    [] e.op = "iunreg" ->
         S([m0 EXCEPT !.inst = "unreg", !.reg = {},
                      !.unreg = @ \cup {[o |-> x.o, wd |-> x.wd] : x \in m.reg},
                      !.igone = m.open],
           "C20:iunreg:" \o where)
    [] OTHER -> m0

Released(m, e) ==
  CASE e.k = "inst" -> V(m, "C20:uaf-instance")
    [] e.o \in Os(m.dropped) -> V(m, "C20:stale-watch")
    [] OTHER -> V(m, "C20:after-unreg")

Ended(m, e) ==
  CASE e.why = "crash" ->
         IF m.api = "iunreg" /\ m.apiOut THEN V(m, "C20:crash-unregister-term")
         ELSE IF m.igone \/ (m.inst = "unreg" /\ m.depth > 0)
         THEN V(V(m, "C20:uaf-instance"), "C20:crash")
         ELSE V(m, "C20:crash")
    [] e.why = "hang" -> V(m, "C20:hang")
    [] OTHER -> Close(m)

MonStep(m, e) ==
  CASE e.e = "ApiB" -> [AtTop(m) EXCEPT !.api = e.op, !.apiOut = (m.depth = 0)]
    [] e.e = "ApiE" -> ApiEnd(m, e)
    [] e.e = "Read" ->
         LET m1 == Close(m) IN
         S([m1 EXCEPT !.batch = e.recs, !.pos = 1, !.open = Len(e.recs) > 0, !.igone = FALSE],
           IF Len(e.recs) > 1 THEN "C20:read:multi" ELSE "C20:read")
    [] e.e = "CbB" -> Deliver(m, e)
    [] e.e = "CbE" -> [m EXCEPT !.depth = IF @ > 0 THEN @ - 1 ELSE 0]
    [] e.e = "Touch" -> Released(m, e)
    [] e.e \in {"Fs", "Ph"} -> AtTop(m)
    [] e.e = "End" -> Ended(m, e)
    (* another thread's own instance (its own loop, directory, three IN_CREATE events): it got
       exactly its events -- instances of different threads share nothing *)
    [] e.e = "Peer" -> Chk(m, TRUE, e.n = 3 /\ e.bad = 0, "C20:peer", "C20:peer")
    [] OTHER -> m
=============================================================================
