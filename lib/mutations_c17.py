"""Source mutations of src/iv_fd_pump.c for the C17 binding demonstration
(same format as lib/mutations.py; applied to a scratch copy of /repo/src via
VERIF_REPO, see bin/mut-test).  `benign: True` marks behaviour-preserving
refactorings that must raise no alarm."""
F = "iv_fd_pump.c"
MUTATIONS = [
 # compaction after a partial write keeps one already delivered byte (duplication)
 dict(name="pump-memmove-offset", props=["C17"], edits=[(F,
      "memmove(buf->u.buf, buf->u.buf + ret, ip->bytes);",
      "memmove(buf->u.buf, buf->u.buf + ret - 1, ip->bytes);")]),
 # compaction moves only half of what is left (stale bytes are delivered later)
 dict(name="pump-memmove-length", props=["C17"], edits=[(F,
      "memmove(buf->u.buf, buf->u.buf + ret, ip->bytes);",
      "memmove(buf->u.buf, buf->u.buf + ret, ip->bytes / 2);")]),
 # `full` is never cleared once the buffer has been full
 dict(name="pump-full-not-cleared", props=["C17"], edits=[(F,
      "\tip->full = 0;\n\n\tip->bytes -= ret;", "\tip->bytes -= ret;")]),
 # end-of-file is relayed after the first write, before the buffer is empty
 dict(name="pump-fin-before-drain", props=["C17"], edits=[(F,
      "\tif (!ip->bytes && ip->saw_fin == 1) {", "\tif (ip->saw_fin == 1) {")]),
 # end-of-file with data pending is treated like end-of-file with an empty buffer
 dict(name="pump-eof-drops-pending", props=["C17"], edits=[(F,
      "\t\tip->saw_fin = 1;\n\t\tif (!ip->bytes) {", "\t\tip->saw_fin = 1;\n\t\tif (1) {")]),
 # output is shut down although RELAY_EOF was not requested
 dict(name="pump-shutdown-without-flag", props=["C17"], edits=[(F,
      "\tif (!ip->bytes && ip->saw_fin == 1) {\n\t\tif (ip->flags & IV_FD_PUMP_FLAG_RELAY_EOF)",
      "\tif (!ip->bytes && ip->saw_fin == 1) {\n\t\tif (1)")]),
 # EOF relayed after a drain forgets the shutdown
 dict(name="pump-shutdown-missing", props=["C17"], edits=[(F,
      "\tif (!ip->bytes && ip->saw_fin == 1) {\n\t\tif (ip->flags & IV_FD_PUMP_FLAG_RELAY_EOF)\n\t\t\tshutdown(ip->to_fd, SHUT_WR);",
      "\tif (!ip->bytes && ip->saw_fin == 1) {")]),
 # input is requested even when the buffer is full
 dict(name="pump-bands-ignore-full", props=["C17"], edits=[(F,
      "ip->set_bands(ip->cookie, !ip->full, !!ip->bytes);", "ip->set_bands(ip->cookie, 1, !!ip->bytes);")]),
 # after EOF with data left, input is still requested
 dict(name="pump-bands-fin-pending", props=["C17"], edits=[(F,
      "ip->set_bands(ip->cookie, 0, 1);", "ip->set_bands(ip->cookie, 1, 1);")]),
 # "done" is reported as "more to do"
 dict(name="pump-ret-after-eof", props=["C17"], edits=[(F,
      "ip->set_bands(ip->cookie, 0, 0);\n\t\treturn 0;", "ip->set_bands(ip->cookie, 0, 0);\n\t\treturn 1;")]),
 # byte count overwritten instead of accumulated when data is already buffered
 dict(name="pump-bytes-overwrite", props=["C17"], edits=[(F,
      "\tip->bytes += ret;", "\tip->bytes = ret;")]),
 # the FIONREAD rule of splice mode is inverted
 dict(name="pump-fionread-inverted", props=["C17"], edits=[(F,
      "\t\t\tif (bytes > 0)\n\t\t\t\tip->full = 1;", "\t\t\tif (bytes <= 0)\n\t\t\t\tip->full = 1;")]),
 # new data is read over the data that is still pending
 dict(name="pump-read-over-pending", props=["C17"], edits=[(F,
      "ret = read(ip->from_fd, buf->u.buf + ip->bytes,", "ret = read(ip->from_fd, buf->u.buf,")]),
 # a would-block on output is reported as an error
 dict(name="pump-eagain-is-error", props=["C17"], edits=[(F,
      "return (ret < 0 && errno == EAGAIN) ? 0 : -1;", "return -1;")]),
 # ---- behaviour-preserving refactorings
 dict(name="refactor-pump-skip-empty-memmove", props=["C17"], benign=True, edits=[(F,
      "\tif (!splice_available)\n\t\tmemmove(buf->u.buf, buf->u.buf + ret, ip->bytes);",
      "\tif (!splice_available && ip->bytes)\n\t\tmemmove(buf->u.buf, buf->u.buf + ret, ip->bytes);")]),
 dict(name="refactor-pump-bands-expr", props=["C17"], benign=True, edits=[(F,
      "ip->set_bands(ip->cookie, !ip->full, !!ip->bytes);",
      "ip->set_bands(ip->cookie, ip->full ? 0 : 1, ip->bytes > 0);")]),
 dict(name="refactor-pump-output-order", props=["C17"], benign=True, edits=[(F,
      "\tip->full = 0;\n\n\tip->bytes -= ret;", "\tip->bytes -= ret;\n\tip->full = 0;")]),
]
