SPECIFICATION GSpec
CONSTANTS
  Ev = {"1", "2"}
  Posters = {"p1"}
  Transport = "raw"
  MaxFail = 1
  MaxOps = 4
  PostBudget = 2
INVARIANTS Emit CountOK RxOK NoLostWakeup
VIEW GView
CHECK_DEADLOCK FALSE
