SPECIFICATION Spec
CONSTANTS
  FD = {1, 2}
  TM = {}
  TK = {}
  EVS = {}
  Method = "ep"
  Hids = {1}
  Expiries = {0}
  MaxTime = 2
  MaxOps = 3
  MaxSetup = 2
  MaxCbOps = 2
  MaxWaits = 2
  MaxKern = 2
  AllowTry = FALSE
  KeepTasks = FALSE
  KernMode = "pipe"
  GenMode = TRUE
  MaxIntr = 0
  InitBits = {0, 1}
INVARIANTS NoViolation Emit
CHECK_DEADLOCK FALSE
