CONSTANTS
  SplitBits = 2
  MaxNodes = 20
  MaxT = 9
  NExp = 3
  MaxLevel = 100000
CONSTANT Timers <- TimerSet
INIT Init
NEXT Next
CONSTRAINT LevelBound
CHECK_DEADLOCK FALSE
INVARIANTS IHeapOrder IBackIndex IRootIsMin INoStale IDepthMinimal INoDangling INoLeak IMultiset IDeinit
