SPECIFICATION Spec
CONSTANTS
  H = 5
  SampleMod = 350
CHECK_DEADLOCK FALSE
INVARIANTS
  InvBuilt
  InvParent
  InvSet
  InvOrder
  InvHeight
  InvBalance
  InvTraversal
  InvDup
  InvJudge
  Emit
