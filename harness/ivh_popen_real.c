/* ivh_popen_real -- pass-through scenario for the wiring clause of C19: a real
 * fork/exec through iv_popen_request_submit(), real time, real SIGCHLD.  The
 * child is /bin/sh running a tiny script that reports what its standard
 * descriptors are connected to; the harness only logs, MonSig decides. */
#define _GNU_SOURCE
#include <stdio.h>
#include <stdlib.h>
#include <string.h>
#include <unistd.h>
#include <fcntl.h>
#include <errno.h>
#include <sys/stat.h>
#include <iv.h>
#include <iv_popen.h>

static struct iv_popen_request req;
static struct iv_fd rfd;
static struct iv_timer tmo;
static char out[512];
static size_t outlen;
static char report_path[128];
static int type_w;

static const char *classify(const char *s, const char *pipe_target)
{
	if (s[0] == 0)
		return "unknown";	/* the child's report did not arrive (loaded machine): no verdict */
	if (!strncmp(s, "/dev/null", 9))
		return "null";
	if (!strncmp(s, "pipe:", 5))
		return "pipe";
	return "other";
}

static void finish(void)
{
	char a[3][160] = { "", "", "" };
	char *p = out;
	const char *src = out;

	if (type_w) {
		/* the child wrote its report to a file (its stdout is /dev/null) */
		FILE *f = NULL;
		for (int i = 0; i < 100 && !f; i++) {
			struct stat st;
			if (stat(report_path, &st) == 0 && st.st_size > 0)
				f = fopen(report_path, "r");
			else
				usleep(20000);
		}
		if (f) {
			outlen = fread(out, 1, sizeof out - 1, f);
			out[outlen] = 0;
			fclose(f);
		}
		unlink(report_path);
	}
	(void)src;
	for (int i = 0; i < 3 && p; i++) {
		char *nl = strchr(p, '\n');
		if (nl)
			*nl = 0;
		snprintf(a[i], sizeof a[i], "%s", p);
		p = nl ? nl + 1 : NULL;
	}
	printf("{\"t\":0,\"e\":\"Wiring\",\"type\":\"%s\",\"fd0\":\"%s\",\"fd1\":\"%s\",\"fd2\":\"%s\"}\n",
	       type_w ? "w" : "r", classify(a[0], NULL), classify(a[1], NULL), classify(a[2], NULL));
}

static void got_data(void *c)
{
	ssize_t r = read(rfd.fd, out + outlen, sizeof out - 1 - outlen);

	if (r > 0) {
		outlen += r;
		out[outlen] = 0;
		return;
	}
	iv_fd_unregister(&rfd);
	iv_popen_request_close(&req);
	close(rfd.fd);
	if (iv_timer_registered(&tmo))
		iv_timer_unregister(&tmo);
}

static void timed_out(void *c)
{
	if (iv_fd_registered(&rfd))
		iv_fd_unregister(&rfd);
	iv_popen_request_close(&req);
	close(rfd.fd);
}

static int wfd = -1, wtries;

static void w_poll(void *c)
{
	struct stat st;

	if ((stat(report_path, &st) == 0 && st.st_size > 0) || ++wtries > 100) {
		iv_popen_request_close(&req);
		close(wfd);
		return;
	}
	iv_validate_now();
	tmo.expires = iv_now;
	tmo.expires.tv_nsec += 50000000;
	if (tmo.expires.tv_nsec >= 1000000000) { tmo.expires.tv_nsec -= 1000000000; tmo.expires.tv_sec++; }
	iv_timer_register(&tmo);
}

int main(int argc, char **argv)
{
	static char script[512];
	char *av[] = { "/bin/sh", "-c", script, NULL };
	int fd;

	type_w = argc > 1 && !strcmp(argv[1], "w");
	snprintf(report_path, sizeof report_path, "/tmp/ivh-popen-%d.txt", (int)getpid());
	if (!type_w)
		snprintf(script, sizeof script, "readlink /proc/self/fd/0; readlink /proc/self/fd/1; readlink /proc/self/fd/2");
	else
		/* (the shell's own descriptors: inside a redirection or a substitution 1 would be something else) */
		snprintf(script, sizeof script, "a=$(readlink /proc/$$/fd/0); b=$(readlink /proc/$$/fd/1); c=$(readlink /proc/$$/fd/2); "
			 "printf '%%s\\n%%s\\n%%s\\n' \"$a\" \"$b\" \"$c\" > %s.tmp; mv %s.tmp %s; cat > /dev/null", report_path, report_path, report_path);
	printf("{\"t\":0,\"e\":\"Reset\",\"id\":\"popen-real-%s\",\"m\":\"real\",\"nf\":0}\n", type_w ? "w" : "r");
	iv_init();
	IV_POPEN_REQUEST_INIT(&req);
	req.file = "/bin/sh";
	req.argv = av;
	req.type = type_w ? "w" : "r";
	fd = iv_popen_request_submit(&req);
	if (fd < 0) {
		printf("{\"t\":0,\"e\":\"End\",\"why\":\"exit\",\"sig\":1,\"now\":[0,0]}\n");
		return 0;
	}
	IV_TIMER_INIT(&tmo);
	iv_validate_now();
	tmo.expires = iv_now;
	tmo.expires.tv_sec += 20;
	tmo.handler = timed_out;
	IV_FD_INIT(&rfd);
	rfd.fd = fd;
	if (!type_w) {
		rfd.handler_in = got_data;
		iv_fd_register(&rfd);
		iv_timer_register(&tmo);
	} else {
		/* write something; close once the child has written its report (or after 5 s): its cat
		 * sees EOF and exits */
		if (write(fd, "hello\n", 6) < 0)
			perror("write");
		wfd = fd;
		tmo.handler = w_poll;
		tmo.expires = iv_now;
		tmo.expires.tv_nsec += 50000000;
		if (tmo.expires.tv_nsec >= 1000000000) { tmo.expires.tv_nsec -= 1000000000; tmo.expires.tv_sec++; }
		iv_timer_register(&tmo);
	}
	iv_main();
	iv_deinit();
	finish();
	printf("{\"t\":0,\"e\":\"End\",\"why\":\"ok\",\"sig\":0,\"now\":[0,0]}\n");
	return 0;
}
