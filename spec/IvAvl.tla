------------------------------ MODULE IvAvl ------------------------------
(* C16 -- the AVL tree of ivykis (src/iv_avl.c, src/include/iv_avl.h).

   PART 1 is a statement-by-statement transcription of the C code over an
   explicit node heap, one operator per C function, so that the two texts can
   be read side by side.  PART 2 states property C16 as predicates on such a
   heap; they are what TLC evaluates both on the model's own results
   (MC_Avl.tla) and on structures dumped from the real code (TraceAvl.tla).
   PART 3 is a one-pass evaluation of the same predicates (checked equal to
   PART 2 by MC_Avl), needed because millions of heaps are judged.

   A tree value t is a record
       [root, left, right, parent, height, key]
   root is a node id or NULL; the other fields are functions (tuples) over
   the node ids 1..NN(t) -- the struct iv_avl_node fields of every node object
   that exists, whether it is linked into the tree or not.  key[n] is what
   tree->compare looks at.  NULL = 0.  The C code never reads a field of a
   node that is outside the tree, and never writes one except in insert, and
   the transcription keeps exactly that (a deleted node keeps stale links).

   C assigns in sequence; every assignment is one LET binding t1, t2, ... so
   later statements read what earlier ones wrote.  A `struct iv_avl_node **`
   is modelled by a reference value: RootRef (= &tree->root), LeftRef(n)
   (= &n->left), RightRef(n) (= &n->right).
   uint8_t height: heights stay far below 256 for any tree that fits a model
   or a test (a height-13 AVL tree needs 609 nodes), so no wrap is modelled. *)
EXTENDS Integers, Sequences, FiniteSets

NULL == 0
NN(t) == Len(t.left)
Ids(t) == 1..NN(t)

(* ------------------------------------------------------------------------
   PART 1 -- iv_avl.c
   ------------------------------------------------------------------------ *)
RootRef == <<0, 0>>
LeftRef(n) == <<n, 1>>
RightRef(n) == <<n, 2>>

(* *ref *)
Deref(t, ref) == IF ref[2] = 0 THEN t.root
                 ELSE IF ref[2] = 1 THEN t.left[ref[1]] ELSE t.right[ref[1]]
(* *ref = v *)
Assign(t, ref, v) == IF ref[2] = 0 THEN [t EXCEPT !.root = v]
                     ELSE IF ref[2] = 1 THEN [t EXCEPT !.left[ref[1]] = v]
                     ELSE [t EXCEPT !.right[ref[1]] = v]

(* tree->compare(a, b) *)
Compare(t, a, b) == t.key[a] - t.key[b]

(* static int height(const struct iv_avl_node *an) *)
Height(t, an) == IF an # NULL THEN t.height[an] ELSE 0

(* static void recalc_height(struct iv_avl_node *an) *)
RecalcHeight(t, an) ==
  LET hl == Height(t, t.left[an])
      hr == Height(t, t.right[an])
  IN [t EXCEPT !.height[an] = 1 + (IF hl > hr THEN hl ELSE hr)]

(* static void rotate_left(struct iv_avl_node **root) *)
RotateLeft(t, root) ==
  LET b  == Deref(t, root)
      d  == t.right[b]
      c  == t.left[d]
      t1 == [t EXCEPT !.right[b] = c]
      t2 == IF c # NULL THEN [t1 EXCEPT !.parent[c] = b] ELSE t1
      t3 == RecalcHeight(t2, b)
      t4 == [t3 EXCEPT !.left[d] = b]
      t5 == [t4 EXCEPT !.parent[d] = t4.parent[b]]
      t6 == [t5 EXCEPT !.parent[b] = d]
      t7 == RecalcHeight(t6, d)
  IN Assign(t7, root, d)

(* static void rotate_right(struct iv_avl_node **root) *)
RotateRight(t, root) ==
  LET d  == Deref(t, root)
      b  == t.left[d]
      c  == t.right[b]
      t1 == [t EXCEPT !.left[d] = c]
      t2 == IF c # NULL THEN [t1 EXCEPT !.parent[c] = d] ELSE t1
      t3 == RecalcHeight(t2, d)
      t4 == [t3 EXCEPT !.right[b] = d]
      t5 == [t4 EXCEPT !.parent[b] = t4.parent[d]]
      t6 == [t5 EXCEPT !.parent[d] = b]
      t7 == RecalcHeight(t6, b)
  IN Assign(t7, root, b)

(* static void rotate_left_right(struct iv_avl_node **root) *)
RotateLeftRight(t, root) ==
  LET f   == Deref(t, root)
      b   == t.left[f]
      d   == t.right[b]
      c   == t.left[d]
      t1  == [t EXCEPT !.right[b] = c]
      t2  == IF c # NULL THEN [t1 EXCEPT !.parent[c] = b] ELSE t1
      t3  == RecalcHeight(t2, b)
      e   == t3.right[d]
      t4  == [t3 EXCEPT !.left[f] = e]
      t5  == IF e # NULL THEN [t4 EXCEPT !.parent[e] = f] ELSE t4
      t6  == RecalcHeight(t5, f)
      t7  == [t6 EXCEPT !.left[d] = b]
      t8  == [t7 EXCEPT !.right[d] = f]
      t9  == [t8 EXCEPT !.parent[d] = t8.parent[f]]
      t10 == [t9 EXCEPT !.parent[b] = d]
      t11 == [t10 EXCEPT !.parent[f] = d]
      t12 == RecalcHeight(t11, d)
  IN Assign(t12, root, d)

(* static void rotate_right_left(struct iv_avl_node **root) *)
RotateRightLeft(t, root) ==
  LET b   == Deref(t, root)
      f   == t.right[b]
      d   == t.left[f]
      c   == t.left[d]
      t1  == [t EXCEPT !.right[b] = c]
      t2  == IF c # NULL THEN [t1 EXCEPT !.parent[c] = b] ELSE t1
      t3  == RecalcHeight(t2, b)
      e   == t3.right[d]
      t4  == [t3 EXCEPT !.left[f] = e]
      t5  == IF e # NULL THEN [t4 EXCEPT !.parent[e] = f] ELSE t4
      t6  == RecalcHeight(t5, f)
      t7  == [t6 EXCEPT !.left[d] = b]
      t8  == [t7 EXCEPT !.right[d] = f]
      t9  == [t8 EXCEPT !.parent[d] = t8.parent[b]]
      t10 == [t9 EXCEPT !.parent[b] = d]
      t11 == [t10 EXCEPT !.parent[f] = d]
      t12 == RecalcHeight(t11, d)
  IN Assign(t12, root, d)

(* static int balance(const struct iv_avl_node *an) *)
Balance(t, an) == Height(t, t.right[an]) - Height(t, t.left[an])

(* static void rebalance_node(struct iv_avl_node **_root) *)
RebalanceNode(t, _root) ==
  LET root == Deref(t, _root)
      bal  == Balance(t, root)
  IN IF bal = -2 THEN
          IF Balance(t, t.left[root]) <= 0 THEN RotateRight(t, _root)
                                           ELSE RotateLeftRight(t, _root)
     ELSE IF bal = 2 THEN
          IF Balance(t, t.right[root]) < 0 THEN RotateRightLeft(t, _root)
                                           ELSE RotateLeft(t, _root)
     ELSE t

(* static struct iv_avl_node **find_reference(tree, an) *)
FindReference(t, an) ==
  IF t.parent[an] # NULL THEN
       IF t.left[t.parent[an]] = an THEN LeftRef(t.parent[an])
                                    ELSE RightRef(t.parent[an])
  ELSE RootRef

(* static void replace_reference(tree, an, new_child) *)
ReplaceReference(t, an, new_child) == Assign(t, FindReference(t, an), new_child)

(* static void rebalance_path(struct iv_avl_tree *tree, struct iv_avl_node *an)
   one call = the rest of the while loop starting at `an` *)
RECURSIVE RebalancePath(_, _)
RebalancePath(t, an) ==
  IF an = NULL THEN t
  ELSE LET old_height == t.height[an]
           t1  == RecalcHeight(t, an)
           ref == FindReference(t1, an)
           t2  == RebalanceNode(t1, ref)
           an2 == Deref(t2, ref)
       IN IF old_height = t2.height[an2]
          THEN t2                                   \* break
          ELSE RebalancePath(t2, t2.parent[an2])    \* an = an->parent

(* the descent loop of iv_avl_tree_insert; result [dup, p, pp] *)
RECURSIVE InsertFind(_, _, _, _)
InsertFind(t, an, p, pp) ==
  IF Deref(t, pp) = NULL THEN [dup |-> FALSE, p |-> p, pp |-> pp]
  ELSE LET p1  == Deref(t, pp)
           ret == Compare(t, an, p1)
       IN IF ret < 0 THEN InsertFind(t, an, p1, LeftRef(p1))
          ELSE IF ret > 0 THEN InsertFind(t, an, p1, RightRef(p1))
          ELSE [dup |-> TRUE, p |-> p1, pp |-> pp]           \* return -1

(* int iv_avl_tree_insert(tree, an); result [ret, t] *)
Insert(t, an) ==
  LET f == InsertFind(t, an, NULL, RootRef)
  IN IF f.dup THEN [ret |-> -1, t |-> t]
     ELSE LET t1 == [t  EXCEPT !.left[an] = NULL]
              t2 == [t1 EXCEPT !.right[an] = NULL]
              t3 == [t2 EXCEPT !.parent[an] = f.p]
              t4 == [t3 EXCEPT !.height[an] = 1]
              t5 == Assign(t4, f.pp, an)
          IN [ret |-> 0, t |-> RebalancePath(t5, f.p)]

(* while (victim->right != NULL) victim = victim->right;  and its mirror *)
RECURSIVE Rightmost(_, _)
Rightmost(t, an) == IF t.right[an] # NULL THEN Rightmost(t, t.right[an]) ELSE an
RECURSIVE Leftmost(_, _)
Leftmost(t, an) == IF t.left[an] # NULL THEN Leftmost(t, t.left[an]) ELSE an

(* iv_avl_tree_delete_leaf; result [p, t] *)
DeleteLeaf(t, an) ==
  [p |-> t.parent[an], t |-> ReplaceReference(t, an, NULL)]

(* iv_avl_tree_delete_nonleaf; result [p, t] *)
DeleteNonleaf(t, an) ==
  LET fromLeft == Height(t, t.left[an]) > Height(t, t.right[an])
      victim   == IF fromLeft THEN Rightmost(t, t.left[an])
                              ELSE Leftmost(t, t.right[an])
      child    == IF fromLeft THEN t.left[victim] ELSE t.right[victim]
      t1  == ReplaceReference(t, victim, child)
      t2  == IF child # NULL THEN [t1 EXCEPT !.parent[child] = t1.parent[victim]]
                             ELSE t1
      p0  == t2.parent[victim]
      p   == IF p0 = an THEN victim ELSE p0
      t3  == ReplaceReference(t2, an, victim)
      t4  == [t3 EXCEPT !.left[victim]   = t3.left[an]]
      t5  == [t4 EXCEPT !.right[victim]  = t4.right[an]]
      t6  == [t5 EXCEPT !.parent[victim] = t5.parent[an]]
      t7  == [t6 EXCEPT !.height[victim] = t6.height[an]]
      t8  == IF t7.left[victim] # NULL
             THEN [t7 EXCEPT !.parent[t7.left[victim]] = victim] ELSE t7
      t9  == IF t8.right[victim] # NULL
             THEN [t8 EXCEPT !.parent[t8.right[victim]] = victim] ELSE t8
  IN [p |-> p, t |-> t9]

(* void iv_avl_tree_delete(tree, an) *)
Delete(t, an) ==
  LET d == IF t.left[an] = NULL /\ t.right[an] = NULL
           THEN DeleteLeaf(t, an) ELSE DeleteNonleaf(t, an)
  IN RebalancePath(d.t, d.p)

(* struct iv_avl_node *iv_avl_tree_next(struct iv_avl_node *an) *)
RECURSIVE ClimbWhileRight(_, _, _)
ClimbWhileRight(t, an, p) ==      \* while (p != NULL && an == p->right)
  IF p # NULL /\ an = t.right[p] THEN ClimbWhileRight(t, p, t.parent[p]) ELSE p
Next(t, an) ==
  IF t.right[an] # NULL THEN Leftmost(t, t.right[an])
  ELSE ClimbWhileRight(t, an, t.parent[an])

(* struct iv_avl_node *iv_avl_tree_prev(struct iv_avl_node *an) *)
RECURSIVE ClimbWhileLeft(_, _, _)
ClimbWhileLeft(t, an, p) ==       \* while (p != NULL && an == p->left)
  IF p # NULL /\ an = t.left[p] THEN ClimbWhileLeft(t, p, t.parent[p]) ELSE p
Prev(t, an) ==
  IF t.left[an] # NULL THEN Rightmost(t, t.left[an])
  ELSE ClimbWhileLeft(t, an, t.parent[an])

(* iv_avl_tree_min / iv_avl_tree_max / iv_avl_tree_empty (iv_avl.h) *)
Min(t) == IF t.root # NULL THEN Leftmost(t, t.root) ELSE NULL
Max(t) == IF t.root # NULL THEN Rightmost(t, t.root) ELSE NULL
Empty(t) == t.root = NULL

(* iv_avl_tree_for_each: min, next, next, ... until NULL; and the mirror *)
RECURSIVE WalkFrom(_, _, _)
WalkFrom(t, an, fwd) ==
  IF an = NULL THEN <<>>
  ELSE <<an>> \o WalkFrom(t, IF fwd THEN Next(t, an) ELSE Prev(t, an), fwd)
Forward(t)  == WalkFrom(t, Min(t), TRUE)
Backward(t) == WalkFrom(t, Max(t), FALSE)

(* One API call.  op = [kind |-> "ins" | "del", n |-> node, key |-> k]:
   for "ins" the caller first stores k in the (unlinked) node, as the user of
   the library does before calling iv_avl_tree_insert.  Result [ret, t]. *)
SetKey(t, op) == IF op.kind = "ins" THEN [t EXCEPT !.key[op.n] = op.key] ELSE t
Apply(t, op) ==
  IF op.kind = "ins" THEN Insert(SetKey(t, op), op.n)
                     ELSE [ret |-> 0, t |-> Delete(t, op.n)]

(* ------------------------------------------------------------------------
   PART 2 -- property C16 on an arbitrary heap
   Every predicate terminates on ANY heap (cycles, shared or wild links):
   WellLinked is evaluated without recursion over the structure, and the
   recursive ones are only evaluated under WellLinked.
   ------------------------------------------------------------------------ *)
IsId(t, x) == x \in Ids(t)
IdOrNull(t, x) == x = NULL \/ IsId(t, x)

Kids(t, n) == {c \in {t.left[n], t.right[n]} : IsId(t, c)}

(* the nodes linked into the tree: least fixpoint, at most NN(t) rounds *)
RECURSIVE Grow(_, _)
Grow(t, R) == LET R2 == R \cup UNION {Kids(t, n) : n \in R}
              IN IF R2 = R THEN R ELSE Grow(t, R2)
Reach(t) == Grow(t, IF IsId(t, t.root) THEN {t.root} ELSE {})

(* "parent": links are ids or NULL, every child points back to its parent,
   the root has no parent, no node is both children of one node.  Together:
   every linked node has exactly one incoming link and the root has none, so
   the linked nodes form a tree (no sharing, no cycle). *)
WellLinked(t) ==
  /\ IdOrNull(t, t.root)
  /\ (t.root # NULL => t.parent[t.root] = NULL)
  /\ \A n \in Reach(t) :
       /\ IdOrNull(t, t.left[n]) /\ IdOrNull(t, t.right[n])
       /\ (t.left[n]  # NULL => t.parent[t.left[n]]  = n)
       /\ (t.right[n] # NULL => t.parent[t.right[n]] = n)
       /\ (t.left[n]  # NULL => t.left[n] # t.right[n])

(* below here t is WellLinked *)
RECURSIVE TrueHeight(_, _)
TrueHeight(t, n) ==
  IF n = NULL THEN 0
  ELSE LET a == TrueHeight(t, t.left[n])
           b == TrueHeight(t, t.right[n])
       IN 1 + (IF a > b THEN a ELSE b)

RECURSIVE InOrderFrom(_, _)
InOrderFrom(t, n) ==
  IF n = NULL THEN <<>>
  ELSE InOrderFrom(t, t.left[n]) \o <<n>> \o InOrderFrom(t, t.right[n])
InOrder(t) == InOrderFrom(t, t.root)

Reverse(s) == [i \in 1..Len(s) |-> s[Len(s) + 1 - i]]

(* "height": the recorded height of every linked node is its true height *)
HeightsExact(t) == \A n \in Reach(t) : t.height[n] = TrueHeight(t, n)
(* "balance": true subtree heights differ by at most one, everywhere *)
Balanced(t) == \A n \in Reach(t) :
                 LET d == TrueHeight(t, t.right[n]) - TrueHeight(t, t.left[n])
                 IN d \in {-1, 0, 1}
(* "order": comparator order is strict along the in-order sequence *)
Ordered(t) == LET s == InOrder(t)
              IN \A i \in 1..(Len(s) - 1) : Compare(t, s[i], s[i + 1]) < 0
(* "set": exactly the nodes of S are linked *)
HasSet(t, S) == Reach(t) = S
(* "traversal": a forward walk fwd and a backward walk bwd (made with
   min/next and max/prev) visit the in-order sequence and its reverse *)
TraversalOK(t, fwd, bwd) == fwd = InOrder(t) /\ bwd = Reverse(InOrder(t))

(* the structural clauses, as the set of clause names that fail *)
StructViols(t, S) ==
  IF ~WellLinked(t) THEN {"parent"}
  ELSE (IF HasSet(t, S) THEN {} ELSE {"set"})
       \cup (IF Ordered(t) THEN {} ELSE {"order"})
       \cup (IF HeightsExact(t) THEN {} ELSE {"height"})
       \cup (IF Balanced(t) THEN {} ELSE {"balance"})

(* One observed API call against the property.
     pre   heap before the call (key of op.n already stored for "ins")
     S     set of nodes that were in the tree before the call
     op    the call, ret its return value (0 for delete)
     post  heap after the call;  fwd, bwd: walks over post
   Result: the set of violated clause names. *)
IsDup(pre, S, op) == op.kind = "ins" /\ \E m \in S : pre.key[m] = op.key
SetAfter(pre, S, op) ==
  IF op.kind = "del" THEN S \ {op.n}
  ELSE IF IsDup(pre, S, op) THEN S ELSE S \cup {op.n}

(* "changes nothing": the root pointer and every field of every node of the
   tree are as before.  (The rejected node itself is the caller's; the C code
   does not touch it either, and the model checker verifies post = pre for the
   model, but a version that initialised it first would still be correct --
   for the real code that is lock-step drift, not a violation.) *)
SameTree(pre, post, S) ==
  /\ post.root = pre.root
  /\ \A m \in S : /\ post.left[m] = pre.left[m] /\ post.right[m] = pre.right[m]
                  /\ post.parent[m] = pre.parent[m] /\ post.height[m] = pre.height[m]
                  /\ post.key[m] = pre.key[m]

Judge(pre, S, op, ret, post, fwd, bwd) ==
  LET dup == IsDup(pre, S, op)
      dv  == IF op.kind = "ins" /\ ( (dup /\ (ret # -1 \/ ~SameTree(pre, post, S)))
                                  \/ (~dup /\ ret # 0) )
             THEN {"dup"} ELSE {}
      sv  == StructViols(post, SetAfter(pre, S, op))
      tv  == IF sv = {} /\ ~TraversalOK(post, fwd, bwd) THEN {"traversal"} ELSE {}
  IN dv \cup sv \cup tv

(* ------------------------------------------------------------------------
   PART 3 -- the same verdict in one pass over the tree.
   Evaluating PART 2 literally costs TLC about 25 ms per 31-node heap (each
   clause walks the tree again); millions of heaps need it cheaper.  Scan
   visits every linked node once.  MC_Avl checks FastStructViols = StructViols
   and FastJudge = Judge on every result it explores and on every single-field
   corruption of every small tree (Mode = "corrupt"), so PART 2 remains the
   definition and PART 3 is only a faster way to evaluate it.

   Scan(t, n, par): n is visited as a child of par (NULL for the root).  The
   visit fails unless parent[n] = par; a node can therefore be visited
   successfully only from the one node its parent field names, so the
   recursion terminates on any heap whatsoever (at most one successful visit
   per node, at most two failed ones per successful one). *)
ScanNull == [ok |-> TRUE, h |-> 0, hx |-> TRUE, bal |-> TRUE, seq |-> <<>>]
ScanBad  == [ok |-> FALSE, h |-> 0, hx |-> TRUE, bal |-> TRUE, seq |-> <<>>]
RECURSIVE Scan(_, _, _)
Scan(t, n, par) ==
  IF n = NULL THEN ScanNull
  ELSE IF ~IsId(t, n) THEN ScanBad
  ELSE IF t.parent[n] # par THEN ScanBad
  ELSE IF t.left[n] # NULL /\ t.left[n] = t.right[n] THEN ScanBad
  ELSE LET a == Scan(t, t.left[n], n)
           b == Scan(t, t.right[n], n)
       IN IF ~(a.ok /\ b.ok) THEN ScanBad
          ELSE LET h == 1 + (IF a.h > b.h THEN a.h ELSE b.h)
               IN [ok  |-> TRUE, h |-> h,
                   hx  |-> a.hx /\ b.hx /\ t.height[n] = h,
                   bal |-> a.bal /\ b.bal /\ (b.h - a.h) \in {-1, 0, 1},
                   seq |-> a.seq \o <<n>> \o b.seq]

Range(s) == {s[i] : i \in 1..Len(s)}
SeqOrdered(t, s) == \A i \in 1..(Len(s) - 1) : Compare(t, s[i], s[i + 1]) < 0

ViolsOfScan(t, S, sc) ==
  IF ~sc.ok THEN {"parent"}
  ELSE (IF Range(sc.seq) = S THEN {} ELSE {"set"})
       \cup (IF SeqOrdered(t, sc.seq) THEN {} ELSE {"order"})
       \cup (IF sc.hx THEN {} ELSE {"height"})
       \cup (IF sc.bal THEN {} ELSE {"balance"})
FastStructViols(t, S) == ViolsOfScan(t, S, Scan(t, t.root, NULL))

FastJudgeScan(pre, S, op, ret, post, fwd, bwd, sc) ==
  LET dup == IsDup(pre, S, op)
      dv  == IF op.kind = "ins" /\ ( (dup /\ (ret # -1 \/ ~SameTree(pre, post, S)))
                                  \/ (~dup /\ ret # 0) )
             THEN {"dup"} ELSE {}
      sv  == ViolsOfScan(post, SetAfter(pre, S, op), sc)
      tv  == IF sv = {} /\ ~(fwd = sc.seq /\ bwd = Reverse(sc.seq))
             THEN {"traversal"} ELSE {}
  IN dv \cup sv \cup tv
FastJudge(pre, S, op, ret, post, fwd, bwd) ==
  FastJudgeScan(pre, S, op, ret, post, fwd, bwd, Scan(post, post.root, NULL))

(* links of how many nodes differ (evidence: > 2 means that a rotation or a
   victim replacement took place) *)
LinksChanged(a, b) ==
  Cardinality({n \in Ids(a) : <<a.left[n], a.right[n], a.parent[n]>>
                              # <<b.left[n], b.right[n], b.parent[n]>>})
=============================================================================
