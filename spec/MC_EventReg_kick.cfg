SPECIFICATION FairSpec
CONSTANTS
  Ev = {e1, e2}
  Posters = {p1, p2}
  Transport = "kick"
  MaxFail = 0
  MaxOps = 6
  PostBudget = 2
INVARIANTS CountOK RxOK NumObjsOK NoLostWakeup PendRegistered
PROPERTY Delivered
CHECK_DEADLOCK FALSE
