SPECIFICATION MCSpec
CONSTANTS
  MaxWd = 2
  MaxObj = 2
  MaxBatch = 2
  MaxReads = 1
  MaxLen = 1
  Aliases = {0}
  TermInit = "garbage"
  Variant = "code"
INVARIANT NoViolation
CHECK_DEADLOCK FALSE
VIEW MCView
