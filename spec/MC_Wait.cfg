SPECIFICATION Spec
CONSTANTS
  Pids = {101, 102}
  Ints <- IntsDef
  OwnerOf <- OwnerDef
  MaxChanges = 4
  MaxSpawns = 3
  MaxApi = 2
INVARIANTS NoViolation TreeOK PendingPosted DeadIsolated
VIEW View
CHECK_DEADLOCK FALSE
