SPECIFICATION MCSpec
CONSTANTS
  MaxWd = 2
  MaxObj = 2
  MaxBatch = 3
  MaxReads = 1
  MaxLen = 1
  Aliases = {0, 1}
  TermInit = "null"
  Variant = "stride-fixed"
INVARIANT NoViolation
CHECK_DEADLOCK FALSE
VIEW MCView
