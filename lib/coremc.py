#!/usr/bin/env python3
"""Model checking of spec/IvCore.tla (composed with the MonCore monitors) and
spec-driven script generation for the loop-core checks."""
import concurrent.futures as cf
import json
import os
import sys

sys.path.insert(0, os.path.dirname(os.path.abspath(__file__)))
import vlib

# configurations per property: (cfg quick, cfg thorough)
CFGS = {
    "fd": ("MC_Core_fd.cfg", "MC_Core_fd.cfg"),
    "fdpoll": ("MC_Core_fd_poll.cfg", "MC_Core_fd_poll.cfg"),
    "timer": ("MC_Core_timer_quick.cfg", "MC_Core_timer.cfg"),
    "task": ("MC_Core_task.cfg", "MC_Core_task.cfg"),
}
WHICH = {
    "C01": ["fd", "task"], "C02": ["fd", "fdpoll"], "C03": ["fd", "fdpoll"], "C04": ["timer"], "C05": ["timer"],
    "C06": ["task"], "C07": ["fd", "timer", "task"], "C15": ["fd", "fdpoll", "timer"],
}
GEN = {"quick": "Gen_fd_quick.cfg", "thorough": "Gen_fd.cfg"}
GEN_FOR = {"C01", "C02", "C03", "C07", "C15"}


def start(pid, tier, sc):
    """start the TLC runs in the background; returns a handle for collect()"""
    names = WHICH.get(pid, [])
    n = len(names) + (1 if pid in GEN_FOR else 0)
    pool = cf.ThreadPoolExecutor(max(1, n))
    w = max(2, vlib.NCPU // max(1, n))
    # (without -coverage: TLC's expression-level statistics need more than 14 GB on this model, in exhaustive
    # and in simulation mode alike; that every monitor rule is exercised is checked on the real traces)
    futs = [(nm, CFGS[nm][0 if tier == "quick" else 1],
             pool.submit(vlib.tlc, "IvCore.tla", CFGS[nm][0 if tier == "quick" else 1], sc, workers=w,
                         timeout=900 if tier == "quick" else 2400, xmx="10g")) for nm in names]
    gen = None
    if pid in GEN_FOR:
        gen = pool.submit(vlib.tlc, "IvCore.tla", GEN[tier], sc, workers=w, timeout=300 if tier == "quick" else 1500)
    return {"futs": futs, "gen": gen}


def collect(h):
    states = trans = 0
    runs, covall = [], {}
    for nm, cfg, fu in h["futs"]:
        r = fu.result()
        if r["violated"]:
            raise vlib.MachineryError("IvCore/%s: invariant %s violated on the model\n%s" % (cfg, r["violated"], r["out"][-3000:]))
        if not r["complete"] and not r["timed_out"]:
            raise vlib.MachineryError("IvCore/%s did not complete:\n%s" % (cfg, r["out"][-2000:]))
        for a, (taken, gen_) in vlib.tlc_coverage(r["out"]).items():
            covall[a] = covall.get(a, 0) + max(taken, gen_)
        states += r["distinct"]
        trans += r["generated"]
        runs.append({"module": "IvCore.tla", "cfg": cfg, "distinct": r["distinct"], "generated": r["generated"],
                     "depth": r["depth"], "complete": r["complete"]})
    return {"states": states, "transitions": trans, "runs": runs, "coverage": covall}


def gen_scripts(h, pid, tier, seed, methods):
    """translate the GEN histories printed by TLC into harness scripts"""
    if h["gen"] is None:
        return [], 0, False
    r = h["gen"].result()
    if r["violated"]:
        raise vlib.MachineryError("IvCore Gen: %s violated\n%s" % (r["violated"], r["out"][-2000:]))
    hists = vlib.printed(r["out"], "GEN")
    total = len(hists)
    # quick: a deterministic sample; thorough: everything
    step = max(1, total // 1500) if tier == "quick" else max(1, total // 12000)
    out = []
    for i in range(seed % step, total, step):
        try:
            h0 = json.loads(hists[i])
        except ValueError:
            continue
        body = translate(h0)
        for m in methods:
            out.append("B %sg%d.%s method=%s seed=%d maxwait=12 keeptasks=0\n%sX\n" % (pid, i, m, m, 1 + i, body))
    return out, total, (r["complete"] and step == 1)


def translate(hist):
    L, occ, q = [], {}, 0
    nfd = 0
    for rec in hist:
        if rec["t"] == "init":
            nfd = len(rec["kc"])
            for f in range(1, nfd + 1):
                L.append("O fd %d pr" % f)
            for k in ("tm", "tk", "ev"):
                for i in (1, 2):
                    L.append("O %s %d" % (k, i))
            for f, bits in enumerate(rec["kc"], 1):
                if bits & 1:
                    L.append("S pwrite %d 1" % f)
        elif rec["t"] == "cb":
            key = (rec["k"], rec["o"], rec["b"])
            occ[key] = occ.get(key, 0) + 1
        elif rec["t"] == "api":
            a = rec["a"]
            op = rec["op"]
            if op == "fd_reg":
                txt = "fd_reg %d %d %d %d" % tuple(a)
            elif op == "fd_unreg":
                txt = "fd_unreg %d" % a[0]
            elif op == "fd_set":
                txt = "fd_set %d %d %d" % (a[0], a[1], a[2])
            elif op == "tm_reg":
                txt = "tm_reg %d 2 0 0" % a[0] if a[1] == 0 else "tm_reg %d 0 %d 0" % (a[0], a[1] - 1)
            elif op in ("tm_unreg", "tk_reg", "tk_unreg", "tk_unreg_keep", "ev_reg", "ev_unreg", "ev_post", "drain"):
                txt = "%s %d" % (op, a[0])
            elif op == "quit":
                txt = "quit"
            else:
                continue
            ctx = rec["ctx"]
            if ctx[0] == "S":
                L.append("S " + txt)
            else:
                key = (ctx[0], ctx[1], ctx[2])
                L.append("R %s %d %d %d %s" % (ctx[0], ctx[1], ctx[2], occ.get(key, 1), txt))
        elif rec["t"] == "env":
            q += 1
            for f, (new, old) in enumerate(zip(rec["kc"], rec["was"]), 1):
                if (new & 1) and not (old & 1):
                    L.append("E %d pwrite %d 1" % (q, f))
                if (new & 8) and not (old & 8):
                    L.append("E %d pclose %d" % (q, f))
            if rec["adv"] > 0:
                L.append("E %d advance %d 0" % (q, rec["adv"]))
    return "".join(l + "\n" for l in L)
