SPECIFICATION Spec
CONSTANTS
  Ints <- IntsDef
  Owner <- OwnerDef
  Excl <- ExclDef
  ThisThr <- ThisThrDef
  Threads = {0, 1}
  MaxDeliver = 3
  MaxApi = 6
INVARIANTS NoViolation TotalCount DispMatches ActiveImpliesPosted
VIEW View
CHECK_DEADLOCK FALSE
