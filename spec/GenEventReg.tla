--------------------------- MODULE GenEventReg ---------------------------
(* Program generation from IvEventReg: the same actions with a history of the
   program's own steps (owner registrations -- with their outcome --,
   unregistrations, and the posts of the other threads in the order of their
   P1 steps).  Every history of a quiescent state with all owner calls used
   is printed as one GEN line; lib/mtcheck.py turns it into a script whose
   threads are sequenced with flags in exactly that order, runs it on the
   real code (raw transport: poll / ppoll with a fault plan for the failing
   registrations; kick transport: epoll) and lets MonCore judge it. *)
EXTENDS IvEventReg, Sequences, Json

VARIABLE hist
gvars == <<vars, hist>>

GInit == Init /\ hist = <<>>

GRegister(e) ==
  /\ Register(e)
  /\ hist' = Append(hist, [op |-> "reg", e |-> e, ok |-> reg'[e]])
GUnregister(e) == Unregister(e) /\ hist' = Append(hist, [op |-> "unreg", e |-> e, ok |-> TRUE])
GP1(p, e) == P1(p, e) /\ hist' = Append(hist, [op |-> "post", e |-> e, ok |-> TRUE])

GNext ==
  \/ \E e \in Ev : GRegister(e) \/ GUnregister(e)
  \/ \E p \in Posters : (P2(p) /\ UNCHANGED hist) \/ \E e \in Ev : GP1(p, e)
  \/ ((Block \/ Wake \/ Deliver) /\ UNCHANGED hist)

GSpec == GInit /\ [][GNext]_gvars

Final == ops = MaxOps /\ \A p \in Posters : ppc[p] = "idle"
Emit == Final => PrintT("GEN " \o ToJson(hist))
(* histories only: the rest of the state does not matter for generation *)
GView == <<hist, reg, evcount, rx, fails, ops, ppc, pev, pleft>>
=============================================================================
