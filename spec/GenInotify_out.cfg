SPECIFICATION GSpec
CONSTANTS
  MaxWd = 2
  MaxObj = 2
  MaxBatch = 2
  MaxReads = 1
  MaxLen = 1
  Aliases = {0}
  TermInit = "null"
  Variant = "code"
  MaxOps = 3
  OutsideUnreg = TRUE
INVARIANT Emit
CHECK_DEADLOCK FALSE
