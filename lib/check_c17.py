#!/usr/bin/env python3
"""C17 -- iv_fd_pump relays the byte stream intact and reports its state
truthfully.

model checking of spec/IvPump.tla against the spec/MonPump.tla monitor
(MC_Pump) -> script generation from the same model (GenPump: every
environment program within the bound by BFS, random deep ones by -simulate)
-> scaling to real sizes + seeded random chunkings -> execution of the real
iv_fd_pump code by harness/ivh_pump.c (real pipes / AF_UNIX stream sockets,
read/write and splice mode) -> TLC trace validation (TracePump: MonPump on
every event, IvPump in lock-step with BufSize = 4096)."""
import collections
import os
import random
import re
import shutil
import subprocess
import sys

sys.path.insert(0, os.path.dirname(os.path.abspath(__file__)))
import vlib

PID = "C17"
WRAPS = ["read", "write", "splice", "ioctl", "shutdown"]
TRANSPORTS = ["pp", "ss", "ps", "sp"]
BUF = 4096
HARD_IN = ["EIO", "ECONNRESET", "EBADF", "ENOMEM"]
HARD_OUT = ["EPIPE", "EIO", "ECONNRESET", "ENOSPC"]

# monitor tags whose antecedent must have held at least once in a full run
REQUIRED = ["C17:stream", "C17:eof-early", "C17:eof-early:data-after", "C17:shutdown:issued",
            "C17:shutdown:owed", "C17:shutdown:not-asked", "C17:ret:0", "C17:ret:1", "C17:ret:err",
            "C17:ret:is-done", "C17:ret:not-done", "C17:bands:init", "C17:bands:destroy",
            "C17:bands:done", "C17:bands:fin-pending", "C17:bands:full", "C17:bands:in-out",
            "C17:bands:in-only"]
PER_MODE = ["C17:stream", "C17:bands:full", "C17:bands:fin-pending", "C17:ret:0", "C17:ret:err",
            "C17:shutdown:issued"]

MC_ACTIONS = ["PumpInit", "InitBands", "InitEnd", "PumpBegin", "InputData", "InputEof", "InputAgain",
              "InputError", "InputEintr", "FionAnswer", "OutputData", "OutputAgain", "OutputZero",
              "OutputError", "OutputEintr", "ShutdownOut", "SwitchBands", "PumpEnd", "IsDone",
              "DestroyBegin", "DestroyBands", "DestroyEnd"]


# ------------------------------------------------------------------ build
def build(kind="plain"):
    try:
        return vlib.build_harness("ivh_pump", ["ivh_pump.c"], kind, wraps=WRAPS), True
    except vlib.MachineryError as e:
        if "harness compile failed" not in str(e):
            raise
        # the tree no longer has the projected fields: lock-step on the
        # projection is skipped, the monitors are unaffected (DESIGN 3.5)
        vlib.log("C17: harness does not compile with the state projection, rebuilding without it")
        return vlib.build_harness("ivh_pump", ["ivh_pump.c"], kind, wraps=WRAPS, defines=["NO_PROJ"]), False


# ------------------------------------------------------------ model checking
def mc_coverage(out):
    """{action: (distinct, generated)} from -coverage 1 (last report); the
    disjuncts of MCNext are identified by their line in MC_Pump.tla."""
    src = vlib.read(os.path.join(vlib.SPEC, "MC_Pump.tla")).splitlines()
    cov = {}
    for m in re.finditer(r"<MCNext line \d+, col \d+ to line \d+, col \d+ of module MC_Pump "
                         r"\((\d+) \d+ \d+ \d+\)>: (\d+):(\d+)", out):
        ln = int(m.group(1))
        mm = re.search(r"\\/ \((\w+) /\\ Feed\)", src[ln - 1]) if 0 < ln <= len(src) else None
        if mm:
            cov[mm.group(1)] = (int(m.group(2)), int(m.group(3)))
    return cov


def model_check(tier, sc, rep):
    cfgs = ["MC_Pump_quick.cfg"] if tier == "quick" else ["MC_Pump_thorough.cfg", "MC_Pump_b3.cfg"]
    states = trans = 0
    runs = []
    for cfg in cfgs:
        r = vlib.tlc("MC_Pump.tla", cfg, sc, coverage=True, timeout=600)
        if r["violated"] or not r["complete"]:
            raise vlib.MachineryError("model check %s: violated=%s complete=%s (the system model does not "
                                      "satisfy the monitor: a bug in the specification)\n%s"
                                      % (cfg, r["violated"], r["complete"], r["out"][-3000:]))
        cov = mc_coverage(r["out"])
        dead = [a for a in MC_ACTIONS if cov.get(a, (0, 0))[1] == 0]
        if dead:
            raise vlib.MachineryError("model check %s: actions never taken (vacuous): %s" % (cfg, dead))
        states += r["distinct"]
        trans += r["generated"]
        runs.append({"cfg": cfg, "distinct": r["distinct"], "generated": r["generated"], "depth": r["depth"],
                     "wall_s": round(r["wall_s"], 1), "coverage": {a: cov[a][1] for a in MC_ACTIONS}})
        vlib.log("C17: MC %s: %d distinct / %d generated states, depth %d, %.1fs"
                 % (cfg, r["distinct"], r["generated"], r["depth"], r["wall_s"]))
    return {"states": states, "transitions": trans, "runs": runs}


# ---------------------------------------------------------------- generation
def gen_from_spec(tier, seed, sc):
    """Environment programs printed by GenPump.  Returns (bfs, sim, complete)."""
    cfg = "GenPump_quick.cfg" if tier == "quick" else "GenPump_thorough.cfg"
    r = vlib.tlc("GenPump.tla", cfg, sc, timeout=900)
    if r["violated"]:
        raise vlib.MachineryError("GenPump: unexpected violation %s" % r["violated"])
    bfs = sorted(set(vlib.printed(r["out"], "GEN")))
    if not bfs:
        raise vlib.MachineryError("GenPump emitted no scripts")
    vlib.log("C17: Gen %s: %d environment programs (BFS %s, %.1fs)"
             % (cfg, len(bfs), "complete" if r["complete"] else "INCOMPLETE", r["wall_s"]))
    sim = []
    if tier == "thorough":
        rs = vlib.tlc("GenPump.tla", "GenPump_sim.cfg", sc, simulate="num=2500", depth=120,
                      seed=seed, timeout=600)
        sim = sorted(set(vlib.printed(rs["out"], "GEN")))
        vlib.log("C17: Gen simulate: %d distinct deep environment programs (%.1fs)" % (len(sim), rs["wall_s"]))
    return bfs, sim, r["complete"]


def parse_hist(h):
    toks = [t for t in h.strip().split(";") if t]
    b = toks[0].split()
    if b[0] != "B":
        raise vlib.MachineryError("bad GEN line: " + h)
    return b[1], int(b[2]), int(b[3]), toks[1:]


def translate(h, sid, unit, tr, cont=False):
    """One TLC environment program -> harness script at `unit` real bytes per
    model byte (BufSize 4 -> 4096 for unit 1024)."""
    mode, relay, L, toks = parse_hist(h)
    prog, I, O, N = [], [], [], []
    k = sum(ord(c) for c in h)
    for t in toks:
        c, v = t[0], t[1:]
        if c == "P":
            prog.append("P")
        elif c == "D":
            if not cont:
                prog.append("D")
        elif c == "I":
            r = int(v)
            I.append(str(r * unit) if r > 0 else "0" if r == 0 else "A" if r == -1 else
                     "R" if r == -3 else HARD_IN[(k + len(I)) % len(HARD_IN)])
        elif c == "O":
            r = int(v)
            O.append(str(r * unit) if r > 0 else "Z" if r == 0 else "A" if r == -1 else
                     "R" if r == -3 else HARD_OUT[(k + len(O)) % len(HARD_OUT)])
        elif c == "N":
            N.append(str(int(v) * unit))
    return fmt_script(sid, mode, tr, [dict(relay=relay, L=L * unit, pre=-1, prog=prog, I=I, O=O, N=N)])


def fmt_script(sid, mode, tr, sessions):
    ls = ["B %s mode=%s tr=%s" % (sid, mode, tr)]
    for s in sessions:
        ls.append("S relay=%d L=%d pre=%d prog=%s" % (s["relay"], s["L"], s.get("pre", -1), ",".join(s["prog"])))
        for key in ("I", "O", "N"):
            if s.get(key):
                ls.append(key + " " + " ".join(s[key]))
    ls.append("X")
    return "\n".join(ls) + "\n"


def is_aborted(h):
    """the model destroyed the pump while it was neither done nor failed"""
    _m, _r, _L, toks = parse_hist(h)
    last = [t for t in toks if t[0] in "IO"]
    return bool(last) and not (last[-1] in ("I-2", "O-2", "O0")) and "I0" not in toks


def scripts_from_spec(bfs, sim, tier):
    out = []
    for i, h in enumerate(bfs):
        mode = h.split()[1]
        tr = TRANSPORTS[i % 4]
        out.append(translate(h, "g%d" % i, 1024, tr))
        if mode == "sp":
            # 4 model bytes = the 64 KiB capacity of the pump's internal pipe
            out.append(translate(h, "g%dw" % i, 16384, TRANSPORTS[(i + 1) % 4]))
        if is_aborted(h) and (tier == "thorough" or i % 4 == 0):
            out.append(translate(h, "g%dc" % i, 1024, TRANSPORTS[(i + 2) % 4], cont=True))
    for i, h in enumerate(sim):
        out.append(translate(h, "s%d" % i, 1024 if i % 3 else 512, TRANSPORTS[i % 4]))
    return out


# ----------------------------------------------------------- random scripts
LEN_CLASSES = [0, 1, 2, 100, BUF - 1, BUF, BUF + 1, 2 * BUF - 1, 2 * BUF, 2 * BUF + 1, 3 * BUF, 10000, 5 * BUF]


def rnd_session(rnd, mode, kind):
    """One pump session.  kind selects the family of environment behaviour."""
    relay = rnd.randint(0, 1)
    L = rnd.choice(LEN_CLASSES) if rnd.random() < 0.6 else rnd.randint(0, 6 * BUF)
    I, O, N, prog, pre = [], [], [], [], -1

    def clip(big):
        c = rnd.random()
        if c < 0.25:
            return 0
        if c < 0.45:
            return rnd.randint(1, 16)
        if c < 0.6:
            return rnd.choice([BUF - 1, BUF, BUF // 2, 1000, 1024])
        return rnd.randint(1, big)

    n = rnd.randint(4, 60)
    if kind == "chunk":          # arbitrary chunkings on both sides, occasional would-block
        for _ in range(n):
            I.append("A" if rnd.random() < 0.12 else "R" if rnd.random() < 0.04 else str(clip(BUF)))
            O.append("A" if rnd.random() < 0.2 else "R" if rnd.random() < 0.04 else str(clip(BUF)))
            N.append(str(rnd.choice([0, 0, 1, 77, 5000])))
    elif kind == "bp":           # output blocks for a while: buffer fills, EOF arrives with data pending
        blk = rnd.randint(1, 12)
        for _ in range(n):
            I.append(str(clip(BUF)))
        O = ["A"] * blk + [("A" if rnd.random() < 0.3 else str(clip(BUF))) for _ in range(n)]
        N = [str(rnd.choice([0, 1, 4096])) for _ in range(n)]
    elif kind == "werr":         # write error at an arbitrary point
        k = rnd.randint(0, 10)
        O = [("A" if rnd.random() < 0.2 else str(clip(BUF))) for _ in range(k)] + \
            [rnd.choice(HARD_OUT + ["Z"])]
        I = [str(clip(BUF)) for _ in range(k + 2)]
    elif kind == "rerr":         # read error at an arbitrary point
        k = rnd.randint(0, 10)
        I = [("A" if rnd.random() < 0.2 else str(clip(BUF))) for _ in range(k)] + [rnd.choice(HARD_IN)]
        O = [("A" if rnd.random() < 0.4 else str(clip(BUF))) for _ in range(k + 2)]
    elif kind == "kernel":       # the kernel decides: output transport really full, feeder really slow
        L = rnd.choice([3 * BUF, 20000, 70000, 150000, 300000]) + rnd.randint(0, 5000)
        pre = rnd.choice([-1, 0, 1, 5000, 70000])
        steps = rnd.randint(2, 14)
        for _ in range(steps):
            c = rnd.random()
            if c < 0.3:
                prog.append("F%d" % rnd.choice([0, 1, 100, 4096, 5000, 70000]))
            elif c < 0.45:
                prog.append("U")
            prog.append("P")
        I = [("W" if rnd.random() < 0.5 else "0") for _ in range(steps)]
        N = ["K"] * steps
    elif kind == "pipefull":     # splice mode: the pump's internal pipe really fills up
        L = rnd.choice([70000, 100000, 200000]) + rnd.randint(0, 9000)
        blk = rnd.randint(3, 30)
        I = [str(rnd.choice([0, 1, 7, 4096, 5000, 65536])) for _ in range(blk)]
        O = ["A"] * blk + [str(rnd.choice([0, 1, 4096, 30000])) for _ in range(rnd.randint(0, 6))]
        N = ["K"] * blk
    elif kind == "abort":        # destroyed with data pending
        k = rnd.randint(1, 6)
        I = [str(clip(BUF)) for _ in range(k)]
        O = [("A" if rnd.random() < 0.6 else str(rnd.randint(1, 50))) for _ in range(k)]
        prog = ["P"] * k + (["Q"] if rnd.random() < 0.5 else []) + ["D"]
        L = max(L, 10)
    if kind in ("chunk", "bp") and rnd.random() < 0.3:
        prog = ["P"] * rnd.randint(1, 5) + ["Q"]
    return dict(relay=relay, L=L, pre=pre, prog=prog, I=I, O=O, N=N)


def many_scripts(tier):
    """N pumps stalled at the same time in splice mode (the per-thread buffer cache holds 20), then drained"""
    ns = [1, 12, 20, 21, 25, 40] if tier == "quick" else [1, 5, 12, 19, 20, 21, 22, 25, 40, 64, 100]
    return ["B many%d mode=sp tr=ss many=%d\nX\n" % (n, n) for n in ns]


def random_scripts(seed, n):
    rnd = random.Random(seed * 1000003 + 17)
    kinds = ["chunk", "chunk", "bp", "bp", "werr", "rerr", "kernel", "abort", "pipefull"]
    out = []
    for i in range(n):
        mode = "rw" if i % 2 == 0 else "sp"
        kind = kinds[(i // 2) % len(kinds)]
        if kind == "pipefull" and mode == "rw":
            kind = "bp"
        tr = TRANSPORTS[(i // 2 + i // 18) % 4]
        sess = []
        if rnd.random() < 0.25:
            sess.append(rnd_session(rnd, mode, "abort"))     # leaves a buffer for the cache / frees a pipe
        sess.append(rnd_session(rnd, mode, kind))
        if rnd.random() < 0.1:
            sess.append(rnd_session(rnd, mode, "chunk"))
        out.append(fmt_script("r%d%s" % (i, kind), mode, tr, sess))
    return out


# ------------------------------------------------------------------ running
def save_replay_text(pid, text, ext="scr"):
    fn = getattr(vlib, "save_replay_text", None)
    if fn:
        return fn(pid, text, ext)
    os.makedirs(os.path.join(vlib.OUT, "replay"), exist_ok=True)
    p = os.path.join(vlib.OUT, "replay", "%s-%s.%s" % (pid, vlib.sha(text)[:10], ext))
    with open(p, "w") as f:
        f.write(text)
    return p


def script_id(s):
    return s.split("\n", 1)[0].split()[1]


def run_scripts(exe, scripts, sc, tag, per_file=600):
    if not scripts:
        return []
    nchunks = max(1, min(vlib.NCPU * 2, len(scripts)), (len(scripts) + per_file - 1) // per_file)
    d = sc.sub(tag)
    jobs = []
    for i in range(nchunks):
        ch = scripts[i::nchunks]
        sp, tp = os.path.join(d, "s%d.scr" % i), os.path.join(d, "t%d.ndjson" % i)
        with open(sp, "w") as f:
            f.write("".join(ch))
        if os.path.exists(tp):
            os.unlink(tp)
        jobs.append((sp, tp, len(ch)))

    def one(j):
        sp, tp, n = j
        r = subprocess.run([exe, "-i", sp, "-o", tp, "-T", "5"], stdout=subprocess.PIPE,
                           stderr=subprocess.STDOUT, text=True, timeout=3600)
        if r.returncode != 0:
            raise vlib.MachineryError("ivh_pump failed on %s: rc=%d\n%s" % (sp, r.returncode, r.stdout[-2000:]))
        return tp
    return vlib.parallel(one, jobs)


def validate(tfs, sc):
    return vlib.validate_traces(tfs, sc, module="TracePump.tla", cfg="TracePump.cfg", timeout=1200)


def run_fallback(tier, seed, sc, rep, pid="C15"):
    """C15, splice(2) missing: the pump's read/write fallback relays the same stream with the same
    reports.  Random sessions in read/write mode (the harness answers splice with ENOSYS), judged by
    MonPump; adds to the caller's report."""
    exe, _proj = build("plain")
    exe = shutil.copy2(exe, sc.path("bin15", "ivh_pump"))
    scripts = [x for x in random_scripts(seed + 1009, 1600 if tier == "quick" else 8000) if x.split("\n", 1)[0].split()[2] == "mode=rw"]
    idx = {script_id(x): x for x in scripts}
    tfs = run_scripts(exe, scripts, sc, "fb")
    verdicts, nev = validate(tfs, sc)
    if len(verdicts) != len(scripts):
        raise vlib.MachineryError("%d pump scripts but %d verdicts" % (len(scripts), len(verdicts)))
    bad = collections.OrderedDict()
    seen = collections.Counter()
    for v in verdicts:
        for t in v["seen"]:
            seen[t] += 1
        rules = [r for r in v["viols"] if r.startswith("C17:")]
        if rules:
            bad[v["id"]] = rules
    pick = list(bad)[:12]
    if pick:
        tf2 = run_scripts(exe, [idx[x] for x in pick], sc, "fbconfirm")
        v2, _ = validate(tf2, sc)
        again = {v["id"]: set(v["viols"]) for v in v2}
        for sid in pick:
            for r in bad[sid]:
                if r in again.get(sid, ()):
                    rep.violation("C15:fallback-splice/" + r, save_replay_text(pid, idx[sid]),
                                  "pump script %s; %d scripts violate in this run" % (sid, len(bad)))
    if not seen["C17:stream"]:
        raise vlib.MachineryError("pump fallback run vacuous")
    rep.add(pump_fallback_scripts=len(scripts), pump_fallback_events=nev)
    return len(scripts), nev


def run(pid, tier, seed, replay=None):
    rep = vlib.Report(pid, tier, seed)
    exe, proj = build("plain")
    with vlib.Scratch("verif-" + pid) as sc:
        # private copy: the shared build cache is pruned by concurrent checks
        exe = shutil.copy2(exe, sc.path("bin", "ivh_pump"))
        mc = model_check(tier, sc, rep)
        exhaustive = False
        if replay:
            txt = vlib.read(replay)
            scripts = [b for b in re.split(r"(?m)^(?=B )", txt) if b.strip()]
            ngen = 0
        else:
            bfs, sim, complete = gen_from_spec(tier, seed, sc)
            scripts = scripts_from_spec(bfs, sim, tier)
            ngen = len(scripts)
            scripts += random_scripts(seed, 3000 if tier == "quick" else 30000)
            scripts += many_scripts(tier)
            exhaustive = complete
        idx = {script_id(s): s for s in scripts}
        if len(idx) != len(scripts):
            raise vlib.MachineryError("duplicate script ids")
        tfs = run_scripts(exe, scripts, sc, "run")
        verdicts, nev = validate(tfs, sc)
        if len(verdicts) != len(scripts):
            raise vlib.MachineryError("%d scripts but %d verdicts" % (len(scripts), len(verdicts)))
        vlib.log("C17: %d scripts executed, %d events validated" % (len(scripts), nev))

        seen = collections.Counter()
        seen_mode = collections.Counter()
        ends = collections.Counter()
        nontrivial = set()
        drift = []
        bad = collections.OrderedDict()
        inpos = []
        for v in verdicts:
            s = idx[v["id"]]
            mode = s.split("\n", 1)[0].split()[2][5:]
            ends[v["why"]] += 1
            for t in v["seen"]:
                seen[t] += 1
                seen_mode[(mode, t)] += 1
            if {"C17:stream", "C17:ret:err", "C17:ret:0"} & set(v["seen"]):
                nontrivial.add(vlib.sha(s.split("\n", 1)[1])[:16])
            if v.get("drift"):
                drift.append((v["id"], v["drift"]))
            if "X:in-pos" in v["viols"]:
                inpos.append(v["id"])
            rules = [r for r in v["viols"] if r.startswith("C17:")]
            if rules:
                bad[v["id"]] = rules
        if inpos and not bad:
            # (with violations around, the code under test may simply have corrupted memory)
            raise vlib.MachineryError("harness: input bytes did not carry their positions in scripts %s" % inpos[:5])
        # a violation counts when a second run of the same script shows it again
        # (at most one script per distinct rule set x mode, 60 in total)
        pick, keys = [], set()
        for sid, rules in bad.items():
            key = (tuple(sorted(rules)), idx[sid].split("\n", 1)[0].split()[2])
            if key not in keys or len(pick) < 12:
                keys.add(key)
                pick.append(sid)
            if len(pick) >= 60:
                break
        if pick:
            tf2 = run_scripts(exe, [idx[sid] for sid in pick], sc, "confirm")
            v2, _ = validate(tf2, sc)
            again = {v["id"]: set(v["viols"]) for v in v2}
            for sid in pick:
                for r in bad[sid]:
                    if r in again.get(sid, ()):
                        p = save_replay_text(pid, idx[sid])
                        rep.violation(r, p, "script %s (%s); %d scripts violate in this run"
                                      % (sid, idx[sid].split("\n", 1)[0][2:], len(bad)))
                    else:
                        vlib.log("C17: %s in script %s not reproduced on the second run" % (r, sid))
        for sid, d in drift[:10]:
            print("DRIFT property=%s script=%s %s" % (pid, sid, d), flush=True)
        nosplice = ends.get("nosplice", 0)
        if not replay:
            vac = [t for t in REQUIRED if seen[t] == 0]
            modes = ["rw"] + ([] if nosplice else ["sp"])
            vac += ["%s/%s" % (m, t) for m in modes for t in PER_MODE if seen_mode[(m, t)] == 0]
            if vac and not bad:
                raise vlib.MachineryError("vacuous run: monitor rules never exercised: %s" % vac)
        rep.add(states=mc["states"] + nev + len(verdicts), transitions=mc["transitions"] + nev,
                traces_validated_against_impl=len(verdicts), trace_events=nev,
                evaluations=len(scripts), distinct_nontrivial=len(nontrivial),
                rule="scripts = every environment program of the IvPump model within the Gen bound (scaled "
                     "to real sizes, x transports) plus seeded random chunkings / back-pressure / error / "
                     "kernel-decided scripts; non-trivial = distinct script in which data was delivered and "
                     "position-checked, or the pump reported completion or an I/O error",
                exhaustive=bool(exhaustive), spec_scripts=ngen, ends=dict(ends),
                rules_exercised=dict(seen), model_checks=mc["runs"],
                drift={"count": len(drift), "samples": drift[:5]}, projection=proj)
        if scripts:
            rep.sample({"script": scripts[0].splitlines()})
            rep.sample({"script": scripts[-1].splitlines()[:12]})
        if verdicts:
            rep.sample({"verdict": {k: verdicts[0][k] for k in ("id", "why", "viols", "drift")}})
        if tfs:
            rep.sample({"trace": vlib.read(tfs[0]).splitlines()[:14]})
    rep.assumptions += [
        "the pump's read/write/splice/ioctl/shutdown calls are interposed with -Wl,--wrap; lengths are clipped "
        "or errnos injected by the script while real bytes flow through real pipes / AF_UNIX stream sockets",
        "bytes are position-coded (byte i of session s = f(s,i)); the positions of delivered bytes are read "
        "back from the output's peer after every write/splice",
        "BUF_SIZE is taken to be 4096 (InitB.bs); splice mode 'full' is observable only through "
        "EAGAIN + FIONREAD > 0",
        "TLC evaluates spec/MonPump.tla on every event of every execution; IvPump runs in lock-step "
        "(mismatch = DRIFT, warning only)"]
    if nosplice:
        rep.assumptions.append("splice(2) is not available in this environment: %d splice-mode scripts skipped" % nosplice)
    return rep.finish()


if __name__ == "__main__":
    import argparse
    ap = argparse.ArgumentParser()
    ap.add_argument("--tier", default="quick")
    ap.add_argument("--replay", default=None)
    a = ap.parse_args()
    sys.exit(run(PID, a.tier, int(os.environ.get("VERIF_SEED", "1") or 1), a.replay))
