--------------------------- MODULE IvTimerHeap ---------------------------
(* The timer store of src/iv_timer.c, transcribed: a 1-based binary min-heap
   of timer pointers whose slots live in the leaves of a radix tree of arity
   2^SplitBits (IV_TIMER_SPLIT_BITS = 7 in the code; 1 and 2 for exhaustive
   checking so that the level boundaries fall at 2,4,8 / 4,16,64).

   Everything is a pure operator on one record h ("struct iv_state", the
   malloc heap and the user's timer objects):

     h.nd    [NodeIds -> [0..Arity-1 -> Int]]  the child[] array of every radix
             node.  The C code stores "void *": a child entry is a node id on
             the inner levels and a timer id in a leaf, NULL = 0.  The contents
             of a node that is not allocated are POISON.
     h.alloc set of allocated nodes.  Node FirstLeaf = 1 is st->ratnode.first_leaf,
             embedded in iv_state (never malloc'ed, never freed).
             st->ratnode.timer_root OVERLAYS first_leaf.child[0] (a union):
             it is modelled as exactly that slot, Root(h) == h.nd[1][0].
     h.depth st->rat_depth          h.n   st->num_timers
     h.ex    [Timers -> Int]  t->expires (any totally ordered integer unit)
     h.ix    [Timers -> Int]  t->index:  -1 not registered, 0 on the expired
             list of a running iv_run_timers(), k >= 1 heap slot

   A pointer "struct iv_timer_ **" is a record [node, slot].  Loads and stores
   through a pointer into a node that is not allocated are assertion
   failures (use after free); so is a double free and a free of FirstLeaf. *)
EXTENDS Integers, Sequences, FiniteSets, TLC

CONSTANTS SplitBits,   \* IV_TIMER_SPLIT_BITS
          MaxNodes,    \* size of the modelled malloc arena (radix nodes)
          Timers       \* set of timer ids (positive integers)

Arity     == 2 ^ SplitBits            \* IV_TIMER_SPLIT_NODES
NULL      == 0
POISON    == -7
FirstLeaf == 1
NodeIds   == 1..MaxNodes
Slots     == 0..(Arity - 1)

Shr(x, k) == x \div (2 ^ k)           \* x >> k for x >= 0
ZeroNode   == [k \in Slots |-> NULL]
PoisonNode == [k \in Slots |-> POISON]

Root(h) == h.nd[FirstLeaf][0]         \* st->ratnode.timer_root (union overlay)

(* iv_timer_init + IV_TIMER_INIT of every timer *)
Init0 ==
  [ nd    |-> [i \in NodeIds |-> IF i = FirstLeaf
                                 THEN [k \in Slots |-> IF k = 0 THEN FirstLeaf ELSE NULL]
                                 ELSE PoisonNode],
    alloc |-> {FirstLeaf},
    depth |-> 0,
    n     |-> 0,
    ex    |-> [t \in Timers |-> 0],
    ix    |-> [t \in Timers |-> -1] ]

-----------------------------------------------------------------------------
(* memory *)
Ptr(g) == [node |-> g.node, slot |-> g.slot]

Load(h, p) ==
  IF Assert(p.node \in h.alloc /\ p.slot \in Slots, <<"load through dangling pointer", p>>)
  THEN h.nd[p.node][p.slot] ELSE POISON

Store(h, p, v) ==
  IF Assert(p.node \in h.alloc /\ p.slot \in Slots, <<"store through dangling pointer", p>>)
  THEN [h EXCEPT !.nd[p.node][p.slot] = v] ELSE h

(* iv_timer_allocate_ratnode: calloc; the lowest free arena cell is used so
   that states are canonical (a freed cell may be handed out again) *)
AllocNode(h) ==
  LET free == NodeIds \ h.alloc
      id   == CHOOSE i \in free : \A j \in free : i <= j
  IN IF Assert(free # {}, "MaxNodes too small")
     THEN [h |-> [h EXCEPT !.alloc = @ \cup {id}, !.nd[id] = ZeroNode], id |-> id]
     ELSE [h |-> h, id |-> 0]

FreeNode(h, id) ==
  IF Assert(id \in h.alloc /\ id # FirstLeaf, <<"bad free", id>>)
  THEN [h EXCEPT !.alloc = @ \ {id}, !.nd[id] = PoisonNode] ELSE h

-----------------------------------------------------------------------------
(* iv_timer_get_node(st, index): returns [h, node, slot]; grows the tree by
   one level if index does not fit and allocates missing nodes on the way *)
RECURSIVE Walk(_, _, _, _)
Walk(h, r, i, index) ==
  IF i = 0
  THEN [h |-> h, node |-> r, slot |-> index % Arity]
  ELSE LET bits == Shr(index, i * SplitBits) % Arity
           c    == Load(h, [node |-> r, slot |-> bits])
       IN IF c = NULL
          THEN LET a == AllocNode(h)                                    \* lazily allocated
               IN Walk(Store(a.h, [node |-> r, slot |-> bits], a.id), a.id, i - 1, index)
          ELSE Walk(h, c, i - 1, index)

Grows(h, index) == Shr(index, (h.depth + 1) * SplitBits) # 0

GetNode(h, index) ==
  LET g == IF Grows(h, index)
           THEN LET a == AllocNode(h)
                    r == a.id
                IN [a.h EXCEPT !.depth = @ + 1,
                               !.nd[r][0] = Root(h),                    \* r->child[0] = timer_root
                               !.nd[FirstLeaf][0] = r]                  \* timer_root = r
           ELSE h
  IN Walk(g, Root(g), g.depth, index)

Gt(h, a, b) == h.ex[a] > h.ex[b]          \* timer_ptr_gt

(* pull_up(st, index, i) *)
RECURSIVE PullUp(_, _, _)
PullUp(h, index, i) ==
  IF index = 1 THEN h
  ELSE LET parent == index \div 2
           g  == GetNode(h, parent)
           h1 == g.h
           p  == Ptr(g)
           ti == Load(h1, i)
           tp == Load(h1, p)
       IN IF ~Gt(h1, tp, ti) THEN h1
          ELSE LET h2 == Store(Store(h1, i, tp), p, ti)
                   h3 == [h2 EXCEPT !.ix[tp] = index, !.ix[ti] = parent]
               IN PullUp(h3, parent, p)

(* push_down(st, index, i).  p[1] is the slot after p in the same leaf: 2*index
   is even and Arity is even.  The `p[1] &&` test is the only protection
   against looking at slot num_timers + 1; it relies on that slot being NULL
   (calloc for a fresh leaf, `*m = NULL` in unregister otherwise). *)
RECURSIVE PushDown(_, _, _)
PushDown(h, index, i) ==
  LET kids == 2 * index <= h.n
      g    == GetNode(h, 2 * index)
      h1   == IF kids THEN g.h ELSE h
      p0   == Ptr(g)
      p1   == [node |-> g.node, slot |-> g.slot + 1]
      ti   == Load(h1, i)
      m1   == IF kids /\ Gt(h1, ti, Load(h1, p0))
              THEN [index |-> 2 * index, p |-> p0] ELSE [index |-> index, p |-> i]
      m2   == IF kids /\ Load(h1, p1) # NULL /\ Gt(h1, Load(h1, m1.p), Load(h1, p1))
              THEN [index |-> 2 * index + 1, p |-> p1] ELSE m1
  IN IF m2.index = index THEN h1
     ELSE LET tm == Load(h1, m2.p)
              h2 == Store(Store(h1, i, tm), m2.p, ti)
              h3 == [h2 EXCEPT !.ix[tm] = index, !.ix[ti] = m2.index]
          IN PushDown(h3, m2.index, m2.p)

(* iv_timer_register(t) with t->expires = e *)
Register(h, t, e) ==
  LET h0    == [h EXCEPT !.ex[t] = e, !.n = @ + 1]
      index == h0.n
      g     == GetNode(h0, index)
      p     == Ptr(g)
      h1    == [Store(g.h, p, t) EXCEPT !.ix[t] = index]
  IN IF Assert(h.ix[t] = -1, "register: timer still on the heap")
     THEN PullUp(h1, index, p) ELSE h

(* iv_timer_free_ratnode(node, depth): note the `break` at the first NULL child *)
RECURSIVE FreeRat(_, _, _), FreeFrom(_, _, _, _)
FreeFrom(h, node, i, depth) ==
  IF i >= Arity \/ h.nd[node][i] = NULL THEN h
  ELSE FreeFrom(FreeRat(h, h.nd[node][i], depth), node, i + 1, depth)
FreeRat(h, node, depth) ==
  FreeNode(IF depth # 0 THEN FreeFrom(h, node, 0, depth - 1) ELSE h, node)

(* iv_timer_radix_tree_remove_level *)
RemoveLevel(h) ==
  LET d    == h.depth - 1
      root == Root(h)
      h1   == FreeFrom([h EXCEPT !.depth = d], root, 1, d)
      h2   == [h1 EXCEPT !.nd[FirstLeaf][0] = h1.nd[root][0]]
  IN FreeNode(h2, root)

LevelBoundary(h) == h.depth > 0 /\ h.n = 2 ^ (h.depth * SplitBits)

(* iv_timer_unregister(t), t->index >= 1 *)
UnregisterHeap(h, t) ==
  LET idx  == h.ix[t]
      gp   == GetNode(h, idx)
      p    == Ptr(gp)
      gm   == GetNode(gp.h, h.n)
      m    == Ptr(gm)
      h1   == gm.h
      last == Load(h1, m)
      h2   == [Store(h1, p, last) EXCEPT !.ix[last] = idx]             \* *p = *m; (*p)->index = t->index
      h3   == Store(h2, m, NULL)                                       \* *m = NULL
      h4   == IF LevelBoundary(h3) THEN RemoveLevel(h3) ELSE h3        \* tested BEFORE the decrement
      h5   == [h4 EXCEPT !.n = @ - 1]
      h6   == IF p # m
              THEN LET a == PullUp(h5, h5.ix[Load(h5, p)], p)
                   IN PushDown(a, a.ix[Load(a, p)], p)
              ELSE h5
  IN IF Assert(idx >= 1 /\ idx <= h.n /\ Load(gp.h, p) = t, <<"unregister: bad index", t, idx>>)
     THEN [h6 EXCEPT !.ix[t] = -1] ELSE h

(* t->index = 0: the timer sits on the expired list of a running iv_run_timers *)
Unregister(h, t) ==
  IF Assert(h.ix[t] # -1, "unregister: timer not on the heap")
  THEN IF h.ix[t] = 0 THEN [h EXCEPT !.ix[t] = -1] ELSE UnregisterHeap(h, t)
  ELSE h

(* first loop of iv_run_timers with st->time = now: pop while the root is due.
   Returns [h, q]: q = the expired list in order; those timers have index 0. *)
RECURSIVE RunTimers(_, _, _)
RunTimers(h, now, q) ==
  IF h.n = 0 THEN [h |-> h, q |-> q]
  ELSE LET t == Load(h, [node |-> FirstLeaf, slot |-> 1])    \* st->ratnode.first_leaf.child[1]
       IN IF Assert(h.ix[t] = 1, "iv_run_timers: root timer has heap index # 1")
          THEN IF h.ex[t] > now THEN [h |-> h, q |-> q]
               ELSE RunTimers([UnregisterHeap(h, t) EXCEPT !.ix[t] = 0], now, Append(q, t))
          ELSE [h |-> h, q |-> q]

(* second loop: the handler of t is about to be called *)
HandlerEntry(h, t) == [h EXCEPT !.ix[t] = -1]

(* iv_timer_deinit *)
RECURSIVE Deinit(_)
Deinit(h) == IF h.depth # 0 THEN Deinit(RemoveLevel(h)) ELSE [h EXCEPT !.nd[FirstLeaf][0] = NULL]

-----------------------------------------------------------------------------
(* Specification-level views (never allocate) *)
RECURSIVE Find(_, _, _, _)
Find(h, r, i, index) ==
  IF r = NULL THEN NULL
  ELSE IF r \notin h.alloc THEN POISON
  ELSE IF i = 0 THEN h.nd[r][index % Arity]
  ELSE Find(h, h.nd[r][Shr(index, i * SplitBits) % Arity], i - 1, index)

Slot(h, index) == Find(h, Root(h), h.depth, index)

(* the slots 1..n as a sequence, gathered leaf by leaf (leaf j holds the
   indices j*Arity .. j*Arity + Arity - 1; index 0 is not a slot) *)
RECURSIVE LeafOf(_, _, _, _)
LeafOf(h, r, i, j) ==
  IF r = NULL THEN NULL
  ELSE IF r \notin h.alloc THEN POISON
  ELSE IF i = 0 THEN r
  ELSE LeafOf(h, h.nd[r][Shr(j, (i - 1) * SplitBits) % Arity], i - 1, j)
Leaf(h, j) == LeafOf(h, Root(h), h.depth, j)
LeafSeq(h, j) ==
  LET r == Leaf(h, j)
  IN IF r = NULL THEN [k \in 1..Arity |-> NULL]
     ELSE IF r = POISON THEN [k \in 1..Arity |-> POISON]
     ELSE [k \in 1..Arity |-> h.nd[r][k - 1]]
RECURSIVE CatLeaves(_, _)
CatLeaves(h, j) == IF j < 0 THEN <<>> ELSE CatLeaves(h, j - 1) \o LeafSeq(h, j)
SlotSeq(h) == SubSeq(CatLeaves(h, h.n \div Arity), 2, h.n + 1)
Stored(h) == LET s == SlotSeq(h) IN {s[i] : i \in 1..h.n}

RECURSIVE ReachFrom(_, _, _)
ReachFrom(h, r, i) ==
  IF r \notin h.alloc \/ i = 0 THEN {r}
  ELSE {r} \cup UNION {ReachFrom(h, h.nd[r][k], i - 1) : k \in {j \in Slots : h.nd[r][j] # NULL}}
Reach(h) == ReachFrom(h, Root(h), h.depth)

Capacity(h) == 2 ^ ((h.depth + 1) * SplitBits)

(* Invariants (s = SlotSeq(h) is computed once per clause) *)
StoredOK(h)   == Stored(h) \subseteq Timers
NoDup(h)      == Cardinality(Stored(h)) = h.n
HeapOrder(h)  == LET s == SlotSeq(h) IN \A i \in 2..h.n : ~Gt(h, s[i \div 2], s[i])
BackIndex(h)  == LET s == SlotSeq(h) IN
                 /\ \A i \in 1..h.n : h.ix[s[i]] = i
                 /\ \A t \in Timers : h.ix[t] >= 1 => (h.ix[t] <= h.n /\ s[h.ix[t]] = t)
RootIsMin(h)  == h.n > 0 => LET s == SlotSeq(h) IN \A i \in 1..h.n : ~Gt(h, s[1], s[i])
NoStale(h)    == \A i \in (h.n + 1)..(Capacity(h) - 1) : Slot(h, i) = NULL
DepthMinimal(h) == /\ h.depth >= 0
                   /\ Shr(h.n, (h.depth + 1) * SplitBits) = 0
                   /\ (h.depth = 0 \/ Shr(h.n, h.depth * SplitBits) # 0)
NoDangling(h) == Reach(h) \subseteq h.alloc
NoLeak(h)     == h.alloc \ Reach(h) = {}
OverlayOK(h)  == FirstLeaf \in Reach(h) /\ Root(h) \in h.alloc
DeinitFrees(h) == LET z == Deinit(h) IN z.alloc = {FirstLeaf} /\ z.depth = 0

StoreOK(h) ==
  /\ StoredOK(h) /\ NoDup(h) /\ BackIndex(h) /\ HeapOrder(h) /\ RootIsMin(h)
  /\ NoStale(h) /\ DepthMinimal(h) /\ NoDangling(h) /\ NoLeak(h) /\ OverlayOK(h)

-----------------------------------------------------------------------------
(* Canonical renaming of timer identities: the algorithm never looks at an
   identity, so two states that differ by a permutation of Timers are
   bisimilar.  Canon(h) renames the timer in slot i to i (and the others, in
   order, to n+1..); the pointer structure, the expiries and the back indices
   are carried along unchanged, so every invariant holds of Canon(h) iff it
   holds of h.  Requires Timers = 1..K.  Ill-formed stores are left alone. *)
RECURSIVE Relabel(_, _)
Relabel(h, j) ==
  IF j < 0 THEN h
  ELSE Relabel([h EXCEPT !.nd[Leaf(h, j)] =
                  [k \in Slots |-> LET idx == j * Arity + k
                                   IN IF idx >= 1 /\ idx <= h.n THEN idx ELSE @[k]]], j - 1)

Canon(h) ==
  LET s  == SlotSeq(h)
      st == {s[i] : i \in 1..h.n}
  IN IF ~(st \subseteq Timers /\ Cardinality(st) = h.n /\ \A t \in Timers \ st : h.ix[t] = -1) THEN h
     ELSE [Relabel(h, h.n \div Arity) EXCEPT
             !.ex = [k \in Timers |-> IF k <= h.n THEN h.ex[s[k]] ELSE 0],
             !.ix = [k \in Timers |-> IF k <= h.n THEN h.ix[s[k]] ELSE -1]]
=============================================================================
