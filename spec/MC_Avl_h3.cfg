SPECIFICATION Spec
CONSTANTS
  H = 3
  SampleMod = 1
CHECK_DEADLOCK FALSE
INVARIANTS
  InvBuilt
  InvParent
  InvSet
  InvOrder
  InvHeight
  InvBalance
  InvTraversal
  InvDup
  InvJudge
  Emit
