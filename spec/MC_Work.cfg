SPECIFICATION Spec
CONSTANTS
  Workers = {w1, w2, w3}
  MaxThreads = 2
  Items = {a, b, c, d}
  ContItems = {c}
  LateItems = {d}
  StartMayFail = FALSE
INVARIANTS TypeOK WorkOnce CompOnce CompAfterWork MaxRunning StartedCount NoStrandedWork HooksPaired FreedOnlyWhenDone NoSubmitLost
CHECK_DEADLOCK FALSE
