--------------------------- MODULE IvWait ---------------------------
(* System model of iv_wait (src/iv_wait.c) composed with the C11 monitor of
   MonSig (every action feeds its observable events to Mon!SStep; invariant:
   the monitor never fires).

   Kernel side: children (running / stopped / zombie), the queue of status
   changes not yet collected by wait4(), SIGCHLD (coalescing flag).
   Library side, one action per critical section (global iv_wait_lock):
     SpawnFork(i,p) / SpawnInsert(i)   iv_wait_interest_register_spawn: the
        lock is held from before fork() until the interest is in the tree, so
        the reaper cannot run in between (the child may already exit there)
     Reaper          iv_wait_got_sigchld: under the lock, wait4() until empty;
        each status is appended to the interest found by pid (iv_event_post),
        dropped if there is none; a terminating status removes the interest
        from the tree and flags it dead (pid reuse protection)
     Complete(i) / Deliver(i) / CompleteEnd(i)   iv_wait_completion: steal the
        queue, call the handler per status unless the interest was
        unregistered from its own handler (handled_wait_interest)
     Unregister(i), Kill(i)   (the kill helper refuses a dead interest)
   Environment: child state changes, strangers (children without interest). *)
EXTENDS Naturals, Integers, Sequences, FiniteSets, TLC

CONSTANTS Pids,        \* pid pool (pids are reused after reaping)
          Ints,        \* interest ids (subset of 1..8)
          OwnerOf,     \* [Ints -> thread]
          MaxChanges, MaxSpawns, MaxApi

Mon == INSTANCE MonSig
SIGTERM_ == 15

VARIABLES child, interested, kq, chld, lock,
          ireg, ipid, intree, idead, ipend, ievp, ilocal, inh, unregInH,
          nchg, nspawn, napi, mon
vars == <<child, interested, kq, chld, lock, ireg, ipid, intree, idead, ipend, ievp, ilocal, inh, unregInH,
          nchg, nspawn, napi, mon>>

Ev(rec) == Mon!SStep(mon, rec)
Ev2(r1, r2) == Mon!SStep(Mon!SStep(mon, r1), r2)

Init ==
  /\ child = [p \in Pids |-> "none"] /\ interested = {} /\ kq = <<>> /\ chld = FALSE /\ lock = 0
  /\ ireg = [i \in Ints |-> FALSE] /\ ipid = [i \in Ints |-> 0] /\ intree = [i \in Ints |-> FALSE]
  /\ idead = [i \in Ints |-> FALSE] /\ ipend = [i \in Ints |-> <<>>] /\ ievp = [i \in Ints |-> FALSE]
  /\ ilocal = [i \in Ints |-> <<>>] /\ inh = 0 /\ unregInH = FALSE
  /\ nchg = 0 /\ nspawn = 0 /\ napi = 0 /\ mon = Mon!SInit

Status(what, arg) == what * 100 + arg
IsDead(what) == what \in {0, 1}

(* ---- environment: a stranger appears; children change state *)
Stranger(p) ==
  /\ child[p] = "none" /\ nspawn < MaxSpawns /\ lock = 0
  /\ child' = [child EXCEPT ![p] = "running"] /\ nspawn' = nspawn + 1
  /\ mon' = Ev([e |-> "Fork", pid |-> p, t |-> 0])
  /\ UNCHANGED <<interested, kq, chld, lock, ireg, ipid, intree, idead, ipend, ievp, ilocal, inh, unregInH, nchg, napi>>

Change(p, what) ==   \* what: 0 exit, 1 killed, 2 stopped, 3 continued
  /\ nchg < MaxChanges /\ nchg' = nchg + 1
  /\ child[p] \in {"running", "stopped"}
  /\ (what = 2) => child[p] = "running"
  /\ (what = 3) => child[p] = "stopped"
  /\ child' = [child EXCEPT ![p] = CASE IsDead(what) -> "zombie" [] what = 2 -> "stopped" [] OTHER -> "running"]
  /\ kq' = Append(kq, <<p, Status(what, 1), IsDead(what)>>)
  /\ chld' = TRUE
  /\ mon' = Ev([e |-> "Child", pid |-> p, what |-> what, arg |-> 1, st |-> Status(what, 1), t |-> 0])
  /\ UNCHANGED <<interested, lock, ireg, ipid, intree, idead, ipend, ievp, ilocal, inh, unregInH, nspawn, napi>>

(* ---- iv_wait_interest_register_spawn *)
SpawnFork(i, p) ==
  /\ ~ireg[i] /\ child[p] = "none" /\ nspawn < MaxSpawns /\ lock = 0 /\ ilocal[i] = <<>>
  /\ (inh = 0 \/ inh = i) => TRUE
  /\ lock' = i
  /\ child' = [child EXCEPT ![p] = "running"] /\ nspawn' = nspawn + 1
  /\ ireg' = [ireg EXCEPT ![i] = TRUE] /\ ipid' = [ipid EXCEPT ![i] = p]
  /\ idead' = [idead EXCEPT ![i] = FALSE] /\ ipend' = [ipend EXCEPT ![i] = <<>>]
  /\ ievp' = [ievp EXCEPT ![i] = FALSE]
  /\ mon' = Ev2([e |-> "SpawnB", o |-> i, t |-> OwnerOf[i]], [e |-> "Fork", pid |-> p, t |-> OwnerOf[i]])
  /\ UNCHANGED <<interested, kq, chld, intree, ilocal, inh, unregInH, nchg, napi>>

SpawnInsert(i) ==
  /\ lock = i
  /\ intree' = [intree EXCEPT ![i] = TRUE] /\ lock' = 0
  /\ mon' = Ev([e |-> "A", op |-> "wait_spawn", o |-> i, a |-> ipid[i], r |-> 0, t |-> OwnerOf[i]])
  /\ UNCHANGED <<child, interested, kq, chld, ireg, ipid, idead, ipend, ievp, ilocal, inh, unregInH, nchg, nspawn, napi>>

(* ---- the reaper: the whole wait4 loop runs under the lock *)
RECURSIVE ReapEvents(_, _)
ReapEvents(q, m) ==
  IF q = <<>> THEN m
  ELSE ReapEvents(Tail(q), Mon!SStep(m, [e |-> "Reap", pid |-> q[1][1], st |-> q[1][2],
                                         dead |-> (IF q[1][3] THEN 1 ELSE 0), t |-> 0]))

(* statuses in the queue that belong to pid p, in order.  A pid is not reused
   before its termination was reaped, so all of them belong to one process. *)
For(p) == SelectSeq(kq, LAMBDA x : x[1] = p)
Sts(p) == [k \in 1..Len(For(p)) |-> For(p)[k][2]]
Dies(p) == \E k \in 1..Len(kq) : kq[k][1] = p /\ kq[k][3]

Reaper ==
  /\ chld /\ lock = 0 /\ inh = 0
  /\ chld' = FALSE /\ kq' = <<>>
  /\ child' = [p \in Pids |-> IF Dies(p) THEN "none" ELSE child[p]]
  /\ intree' = [i \in Ints |-> intree[i] /\ ~Dies(ipid[i])]
  /\ idead' = [i \in Ints |-> idead[i] \/ (intree[i] /\ Dies(ipid[i]))]
  /\ ipend' = [i \in Ints |-> IF intree[i] THEN ipend[i] \o Sts(ipid[i]) ELSE ipend[i]]
  /\ ievp' = [i \in Ints |-> ievp[i] \/ (intree[i] /\ Len(For(ipid[i])) > 0)]
  /\ mon' = ReapEvents(kq, mon)
  /\ UNCHANGED <<interested, lock, ireg, ipid, ilocal, inh, unregInH, nchg, nspawn, napi>>

(* ---- iv_wait_completion *)
Complete(i) ==
  /\ ievp[i] /\ ireg[i] /\ inh = 0 /\ lock = 0
  /\ ievp' = [ievp EXCEPT ![i] = FALSE]
  /\ ilocal' = [ilocal EXCEPT ![i] = ipend[i]] /\ ipend' = [ipend EXCEPT ![i] = <<>>]
  /\ inh' = i /\ unregInH' = FALSE
  /\ UNCHANGED <<child, interested, kq, chld, lock, ireg, ipid, intree, idead, nchg, nspawn, napi, mon>>

Deliver(i) ==
  /\ inh = i /\ ilocal[i] # <<>>
  /\ ilocal' = [ilocal EXCEPT ![i] = Tail(@)]
  /\ mon' = IF unregInH THEN mon
            ELSE Ev([e |-> "CbB", k |-> "wait", o |-> i, st |-> Head(ilocal[i]), t |-> OwnerOf[i]])
  /\ UNCHANGED <<child, interested, kq, chld, lock, ireg, ipid, intree, idead, ipend, ievp, inh, unregInH, nchg, nspawn, napi>>

CompleteEnd(i) ==
  /\ inh = i /\ ilocal[i] = <<>> /\ inh' = 0 /\ unregInH' = FALSE
  /\ UNCHANGED <<child, interested, kq, chld, lock, ireg, ipid, intree, idead, ipend, ievp, ilocal, nchg, nspawn, napi, mon>>

(* ---- unregister (from the own handler or from another callback of the
        owner thread, i.e. while no handler of this module is running) *)
Unregister(i) ==
  /\ ireg[i] /\ napi < MaxApi /\ lock = 0 /\ (inh = 0 \/ inh = i)
  /\ ireg' = [ireg EXCEPT ![i] = FALSE] /\ intree' = [intree EXCEPT ![i] = FALSE]
  /\ ipend' = [ipend EXCEPT ![i] = <<>>] /\ ievp' = [ievp EXCEPT ![i] = FALSE]
  /\ unregInH' = (unregInH \/ inh = i)
  /\ napi' = napi + 1
  /\ mon' = Ev([e |-> "A", op |-> "wait_unreg", o |-> i, t |-> OwnerOf[i]])
  /\ UNCHANGED <<child, interested, kq, chld, lock, ipid, idead, ilocal, inh, nchg, nspawn>>

Kill(i) ==
  /\ ireg[i] /\ napi < MaxApi /\ lock = 0 /\ (inh = 0 \/ inh = i)
  /\ napi' = napi + 1
  /\ IF idead[i] THEN mon' = mon /\ UNCHANGED <<child, kq, chld>>
     ELSE /\ mon' = Ev([e |-> "Kill", pid |-> ipid[i], sig |-> SIGTERM_, known |-> 1,
                        reaped |-> (IF child[ipid[i]] = "none" THEN 1 ELSE 0), now |-> <<0, 0>>, t |-> OwnerOf[i]])
          /\ UNCHANGED <<child, kq, chld>>
  /\ UNCHANGED <<interested, lock, ireg, ipid, intree, idead, ipend, ievp, ilocal, inh, unregInH, nchg, nspawn>>

Busy == chld \/ lock # 0 \/ inh # 0 \/ \E i \in Ints : ireg[i] /\ ievp[i]
Quiesce ==
  /\ ~Busy
  /\ mon' = Ev([e |-> "Qui", t |-> 0])
  /\ UNCHANGED <<child, interested, kq, chld, lock, ireg, ipid, intree, idead, ipend, ievp, ilocal, inh, unregInH, nchg, nspawn, napi>>

Next ==
  \/ \E p \in Pids : Stranger(p) \/ \E w \in 0..3 : Change(p, w)
  \/ \E i \in Ints : (\E p \in Pids : SpawnFork(i, p)) \/ SpawnInsert(i) \/ Complete(i) \/ Deliver(i)
                     \/ CompleteEnd(i) \/ Unregister(i) \/ Kill(i)
  \/ Reaper \/ Quiesce

Spec == Init /\ [][Next]_vars

NoViolation == mon.viols = {}
(* an interest in the tree is registered and alive; at most one per pid *)
TreeOK == /\ \A i \in Ints : intree[i] => ireg[i] /\ ~idead[i]
          /\ \A i, j \in Ints : (intree[i] /\ intree[j] /\ ipid[i] = ipid[j]) => i = j
(* pending statuses always come with a posted event *)
PendingPosted == \A i \in Ints : (ireg[i] /\ ipend[i] # <<>>) => ievp[i]
(* a dead interest never receives statuses of a later process with its pid *)
DeadIsolated == \A i \in Ints : (ireg[i] /\ idead[i]) => ~intree[i]
View == <<child, kq, chld, lock, ireg, ipid, intree, idead, ipend, ievp, ilocal, inh, unregInH, nchg, nspawn, napi,
          mon.viols, [i \in Ints |-> mon.wt[i].pend], mon.term, mon.reapedPids>>
=============================================================================
