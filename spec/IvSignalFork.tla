--------------------------- MODULE IvSignalFork ---------------------------
(* IvSignal plus fork(): the child is a copy of the forking thread's view of
   the signal state (src/iv_signal.c: sig_owner_pid, total_num_interests[],
   process_sigs, the forking thread's thr_sigs, the dispositions) and shares
   the raw-event descriptors of the parent's interests -- a post made in the
   child wakes the PARENT's loop.  The child may go on using the library:

     ChildRegister    iv_signal_register of an interest of the child's own;
                      the first one finds sig_owner_pid # getpid() and runs
                      iv_signal_child_reset_postfork (dispositions of every
                      signal with interests back to default, both trees
                      emptied) before it takes ownership
     ChildUnregister  iv_signal_unregister of that interest
     ChildDeliver     the signal is delivered to the child: default
                      disposition ends it; iv_signal_handler returns at once
                      unless the child owns the state, otherwise it walks the
                      child's trees -- a parent interest still in them is
                      posted through the shared descriptor

   The clause decided: "a forked child never triggers the parent's handlers"
   (MonSig rule C10:child-triggered), for every point of the parent's history
   at which the fork happens and every continuation of both processes.

   ResetThr / ResetProc / CheckOwner are the three guards of the code; each
   set to FALSE is a design the invariant refutes (MC_SignalFork_v_*.cfg). *)
EXTENDS IvSignal

CONSTANTS ResetThr, ResetProc, CheckOwner, MaxChild

VARIABLES forked,     \* "no" | "yes" | "dead"
          cthr,       \* parent interests in the child's copy of the forking thread's tree
          cproc,      \* parent interests in the child's copy of the process-wide tree
          cowner,     \* "parent" (inherited sig_owner_pid) | "none" | "child"
          ctotal,     \* the child's total_num_interests[SigNum]
          cdisp,      \* the child's disposition of the signal
          cown,       \* the child's own interest is registered
          nch         \* child steps taken
cvars == <<forked, cthr, cproc, cowner, ctotal, cdisp, cown, nch>>
fvars == <<vars, cvars>>

ChildPid == 2000

FInit ==
  /\ Init
  /\ forked = "no" /\ cthr = {} /\ cproc = {} /\ cowner = "parent" /\ ctotal = 0 /\ cdisp = "dfl"
  /\ cown = FALSE /\ nch = 0

Fork(t) ==
  /\ forked = "no" /\ (IF inh = 0 THEN TRUE ELSE Owner[inh] = t)
  /\ forked' = "yes"
  /\ cthr' = ThrTree(t) /\ cproc' = ProcTree
  /\ cowner' = IF total > 0 THEN "parent" ELSE "none"
  /\ ctotal' = total /\ cdisp' = disp
  /\ UNCHANGED <<vars, cown, nch>>

ChildRegister ==
  /\ forked = "yes" /\ ~cown /\ nch < MaxChild /\ nch' = nch + 1
  /\ IF cowner # "child"
     THEN (* iv_signal_child_reset_postfork, then ownership *)
          /\ cthr' = IF ResetThr THEN {} ELSE cthr
          /\ cproc' = IF ResetProc THEN {} ELSE cproc
          /\ ctotal' = 1
     ELSE /\ ctotal' = ctotal + 1
          /\ UNCHANGED <<cthr, cproc>>
  /\ cowner' = "child" /\ cdisp' = "handler" /\ cown' = TRUE
  /\ UNCHANGED <<vars, forked>>

ChildUnregister ==
  /\ forked = "yes" /\ cown /\ nch < MaxChild /\ nch' = nch + 1
  /\ cown' = FALSE /\ ctotal' = ctotal - 1
  /\ cdisp' = IF ctotal = 1 THEN "dfl" ELSE cdisp
  /\ UNCHANGED <<vars, forked, cthr, cproc, cowner>>

(* what a delivery in the child posts on descriptors shared with the parent *)
ChildWoken ==
  IF cdisp # "handler" \/ (CheckOwner /\ cowner # "child") THEN {}
  ELSE LET tw == Woken(cthr)   \* (the child's own interest is in one of the trees too; it is not the parent's)
       IN IF tw # {} THEN tw ELSE Woken(cproc)

ChildDeliver ==
  /\ forked = "yes" /\ nch < MaxChild /\ nch' = nch + 1
  /\ forked' = IF cdisp = "handler" THEN "yes" ELSE "dead"
  /\ LET w == {j \in ChildWoken : reg[j]} IN
     /\ posted' = [j \in Ints |-> posted[j] \/ j \in w]
     /\ active' = active       \* is->active is set in the child's memory only
  /\ mon' = Mon!SStep(Ev([e |-> "SigDlv", sig |-> SigNum, h |-> cdisp, pid |-> ChildPid, t |-> 0]),
                      [e |-> "SigRet", sig |-> SigNum, t |-> 0])
  /\ UNCHANGED <<reg, total, disp, inh, ndel, napi, cthr, cproc, cowner, ctotal, cdisp, cown>>

FNext ==
  \/ (Next /\ UNCHANGED cvars)
  \/ \E t \in Threads : Fork(t)
  \/ ChildRegister \/ ChildUnregister \/ ChildDeliver

FSpec == FInit /\ [][FNext]_fvars

(* a post from the child leaves the parent's `active` alone: the parent's invariants are unchanged *)
FView == <<View, cvars>>
=============================================================================
