--------------------------- MODULE TraceInotify ---------------------------
(* Trace validation for C20: consumes an ndjson trace recorded from the real
   iv_inotify code by harness/ivh_inotify.c (IOEnv.TRACE), feeds every event
   to the MonInotify monitor (the only source of verdicts) and, in lock-step,
   to the IvInotify system model: an event the model cannot take is recorded
   as DRIFT (a warning about the model, never a verdict).  One VERDICT line
   per execution (executions are separated by Reset records).
   Deterministic: one state per consumed line. *)
EXTENDS IvInotify, MonInotify, Json, IOUtils

VARIABLES l, mon, sid, drift
tvars == <<l, mon, sid, drift, p, ev>>

Log == ndJsonDeserialize(IOEnv.TRACE)
N == Len(Log)

TInit == l = 1 /\ mon = MonInit /\ sid = "none" /\ drift = "" /\ p = Start /\ ev = [e |-> "none"]

(* events the system model has no step for *)
Unmodelled(e) == \/ e.e \in {"Ph", "Touch", "Peer"}
                 \/ e.e = "End" /\ e.why \notin {"ok", "crash"}

TNext ==
  /\ l <= N
  /\ l' = l + 1
  /\ LET e == Log[l] IN
     /\ ev' = ev
     /\ IF e.e = "Reset"
        THEN mon' = MonInit /\ sid' = e.id /\ drift' = "" /\ p' = Start
        ELSE /\ mon' = MonStep(mon, e)
             /\ sid' = sid
             /\ IF drift # "" \/ Unmodelled(e)
                THEN UNCHANGED <<p, drift>>
                ELSE IF Enabled(p, e)
                     THEN p' = Apply(p, e) /\ drift' = ""
                     ELSE p' = p /\ drift' = "line " \o ToString(l) \o ": " \o e.e \o " at pc " \o p.pc
             /\ (e.e = "End") =>
                  PrintT("VERDICT " \o ToJson([id |-> sid, why |-> e.why, sig |-> e.sig, viols |-> mon'.viols,
                                                seen |-> mon'.seen, drift |-> drift']))

TSpec == TInit /\ [][TNext]_tvars
(* violated <=> the whole trace was consumed *)
NotDone == l <= N
=============================================================================
