SPECIFICATION Spec
CONSTANTS
  FD = {1, 2}
  TM = {}
  TK = {1}
  EVS = {}
  Method = "poll"
  Hids = {1}
  Expiries = {0}
  MaxTime = 2
  MaxOps = 3
  MaxCbOps = 2
  MaxSetup = 3
  MaxWaits = 2
  MaxKern = 2
  AllowTry = TRUE
  KeepTasks = FALSE
  KernMode = "free"
  GenMode = FALSE
  MaxIntr = 0
  InitBits = {0, 1}
INVARIANTS NoViolation NumObjsOK ActiveRegistered HandledRegistered EpollSync PollArrayOK ExpiredOK TasksOK EventsOK TimerFdOK
VIEW View
CHECK_DEADLOCK FALSE
