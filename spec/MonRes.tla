--------------------------- MODULE MonRes ---------------------------
(* Resource-ownership monitor (C18, and the memory clauses of C01/C13/C20):
   a state machine over the observable acquire / release / access events.

   Events:
     Alloc r n / Free r / BadFree r     library heap blocks (wrapped allocator)
     FdNew n k / Close f n              descriptors created / closed by the library
     AB op o / A op o ...               API call begin / end of the scenario program
     CbB k o b                          callback entry (one-shot objects stop being lent)
     SubB o p                           work item handed to the library
     Acc a                              one segment of compiler-observed accesses:
                                        a = << <<region, isWrite, word>> ... >> with
                                        region = <<"h",id>> live heap block | <<"f",id>> freed block |
                                        <<"g",id>> guard gap after block id | <<"u",kind,id>> user object |
                                        <<"s",name>> static | <<"w",page>> anything else
     Tls op                             per-thread state hooks of a registered iv_tls_user
     Flags o nb ce                      fcntl flags of a descriptor after registration
     End why

   Ownership: the library owns the heap blocks it allocated until it frees them;
   a user object is LENT to it from the begin of the registering call until the
   unregistering call returns (one-shot objects: until their handler is entered;
   work items: from submit until the completion is entered), and it may always
   touch the object named by the API call in progress in that thread. *)
EXTENDS Naturals, Integers, Sequences, FiniteSets, TLC

Kinds == <<"fd", "tm", "tk", "ev", "raw", "pool", "wi", "sig", "wait", "popen">>
KindIdx(k) == CHOOSE i \in 1..Len(Kinds) : Kinds[i] = k
Thr == 0..63

RInit ==
  [ heap |-> {}, freed |-> {},          \* block ids
    fds |-> {},                          \* OS descriptor numbers created by the library and open
    lent |-> {},                         \* <<kind index - 1, id>>
    cur |-> [t \in Thr |-> <<-1, 0>>],   \* object of the API call in progress in thread t
    tlsInit |-> [t \in Thr |-> 0], tlsDeinit |-> [t \in Thr |-> 0],
    quit |-> FALSE,                      \* iv_quit was used: objects may legitimately be left behind
    viols |-> {}, seen |-> {} ]

V(m, rule) == [m EXCEPT !.viols = @ \cup {rule}]
S(m, rule) == [m EXCEPT !.seen = @ \cup {rule}]
Chk(m, ante, ok, rule) == IF ante THEN (IF ok THEN S(m, rule) ELSE V(S(m, rule), rule)) ELSE m

OpKind(op) ==
  CASE op \in {"fd_reg", "fd_try", "fd_unreg", "fd_set", "fd_cookie"} -> 0
    [] op \in {"tm_reg", "tm_unreg", "tm_bulk"} -> 1
    [] op \in {"tk_reg", "tk_unreg", "tk_unreg_keep"} -> 2
    [] op \in {"ev_reg", "ev_unreg", "ev_post"} -> 3
    [] op \in {"raw_reg", "raw_unreg", "raw_post", "raw_burst"} -> 4
    [] op \in {"pool_create", "pool_put"} -> 5
    [] op \in {"submit", "submit_cont"} -> 6
    [] op \in {"sig_reg", "sig_unreg"} -> 7
    [] op \in {"wait_reg", "wait_spawn", "wait_unreg", "wait_kill"} -> 8
    [] op \in {"popen", "popen_close"} -> 9
    [] OTHER -> -1

Lends(op) == op \in {"fd_reg", "fd_try", "tm_reg", "tm_bulk", "tk_reg", "ev_reg", "raw_reg", "pool_create", "sig_reg",
                     "wait_reg", "wait_spawn", "popen"}
Returns(op) == op \in {"fd_unreg", "tm_unreg", "tk_unreg", "ev_unreg", "raw_unreg", "pool_put", "sig_unreg",
                       "wait_unreg", "popen_close"}

ApiBegin(m, e) ==
  LET k == OpKind(e.op) IN
  IF k < 0 THEN m
  ELSE LET m1 == [m EXCEPT !.cur[e.t] = <<k, e.o>>] IN
       IF Lends(e.op) \/ e.op \in {"submit", "submit_cont"} THEN [m1 EXCEPT !.lent = @ \cup {<<k, e.o>>}] ELSE m1

ApiEnd(m, e) ==
  LET k == OpKind(e.op)
      m1 == [m EXCEPT !.cur[e.t] = <<-1, 0>>] IN
  IF e.op = "quit" THEN [m1 EXCEPT !.quit = TRUE]
  ELSE IF k < 0 THEN m1
  ELSE IF Returns(e.op) \/ (Lends(e.op) /\ e.r # 0) THEN [m1 EXCEPT !.lent = @ \ {<<k, e.o>>}]
  ELSE IF Lends(e.op) THEN [m1 EXCEPT !.lent = @ \cup {<<k, e.o>>}]
  ELSE m1

CbBegin(m, e) ==
  (* one-shot objects are already unregistered when their handler is entered *)
  IF e.k \in {"tm", "tk"} /\ e.ko = e.k THEN [m EXCEPT !.lent = @ \ {<<KindIdx(e.k) - 1, e.o>>}]
  ELSE IF e.k = "wi" /\ e.b = 2 THEN [m EXCEPT !.lent = @ \ {<<6, e.o>>}]
  ELSE m

AccOne(m, t, x) ==
  LET r == x[1] IN
  CASE r[1] = "h" -> Chk(m, TRUE, r[2] \in m.heap, "C18:heap-unknown")
    [] r[1] = "f" -> V(S(m, "C18:use-after-free"), "C18:use-after-free")
    [] r[1] = "g" -> V(S(m, "C18:out-of-bounds"), "C18:out-of-bounds")
    [] r[1] = "w" -> V(S(m, "C18:wild"), "C18:wild")
    [] r[1] = "u" -> LET ok == <<r[2], r[3]>> \in m.lent \/ m.cur[t] = <<r[2], r[3]>>
                         m1 == Chk(m, TRUE, ok, "C18:not-lent")
                     IN IF ok THEN m1 ELSE V(m1, "C01:acc-after-unreg")
    [] OTHER -> m

RECURSIVE AccAll(_, _, _, _)
AccAll(m, t, a, i) == IF i > Len(a) THEN m ELSE AccAll(AccOne(m, t, a[i]), t, a, i + 1)

EndStep(m, e) ==
  IF e.why # "ok" THEN m
  ELSE LET clean == m.lent = {} /\ ~m.quit     \* the program released everything it registered
           m1 == Chk(m, clean, m.heap = {}, "C18:leak-mem")
           m2 == Chk(m1, clean, m1.fds = {}, "C18:leak-fd")
       IN Chk(m2, \E t \in Thr : m2.tlsInit[t] > 0, \A t \in Thr : m2.tlsInit[t] = m2.tlsDeinit[t], "C18:tls-unpaired")

RStep(m, e) ==
  CASE e.e = "Alloc" -> [m EXCEPT !.heap = @ \cup {e.r}]
    [] e.e = "Free" -> Chk([m EXCEPT !.heap = @ \ {e.r}, !.freed = @ \cup {e.r}], TRUE, e.r \in m.heap, "C18:bad-free")
    [] e.e = "BadFree" -> V(m, "C18:bad-free")
    [] e.e = "FdNew" -> [m EXCEPT !.fds = @ \cup {e.n}]
    [] e.e = "Close" -> [m EXCEPT !.fds = @ \ {e.n}]
    [] e.e = "AB" -> ApiBegin(m, e)
    [] e.e = "A" -> ApiEnd(m, e)
    [] e.e = "SubB" -> [m EXCEPT !.lent = @ \cup {<<6, e.o>>}]
    [] e.e = "CbB" -> CbBegin(m, e)
    [] e.e = "Acc" -> AccAll(m, e.t, e.a, 1)
    [] e.e = "Tls" -> IF e.op = "init" THEN [m EXCEPT !.tlsInit[e.t] = @ + 1]
                      ELSE Chk(Chk([m EXCEPT !.tlsDeinit[e.t] = @ + 1], TRUE, m.tlsDeinit[e.t] < m.tlsInit[e.t], "C18:tls-unpaired"),
                               TRUE, e.ok = 1, "C18:tls-state")
    [] e.e = "Flags" -> Chk(m, TRUE, e.nb = 1 /\ e.ce = 1, "C18:flags")
    [] e.e = "End" -> EndStep(m, e)
    [] OTHER -> m
=============================================================================
