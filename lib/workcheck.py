#!/usr/bin/env python3
"""C12 (iv_work items) and C13 (pool shutdown / iv_thread lifetime): model
checking of IvWork.tla, schedule enumeration and seeded random schedules (with
virtual-time jumps across the 10 s idle timeout) of real executions under the
baton scheduler, TLC trace validation with MonWork."""
import collections
import concurrent.futures as cf
import os
import random
import sys

sys.path.insert(0, os.path.dirname(os.path.abspath(__file__)))
import vlib
import corerun
from mtcheck import mk, enumerate_schedules

HDR = "maxwait=400 maxcb=250"


def small_scenarios(pid):
    S = {}
    S["1item-max1"] = ["O pool 1", "O wi 1", "S pool_create 1 1", "S submit 1 1", "R wi 1 2 1 pool_put 1"]
    S["2items-max1"] = ["O pool 1", "O wi 1", "O wi 2", "S pool_create 1 1", "S submit 1 1", "S submit 2 1", "R wi 2 2 1 pool_put 1"]
    S["cont-max1"] = ["O pool 1", "O wi 1", "O wi 2", "S pool_create 1 1", "S submit 1 1", "R wi 1 1 1 submit_cont 2 1", "R wi 2 2 1 pool_put 1"]
    S["2items-max2"] = ["O pool 1", "O wi 1", "O wi 2", "S pool_create 1 2", "S submit 1 1", "S submit 2 1", "R wi 1 2 1 pool_put 1"]
    S["resubmit"] = ["O pool 1", "O wi 1", "O wi 2", "S pool_create 1 1", "S submit 1 1", "R wi 1 2 1 submit 2 1", "R wi 2 2 1 pool_put 1"]
    # a continuation asks for a thread while the owner starts one itself (thread_needed must re-check the limit)
    S["cont-race-max2"] = ["O pool 1", "O wi 1", "O wi 2", "O wi 3", "O tm 1", "O tm 2", "S pool_create 1 2", "S submit 1 1",
                           "S tm_reg 1 1 0 1000", "S tm_reg 2 1 1 0",
                           "R wi 1 1 1 submit_cont 2 1", "R wi 1 1 1 wait_flag 1", "R tm 1 0 1 submit 3 1", "R tm 2 0 1 set_flag 1",
                           "R wi 2 1 0 wait_flag 1", "R wi 3 1 0 wait_flag 1", "R wi 3 2 1 pool_put 1"]
    # the owner is busy in a callback while a work function posts thread_needed, then submits itself
    S["cont-owner-busy"] = ["O pool 1", "O wi 1", "O wi 2", "O wi 3", "O tk 1", "O tm 2", "S pool_create 1 2", "S submit 1 1",
                            "S tk_reg 1", "S tm_reg 2 1 1 0",
                            "R wi 1 1 1 submit_cont 2 1", "R wi 1 1 1 set_flag 2", "R wi 1 1 1 wait_flag 1",
                            "R tk 1 0 1 wait_flag 2", "R tk 1 0 1 submit 3 1", "R tm 2 0 1 set_flag 1",
                            "R wi 2 1 0 wait_flag 1", "R wi 3 1 0 wait_flag 1", "R wi 3 2 1 pool_put 1"]
    # the pool is saturated by blocked work functions while more is submitted and the pool is put
    S["saturated-put"] = ["O pool 1", "O wi 1", "O wi 2", "O tm 2", "S pool_create 1 1", "S submit 1 1", "S tm_reg 2 1 1 0",
                          "R wi 1 1 1 wait_flag 1", "S submit 2 1", "S pool_put 1", "R tm 2 0 1 set_flag 1"]
    S["saturated-late"] = ["O pool 1", "O wi 1", "O wi 2", "O tm 1", "O tm 2", "S pool_create 1 1", "S submit 1 1", "S tm_reg 1 1 0 1000",
                           "S tm_reg 2 1 1 0", "R wi 1 1 1 wait_flag 1", "R tm 1 0 1 submit 2 1", "R tm 2 0 1 set_flag 1",
                           "R wi 2 2 1 pool_put 1"]
    S["cont-race-max1"] = ["O pool 1", "O wi 1", "O wi 2", "O wi 3", "O tk 1", "S pool_create 1 1", "S tk_reg 1", "R tk 1 0 1 submit 1 1",
                           "S pool_create 1 1", "R wi 1 1 1 yield", "R wi 1 2 1 submit 2 1", "R wi 2 1 1 submit_cont 3 1", "R wi 2 1 1 yield",
                           "R wi 3 1 0 yield", "R wi 3 2 1 pool_put 1"]
    # creating the second worker fails (EAGAIN): the error is dropped, the first worker does all the work,
    # and the pool must still shut down (a fault outside the quantifier of C12/C13, kept because it is cheap)
    S["create-fail"] = ["F pthread_create 2 EAGAIN 0", "O pool 1", "O wi 1", "O wi 2", "O tm 1", "O tm 2", "S pool_create 1 2",
                        "S submit 1 1", "S tm_reg 1 1 0 1000", "S tm_reg 2 1 1 0", "R wi 1 1 1 wait_flag 1",
                        "R tm 1 0 1 submit 2 1", "R tm 2 0 1 set_flag 1", "R wi 2 2 1 pool_put 1"]
    S["put-early"] = ["O pool 1", "O wi 1", "O wi 2", "S pool_create 1 2", "S submit 1 1", "S submit 2 1", "S pool_put 1"]
    S["put-empty"] = ["O pool 1", "S pool_create 1 2", "S pool_put 1"]
    # two workers end together; the stop hook of the first one to go takes its time (another thread lets it
    # continue): the pool must not be torn down under it
    S["stop-hook-slow"] = ["O pool 1", "O wi 1", "O wi 2", "S pool_create 1 2", "S submit 1 1", "S submit 2 1",
                           "R wi 1 1 1 set_flag 2", "R wi 1 1 1 wait_flag 3", "R wi 2 1 1 set_flag 3", "R wi 2 1 1 wait_flag 2",
                           "R wi 1 2 1 pool_put 1", "R wi 2 2 1 pool_put 1", "R pool 1 2 1 wait_flag 5",
                           "S spawn 1"] + ["T 1 yield"] * 6 + ["T 1 set_flag 5"]
    # below the thread limit: a worker finishes while a newer item is queued for a worker that is still starting
    S["rekick-below-cap"] = ["O pool 1", "O wi 1", "O wi 2", "O tm 1", "S pool_create 1 3", "S submit 1 1", "S tm_reg 1 1 0 1000",
                             "R wi 1 1 1 wait_flag 1", "R tm 1 0 1 submit 2 1", "R tm 1 0 1 set_flag 1",
                             "R pool 1 1 2 wait_flag 3", "R wi 1 2 1 set_flag 3", "R wi 2 2 1 pool_put 1"]
    S["null-chain"] = ["O wi 1", "O wi 2", "O wi 3", "O wi 4", "S submit 1 0", "R wi 1 2 1 submit 2 0", "R wi 2 2 1 submit 3 0",
                       "R wi 3 2 1 submit 4 0", "R wi 3 2 1 submit 1 0"]
    S["null-pool"] = ["O wi 1", "O wi 2", "S submit 1 0", "S submit 2 0", "R wi 1 2 1 submit 1 0"]
    if pid == "C13":
        for nm, body in (("ret", ["T 1 yield"]), ("init-deinit", ["T 1 iv_init", "T 1 iv_deinit"]), ("init-only", ["T 1 iv_init"]),
                         ("pexit", ["T 1 pthread_exit"]), ("init-pexit", ["T 1 iv_init", "T 1 pthread_exit"]),
                         ("loop", ["O tm 4", "T 1 iv_init", "T 1 tm_reg 4 1 0 1000", "T 1 iv_main", "T 1 iv_deinit"])):
            S["thr-" + nm] = ["S thr_create 1"] + body
            S["thr2-" + nm] = ["O tk 1", "S tk_reg 1", "R tk 1 0 1 thr_create 1", "S thr_create 2", "T 2 yield"] + body
    return S


def random_work_script(rnd, sid, pid, method):
    L = ["O pool 1", "O pool 2"]
    nwi = rnd.randint(1, 6)
    for i in range(1, nwi + 1):
        L.append("O wi %d" % i)
    mx = rnd.choice([1, 1, 2, 2, 3])
    L.append("S pool_create 1 %d" % mx)
    two = rnd.random() < 0.2
    if two:
        L.append("S pool_create 2 %d" % rnd.choice([1, 2]))
    first = rnd.randint(1, nwi)
    for i in range(1, first + 1):
        L.append("S submit %d %d" % (i, rnd.choice([1, 1, 1, 2 if two else 1, 0 if rnd.random() < 0.3 else 1])))
    put_planned = False
    blocked_any = False
    for i in range(1, nwi + 1):
        # work-function reactions
        if rnd.random() < 0.35:
            j = rnd.randint(1, nwi)
            L.append("R wi %d 1 %d submit_cont %d 1" % (i, rnd.choice([1, 0]), j))
        if rnd.random() < 0.3:
            # a work function that stays busy until the owner says so
            L.append("R wi %d 1 0 wait_flag 1" % i)
            blocked_any = True
        if rnd.random() < 0.45:
            L.append("R wi %d 1 0 %s" % (i, rnd.choice(["yield", "yield", "yield", "slow 0 1000", "slow 11 0"])))
            if rnd.random() < 0.4:
                L.append("R wi %d 1 0 yield" % i)
        # completion reactions
        c = rnd.random()
        if c < 0.4:
            j = rnd.randint(1, nwi)
            L.append("R wi %d 2 %d submit %d %d" % (i, rnd.choice([1, 1, 2, 2, 3, 0]), j, rnd.choice([1, 1, 0])))
        elif c < 0.6:
            L.append("R wi %d 2 %d pool_put 1" % (i, rnd.choice([1, 2])))
            put_planned = True
    if not put_planned or rnd.random() < 0.5:
        L += ["O tm 1", "S tm_reg 1 1 %d 0" % rnd.choice([0, 1, 12, 25]), "R tm 1 0 1 pool_put 1"]
        if two:
            L.append("R tm 1 0 1 pool_put 2")
    if blocked_any:
        L += ["O tm 2", "S tm_reg 2 1 %d 0" % rnd.choice([1, 3, 30]), "R tm 2 0 1 set_flag 1"]
    if rnd.random() < 0.15:
        L.append("S pool_put 1")
    if pid == "C13" and rnd.random() < 0.4:
        L.append("S thr_create 1")
        L += rnd.choice([["T 1 yield"], ["T 1 iv_init", "T 1 iv_deinit"], ["T 1 iv_init"], ["T 1 pthread_exit"],
                         ["O tm 4", "T 1 iv_init", "T 1 tm_reg 4 1 0 1000", "T 1 iv_main", "T 1 iv_deinit"]])
    hdr = "B %s method=%s seed=%d %s det=0 sticky=%d jump=%d" % (sid, method, rnd.randint(1, 1 << 30), HDR,
                                                                  rnd.choice([0, 1, 3, 8]), rnd.choice([0, 0, 12, 40]))
    return "\n".join([hdr] + L + ["X"]) + "\n"


def run(pid, tier, seed, replay=None):
    rep = vlib.Report(pid, tier, seed)
    exe = corerun.build_core("plain")
    rnd = random.Random(seed)
    with vlib.Scratch("verif-" + pid) as sc:
        mcs = [("IvWork.tla", "MC_Work.cfg" if tier == "thorough" else "MC_Work_quick.cfg"), ("IvWork.tla", "MC_Work_live.cfg"),
               ("IvWork.tla", "MC_Work_fail.cfg"), ("IvWork.tla", "MC_Work_live_fail.cfg")]
        pool = cf.ThreadPoolExecutor(len(mcs))
        futs = [pool.submit(vlib.tlc, m, c, sc, workers=max(2, vlib.NCPU // 2), timeout=1500, coverage=True) for m, c in mcs]
        scripts, tfs, exhausted = [], [], []
        if replay:
            scripts = [vlib.read(replay)]
            tfs = corerun.run_scripts(exe, scripts, sc, tag="replay")
        else:
            budget = 200 if tier == "quick" else 1200
            for name, body in small_scenarios(pid).items():
                for method in (("epoll", "poll") if tier == "thorough" else ("epoll",)):
                    s, t, _n, complete = enumerate_schedules(exe, sc, name, body, method + " " + HDR, [], budget, pid + "e")
                    scripts += s
                    tfs += t
                    if complete:
                        exhausted.append("%s/%s" % (name, method))
            rs = [random_work_script(rnd, "%sr%d.%d" % (pid, seed, i), pid, rnd.choice(["epoll", "epoll-timerfd", "poll", "ppoll"]))
                  for i in range(500 if tier == "quick" else 3000)]
            scripts += rs
            tfs += corerun.run_scripts(exe, rs, sc, tag="rand")
        idx = corerun.script_index(scripts)
        verdicts, nev = vlib.validate_traces(tfs, sc)
        if len(verdicts) != len(scripts):
            raise vlib.MachineryError("%d scripts but %d verdicts" % (len(scripts), len(verdicts)))
        states = trans = 0
        runs, covall = [], {}
        for (mod, cfg), fu in zip(mcs, futs):
            r = fu.result()
            if r["violated"] or not r["complete"]:
                raise vlib.MachineryError("model %s/%s: violated=%s complete=%s\n%s" % (mod, cfg, r["violated"], r["complete"], r["out"][-2000:]))
            for a, (taken, gen_) in vlib.tlc_coverage(r["out"]).items():
                covall[a] = covall.get(a, 0) + max(taken, gen_)
            states += r["distinct"]
            trans += r["generated"]
            runs.append({"module": mod, "cfg": cfg, "distinct": r["distinct"], "generated": r["generated"], "depth": r["depth"]})
        dead = [a for a, taken in covall.items() if taken == 0]
        if dead:
            raise vlib.MachineryError("model actions never taken: %s" % dead)
        bad = collections.OrderedDict()
        nontrivial, seen_rules = set(), collections.Counter()
        for v in verdicts:
            for s in v["seen"]:
                if s.startswith(pid):
                    seen_rules[s] += 1
                    nontrivial.add(vlib.sha(idx[v["id"]])[:16])
            for r in v["viols"]:
                if r.startswith(pid):
                    bad.setdefault(v["id"], []).append(r)
                elif r in ("C18:crash", "C07:hang-real") or r.endswith(":crash"):
                    bad.setdefault(v["id"], []).append(pid + ":crash" if "crash" in r else pid + ":hang-real")
        pick = list(bad)[:12]
        if pick:
            tf2 = corerun.run_scripts(exe, [idx[s] for s in pick], sc, tag="confirm")
            v2, _ = vlib.validate_traces(tf2, sc)
            again = {v["id"]: v["viols"] for v in v2}
            for sid in pick:
                for r in sorted(set(bad[sid])):
                    tail = r.split(":")[1]
                    if any(a == r or (tail in ("crash", "hang-real") and a.endswith(tail)) for a in again.get(sid, ())):
                        rep.violation(r, vlib.save_replay_text(pid, idx[sid]), "script %s" % sid)
        rep.add(evaluations=len(scripts), distinct_nontrivial=len(nontrivial), traces_validated_against_impl=len(verdicts),
                trace_events=nev, states=states + nev, transitions=trans + nev, model_checks=runs,
                schedules_exhausted=exhausted, rules_exercised=dict(seen_rules),
                ends=dict(collections.Counter(v["why"] for v in verdicts)),
                rule="executions = (pool/thread scenario, poll method, schedule, virtual-time jumps); schedules of the small scenarios are "
                     "enumerated by iterative context bounding, larger random scenarios run under seeded random schedules with "
                     "10 s time jumps at random scheduling points; non-trivial = distinct script in which a rule of this property "
                     "had its antecedent satisfied", exhaustive=False)
        if scripts:
            rep.sample({"script": scripts[0].splitlines()})
            rep.sample({"script": scripts[-1].splitlines()})
        need = {"C12": ["C12:work-twice", "C12:work-in-owner", "C12:over-max", "C12:completion-twice", "C12:completion-before-work",
                        "C12:completion-wrong-thread", "C12:incomplete", "C12:local-wrong-thread"],
                "C13": ["C13:hook-unpaired", "C13:early-return", "C13:not-joined", "C13:incomplete-at-return"]}[pid]
        vac = [r for r in need if seen_rules[r] == 0]
        if vac and not replay and not rep.viol:
            raise vlib.MachineryError("vacuous run: rules never exercised: %s" % vac)
    rep.assumptions += [
        "threads run under the baton scheduler; context switches only at synchronisation operations and wake-up writes",
        "iv_event delivery between threads is abstracted in IvWork.tla to its contract (C08), model-checked separately",
        "TLC evaluates spec/MonWork.tla on every recorded execution"]
    return rep.finish()
