--------------------------- MODULE IvCore ---------------------------
(* System model of the ivykis loop core, shaped like the code, composed with
   the MonCore property monitors: every action feeds the observable events the
   real code would produce into Mon!MonStep, and the invariant is that the
   monitor never fires (DESIGN 3.1, Appendix G).

   Code map (src/):
     iv_main_posix.c  iv_main: quit := 0; loop { run_timers? ; run_tasks ;
                      exit test ; abs := 0 if tasks pending else soonest timer ;
                      run_timers := poll_and_run(abs) }
     iv_fd.c          register / register_try / unregister / set_handler_*,
                      recompute_wanted, notify_fd, iv_fd_poll_and_run (timeout
                      check automaton, dispatch of the active list: handled_fd,
                      err -> in -> out), iv_fd_make_ready
     iv_fd_epoll.c    deferred notify list, flush at poll time, synchronous
                      flush on unregister, epoll_wait, timerfd after 5 equal
                      deadlines (method "ept")
     iv_fd_poll.c     dense pollfd array (index, swap-delete), poll/ppoll
     iv_timer.c       heap (here: the set of armed timers, the real store is
                      IvTimerHeap.tla), expired list, index -1 / 0 / >0
     iv_task.c        st->tasks, tasks_current, task_epoch, IV_TASK_INIT rule
     iv_event.c       same-thread posts: pending list + events_local task

   The environment (the user program, the kernel, time) is non-deterministic
   and bounded: MaxOps API calls in total, MaxCbOps per callback, MaxWaits
   loop iterations, kernel readiness changes only while the loop waits. *)
EXTENDS Naturals, Integers, Sequences, FiniteSets, TLC, Json

CONSTANTS FD, TM, TK, EVS,      \* object ids (subsets of 1..8)
          Method,               \* "ept" | "ep" | "ppoll" | "poll"
          Hids,                 \* handler variants a program may install (e.g. {1})
          Expiries,             \* timer expiry ticks a program may use
          MaxTime,              \* clock range 0..MaxTime (ticks)
          MaxOps, MaxSetup, MaxCbOps, MaxWaits, MaxKern,
          AllowTry,             \* iv_fd_register_try (and its failure) allowed
          KeepTasks,            \* task objects are kept and re-registered without IV_TASK_INIT
          KernMode,             \* "free": any readiness change while blocked (design checking);
                                \* "pipe": every descriptor is a pipe read end: data arrives, the
                                \* writer hangs up, only the program drains (realisable scripts)
          MaxIntr,              \* how many waits the kernel may interrupt (EINTR)
          InitBits,             \* possible initial readiness bit sets of a descriptor
          GenMode               \* record the environment's choices in `hist` (script generation)

Mon == INSTANCE MonCore
Band == 1..3
IsEpoll == Method \in {"ept", "ep"}
None == 0

VARIABLES
  pc,          \* "setup" | "timers" | "texp" | "tasks" | "tpop" | "exit" | "poll" | "disp" | "band" | "done"
  cb,          \* callback context: <<kind, id>> or <<>>
  cbops, ops, waits, kern,
  \* descriptors
  fdreg, fdh, kreg, notify, parr, active, ready, handled, stage, kcond,
  \* timers
  tmst, tmexp, expB,
  \* tasks
  tkq, tkepoch, tkNext, tkCur, epoch, inRound,
  \* events (same thread)
  evreg, evq, evPend, evBatch, evLocal, evEmptyNow,
  \* loop
  numobjs, numfds, quit, runTimers, clock, ctime, cvalid, lastAbs, lastCnt, tfd,
  wrel, wuse,  \* the wait in progress: effective relative timeout (-1 none), timer descriptor in use
  tkhas,       \* the task object exists and was initialised earlier (no IV_TASK_INIT at the next register)
  intr,        \* number of interrupted waits so far
  hist,        \* GenMode: the program's and the environment's choices so far
  mon

vars == <<pc, cb, cbops, ops, waits, kern, fdreg, fdh, kreg, notify, parr, active, ready, handled, stage, kcond,
          tmst, tmexp, expB, tkq, tkepoch, tkNext, tkCur, epoch, inRound,
          evreg, evq, evPend, evBatch, evLocal, evEmptyNow,
          numobjs, numfds, quit, runTimers, clock, ctime, cvalid, lastAbs, lastCnt, tfd, wrel, wuse, tkhas, intr, hist, mon>>

fdvars == <<fdreg, fdh, kreg, notify, parr, active, ready, handled, stage, kcond>>
tmvars == <<tmst, tmexp, expB>>
tkvars == <<tkq, tkepoch, tkNext, tkCur, epoch, inRound, tkhas>>
evvars == <<evreg, evq, evPend, evBatch, evLocal, evEmptyNow>>
timevars == <<clock, ctime, cvalid, lastAbs, lastCnt, tfd, wrel, wuse, intr>>

(* ticks: 0 is the zero timespec (an expiry of 0 is "long ago", and the
   zero deadline iv_main uses while tasks are pending); the clock starts at 1 *)
Ts(n) == IF n = 0 THEN <<0, 0>> ELSE <<999 + n, 0>>
Ev(m, rec) == Mon!MonStep(m, rec)
Ev1(rec) == Mon!MonStep(mon, rec)

A(op, o, a, b, c, ts, r) == [e |-> "A", op |-> op, o |-> o, a |-> a, b |-> b, c |-> c, ts |-> ts, r |-> r, t |-> 0]
CbB(k, o, b, h, regd) == [e |-> "CbB", k |-> k, o |-> o, b |-> b, h |-> h, ck |-> 0, ko |-> k, reg |-> regd,
                          d |-> 0, api |-> 0, st |-> 0, t |-> 0]

Remove(s, x) == SelectSeq(s, LAMBDA y : y # x)
InSeq(s, x) == \E i \in 1..Len(s) : s[i] = x
Wanted(f) == IF fdreg[f] THEN {b \in Band : fdh[f][b] # 0} ELSE {}

Init ==
  /\ pc = "setup" /\ cb = <<>> /\ cbops = 0 /\ ops = 0 /\ waits = 0 /\ kern = 0
  /\ fdreg = [f \in FD |-> FALSE] /\ fdh = [f \in FD |-> <<0, 0, 0>>]
  /\ kreg = [f \in FD |-> {}] /\ notify = <<>> /\ parr = <<>> /\ active = <<>>
  /\ ready = [f \in FD |-> {}] /\ handled = None /\ stage = 0
  /\ kcond \in [FD -> InitBits]      \* readiness that exists before the program starts
  /\ tmst = [t \in TM |-> "idle"] /\ tmexp = [t \in TM |-> 0] /\ expB = <<>>
  /\ tkq = [k \in TK |-> "none"] /\ tkepoch = [k \in TK |-> 0] /\ tkNext = <<>> /\ tkCur = <<>>
  /\ epoch = 0 /\ inRound = FALSE
  /\ evreg = [e \in EVS |-> FALSE] /\ evq = [e \in EVS |-> FALSE] /\ evPend = <<>> /\ evBatch = <<>>
  /\ evLocal = <<"none", FALSE>> /\ evEmptyNow = FALSE
  /\ numobjs = 0 /\ numfds = 0 /\ quit = FALSE /\ runTimers = TRUE
  /\ clock = 1 /\ ctime = 0 /\ cvalid = FALSE /\ lastAbs = 0 /\ lastCnt = 0 /\ tfd = -1
  /\ wrel = -1 /\ wuse = FALSE /\ tkhas = [k \in TK |-> FALSE] /\ intr = 0 /\ hist = IF GenMode THEN << [t |-> "init", kc |-> [i \in 1..Cardinality(FD) |-> kcond[i]]] >> ELSE <<>>
  /\ mon = Mon!MonInit

-----------------------------------------------------------------------------
(* the user program: API calls from set-up or from inside a callback *)
H(rec) == IF GenMode THEN Append(hist, rec) ELSE hist
Ctx == IF cb = <<>> THEN <<"S">> ELSE cb
Op(name, a1, a2, a3, a4) == [t |-> "api", ctx |-> Ctx, op |-> name, a |-> <<a1, a2, a3, a4>>]
CanCall == (pc = "setup" \/ cb # <<>>) /\ ops < MaxOps /\ (cb # <<>> => cbops < MaxCbOps)
           /\ (pc = "setup" => ops < MaxSetup)
Called == ops' = ops + 1 /\ cbops' = IF cb # <<>> THEN cbops + 1 ELSE cbops

(* method->notify_fd after recompute_wanted_flags, for the new handler tuple *)
NotifyFd(f, wantedNew) ==
  IF IsEpoll
  THEN /\ notify' = IF kreg[f] # wantedNew THEN Append(Remove(notify, f), f) ELSE Remove(notify, f)
       /\ UNCHANGED <<parr, kreg>>
  ELSE /\ parr' = IF wantedNew # {} /\ ~InSeq(parr, f) THEN Append(parr, f)
                  ELSE IF wantedNew = {} THEN
                         (* swap-delete: the last entry takes the freed slot *)
                         IF InSeq(parr, f)
                         THEN LET n == Len(parr)
                                  i == CHOOSE j \in 1..n : parr[j] = f
                              IN IF i = n THEN SubSeq(parr, 1, n - 1)
                                 ELSE [j \in 1..(n - 1) |-> IF j = i THEN parr[n] ELSE parr[j]]
                         ELSE parr
                  ELSE parr
       /\ kreg' = [kreg EXCEPT ![f] = wantedNew]
       /\ UNCHANGED notify

FdRegister(f, hin, hout, herr) ==
  /\ CanCall /\ ~fdreg[f] /\ Called
  /\ hist' = H(Op("fd_reg", f, hin, hout, herr))
  /\ LET hh == <<hin, hout, herr>>  w == {b \in Band : hh[b] # 0} IN
     /\ fdreg' = [fdreg EXCEPT ![f] = TRUE] /\ fdh' = [fdh EXCEPT ![f] = hh]
     /\ ready' = [ready EXCEPT ![f] = {}]
     /\ IF IsEpoll THEN /\ kreg' = [kreg EXCEPT ![f] = {}]
                        /\ notify' = IF w # {} THEN Append(Remove(notify, f), f) ELSE Remove(notify, f)
                        /\ UNCHANGED parr
                   ELSE /\ kreg' = [kreg EXCEPT ![f] = w]
                        /\ parr' = IF w # {} THEN Append(parr, f) ELSE parr
                        /\ UNCHANGED notify
     /\ mon' = Ev1(A("fd_reg", f, hin, hout, herr, <<0, 0>>, 0))
  /\ numobjs' = numobjs + 1 /\ numfds' = numfds + 1
  /\ UNCHANGED <<pc, cb, waits, kern, active, handled, stage, kcond, tmvars, tkvars, evvars, quit, runTimers, timevars>>

(* iv_fd_register_try: synchronous kernel update; on failure everything is
   rolled back and the loop is exactly as it was *)
FdRegisterTryFail(f) ==
  /\ AllowTry /\ CanCall /\ ~fdreg[f] /\ Called
  /\ hist' = H(Op("fd_try_fail", f, 0, 0, 0))
  /\ mon' = Ev1(A("fd_try", f, 1, 0, 0, <<0, 0>>, -1))
  /\ UNCHANGED <<pc, cb, waits, kern, fdvars, tmvars, tkvars, evvars, numobjs, numfds, quit, runTimers, timevars>>

FdUnregister(f) ==
  /\ CanCall /\ fdreg[f] /\ Called
  /\ hist' = H(Op("fd_unreg", f, 0, 0, 0))
  /\ fdreg' = [fdreg EXCEPT ![f] = FALSE]
  /\ active' = Remove(active, f)
  /\ IF IsEpoll THEN /\ kreg' = [kreg EXCEPT ![f] = {}]     \* synchronous flush (DEL) if it was queued, wanted = {}
                     /\ notify' = Remove(notify, f) /\ UNCHANGED parr
                ELSE NotifyFd(f, {})
  /\ handled' = IF handled = f THEN None ELSE handled
  /\ numobjs' = numobjs - 1 /\ numfds' = numfds - 1
  /\ mon' = Ev1(A("fd_unreg", f, 0, 0, 0, <<0, 0>>, 0))
  /\ UNCHANGED <<pc, cb, waits, kern, fdh, ready, stage, kcond, tmvars, tkvars, evvars, quit, runTimers, timevars>>

SetHandler(f, b, h) ==
  /\ CanCall /\ fdreg[f] /\ fdh[f][b] # h /\ Called
  /\ hist' = H(Op("fd_set", f, b, h, 0))
  /\ LET hh == [fdh[f] EXCEPT ![b] = h]  w == {x \in Band : hh[x] # 0} IN
     /\ fdh' = [fdh EXCEPT ![f] = hh]
     /\ NotifyFd(f, w)
  /\ mon' = Ev1(A("fd_set", f, b, h, 0, <<0, 0>>, 0))
  /\ UNCHANGED <<pc, cb, waits, kern, fdreg, active, ready, handled, stage, kcond, tmvars, tkvars, evvars,
                 numobjs, numfds, quit, runTimers, timevars>>

TimerRegister(t, x) ==
  /\ CanCall /\ tmst[t] = "idle" /\ Called
  /\ hist' = H(Op("tm_reg", t, x, 0, 0))
  /\ tmst' = [tmst EXCEPT ![t] = "heap"] /\ tmexp' = [tmexp EXCEPT ![t] = x]
  /\ numobjs' = numobjs + 1
  /\ mon' = Ev1(A("tm_reg", t, t, 0, 0, Ts(x), 0))
  /\ UNCHANGED <<pc, cb, waits, kern, fdvars, expB, tkvars, evvars, numfds, quit, runTimers, timevars>>

TimerUnregister(t) ==
  /\ CanCall /\ tmst[t] # "idle" /\ Called
  /\ hist' = H(Op("tm_unreg", t, 0, 0, 0))
  /\ IF tmst[t] = "heap" THEN numobjs' = numobjs - 1 /\ UNCHANGED expB
                         ELSE expB' = Remove(expB, t) /\ UNCHANGED numobjs
  /\ tmst' = [tmst EXCEPT ![t] = "idle"]
  /\ mon' = Ev1(A("tm_unreg", t, 0, 0, 0, <<0, 0>>, 0))
  /\ UNCHANGED <<pc, cb, waits, kern, fdvars, tmexp, tkvars, evvars, numfds, quit, runTimers, timevars>>

(* iv_task_register.  fresh: the object is new and IV_TASK_INIT stamps the
   current epoch (so it is deferred to the next round); otherwise the object
   was initialised earlier and kept: it joins the running round iff it has
   not run in it (t->epoch != task_epoch) *)
TaskRegister(k, fresh) ==
  /\ CanCall /\ tkq[k] = "none" /\ Called /\ (fresh <=> ~tkhas[k])
  /\ hist' = H(Op("tk_reg", k, 0, 0, 0))
  /\ LET ep == IF fresh THEN epoch ELSE tkepoch[k] IN
     /\ IF inRound /\ ep # epoch
        THEN tkCur' = Append(tkCur, k) /\ tkq' = [tkq EXCEPT ![k] = "cur"] /\ UNCHANGED tkNext
        ELSE tkNext' = Append(tkNext, k) /\ tkq' = [tkq EXCEPT ![k] = "next"] /\ UNCHANGED tkCur
     /\ tkepoch' = [tkepoch EXCEPT ![k] = ep]
  /\ tkhas' = [tkhas EXCEPT ![k] = TRUE]
  /\ numobjs' = numobjs + 1
  /\ mon' = Ev1(A("tk_reg", k, k, 0, 0, <<0, 0>>, 0))
  /\ UNCHANGED <<pc, cb, waits, kern, fdvars, tmvars, epoch, inRound, evvars, numfds, quit, runTimers, timevars>>

TaskUnregister(k, keep) ==   \* keep: the caller keeps the object for a later re-registration
  /\ CanCall /\ tkq[k] # "none" /\ Called
  /\ hist' = H(Op(IF keep THEN "tk_unreg_keep" ELSE "tk_unreg", k, 0, 0, 0))
  /\ tkNext' = Remove(tkNext, k) /\ tkCur' = Remove(tkCur, k) /\ tkq' = [tkq EXCEPT ![k] = "none"]
  /\ tkhas' = [tkhas EXCEPT ![k] = keep]
  /\ numobjs' = numobjs - 1
  /\ mon' = Ev1(A("tk_unreg", k, 0, 0, 0, <<0, 0>>, 0))
  /\ UNCHANGED <<pc, cb, waits, kern, fdvars, tmvars, tkepoch, epoch, inRound, evvars, numfds, quit, runTimers, timevars>>

(* iv_event, same-thread use.  Registration also takes the per-thread wake-up
   reference (event_rx_on / raw kick event) with the first event: +1 numobjs
   while any event is registered. *)
NEv == Cardinality({e \in EVS : evreg[e]})
EventRegister(e) ==
  /\ CanCall /\ ~evreg[e] /\ Called
  /\ hist' = H(Op("ev_reg", e, 0, 0, 0))
  /\ evreg' = [evreg EXCEPT ![e] = TRUE]
  /\ numobjs' = numobjs + 1 + (IF NEv = 0 THEN 1 ELSE 0)
  /\ numfds' = numfds + (IF NEv = 0 /\ ~IsEpoll THEN 1 ELSE 0)
  /\ mon' = Ev1(A("ev_reg", e, e, 0, 0, <<0, 0>>, 0))
  /\ UNCHANGED <<pc, cb, waits, kern, fdvars, tmvars, tkvars, evq, evPend, evBatch, evLocal, evEmptyNow, quit, runTimers, timevars>>

EventUnregister(e) ==
  /\ CanCall /\ evreg[e] /\ Called
  /\ hist' = H(Op("ev_unreg", e, 0, 0, 0))
  /\ evreg' = [evreg EXCEPT ![e] = FALSE] /\ evq' = [evq EXCEPT ![e] = FALSE]
  /\ evPend' = Remove(evPend, e) /\ evBatch' = Remove(evBatch, e)
  /\ numobjs' = numobjs - 1 - (IF NEv = 1 THEN 1 ELSE 0)
  /\ numfds' = numfds - (IF NEv = 1 /\ ~IsEpoll THEN 1 ELSE 0)
  /\ mon' = Ev1(A("ev_unreg", e, 0, 0, 0, <<0, 0>>, 0))
  /\ UNCHANGED <<pc, cb, waits, kern, fdvars, tmvars, tkvars, evLocal, evEmptyNow, quit, runTimers, timevars>>

EventPost(e) ==
  /\ CanCall /\ evreg[e] /\ Called
  /\ hist' = H(Op("ev_post", e, 0, 0, 0))
  /\ IF evq[e] THEN UNCHANGED <<evq, evPend, evLocal, numobjs>>
     ELSE /\ evq' = [evq EXCEPT ![e] = TRUE] /\ evPend' = Append(evPend, e)
          /\ IF evPend = <<>> /\ evLocal[1] = "none"   \* post: same thread => events_local task,
             THEN /\ evLocal' = <<IF inRound /\ ~evLocal[2] THEN "cur" ELSE "next", evLocal[2]>>   \* queued by the task rule
                  /\ numobjs' = numobjs + 1
             ELSE UNCHANGED <<evLocal, numobjs>>
  /\ mon' = Ev(Ev1([e |-> "PostB", k |-> "ev", o |-> e, n |-> 1, t |-> 0]), A("ev_post", e, 0, 0, 0, <<0, 0>>, 0))
  /\ UNCHANGED <<pc, cb, waits, kern, fdvars, tmvars, tkvars, evreg, evBatch, evEmptyNow, numfds, quit, runTimers, timevars>>

(* the program reads everything its descriptor has (a typical input handler) *)
Drain(f) ==
  /\ KernMode = "pipe" /\ CanCall /\ cb # <<>> /\ kcond[f] % 2 = 1 /\ Called
  /\ hist' = H(Op("drain", f, 0, 0, 0))
  /\ kcond' = [kcond EXCEPT ![f] = @ - 1]
  /\ UNCHANGED <<pc, cb, waits, kern, fdreg, fdh, kreg, notify, parr, active, ready, handled, stage, tmvars, tkvars, evvars,
                 numobjs, numfds, quit, runTimers, timevars, mon>>

Quit ==
  /\ CanCall /\ cb # <<>> /\ ~quit /\ Called
  /\ hist' = H(Op("quit", 0, 0, 0, 0))
  /\ quit' = TRUE
  /\ mon' = Ev1(A("quit", 0, 0, 0, 0, <<0, 0>>, 0))
  /\ UNCHANGED <<pc, cb, waits, kern, fdvars, tmvars, tkvars, evvars, numobjs, numfds, runTimers, timevars>>

-----------------------------------------------------------------------------
(* iv_main *)
MainEnter ==
  /\ pc = "setup" /\ pc' = "timers" /\ quit' = FALSE /\ runTimers' = TRUE
  /\ mon' = Ev1([e |-> "MainB", t |-> 0])
  /\ UNCHANGED hist
  /\ UNCHANGED <<cb, cbops, ops, waits, kern, fdvars, tmvars, tkvars, evvars, numobjs, numfds, timevars>>

Heap == {t \in TM : tmst[t] = "heap"}
ReadClock(m) == IF cvalid THEN m ELSE Ev(m, [e |-> "Clk", v |-> Ts(clock), t |-> 0])
NowAfterRead == IF cvalid THEN ctime ELSE clock

(* iv_run_timers, first loop: move everything due to the expired list, in
   expiry order (ties: any order) *)
RECURSIVE SortedSeqs(_)
SortedSeqs(S) == IF S = {} THEN {<<>>}
                 ELSE LET mn == CHOOSE x \in {tmexp[t] : t \in S} : \A t \in S : x <= tmexp[t]
                      IN UNION {{<<t>> \o r : r \in SortedSeqs(S \ {t})} : t \in {u \in S : tmexp[u] = mn}}

RunTimers ==
  /\ pc = "timers" /\ cb = <<>>
  /\ IF ~runTimers \/ Heap = {}
     THEN pc' = "tasks" /\ UNCHANGED <<tmst, expB, numobjs, ctime, cvalid, mon>>
     ELSE LET now == NowAfterRead
              due == {t \in Heap : tmexp[t] <= now}
          IN /\ ctime' = now /\ cvalid' = TRUE
             /\ mon' = ReadClock(mon)
             /\ \E order \in SortedSeqs(due) : expB' = order
             /\ tmst' = [t \in TM |-> IF t \in due THEN "exp" ELSE tmst[t]]
             /\ numobjs' = numobjs - Cardinality(due)
             /\ pc' = "texp"
  /\ UNCHANGED <<cb, cbops, ops, waits, kern, fdvars, tmexp, tkvars, evvars, numfds, quit, runTimers, clock, lastAbs, lastCnt, tfd, wrel, wuse, intr, hist>>

TimerPop ==
  /\ pc = "texp" /\ cb = <<>>
  /\ IF expB = <<>> THEN pc' = "tasks" /\ UNCHANGED <<expB, tmst, cb, cbops, mon, hist>>
     ELSE LET t == Head(expB) IN
          /\ expB' = Tail(expB) /\ tmst' = [tmst EXCEPT ![t] = "idle"]
          /\ cb' = <<"tm", t, 0>> /\ cbops' = 0
          /\ mon' = Ev1(CbB("tm", t, 0, t, 0))
          /\ hist' = H([t |-> "cb", k |-> "tm", o |-> t, b |-> 0])
          /\ UNCHANGED pc
  /\ UNCHANGED <<ops, waits, kern, fdvars, tmexp, tkvars, evvars, numobjs, numfds, quit, runTimers, timevars>>

CbReturn ==
  /\ cb # <<>> /\ cb' = <<>>
  /\ mon' = Ev1([e |-> "CbE", t |-> 0])
  /\ UNCHANGED hist
  /\ UNCHANGED <<pc, cbops, ops, waits, kern, fdvars, tmvars, tkvars, evvars, numobjs, numfds, quit, runTimers, timevars>>

RunTasksBegin ==
  /\ pc = "tasks" /\ cb = <<>>
  /\ tkCur' = tkNext /\ tkNext' = <<>> /\ epoch' = epoch + 1 /\ inRound' = TRUE
  /\ tkq' = [k \in TK |-> IF tkq[k] = "next" THEN "cur" ELSE tkq[k]]
  /\ evLocal' = <<IF evLocal[1] = "next" THEN "cur" ELSE evLocal[1], FALSE>>
  /\ pc' = "tpop"
  /\ UNCHANGED hist
  /\ UNCHANGED <<cb, cbops, ops, waits, kern, fdvars, tmvars, tkepoch, tkhas, evreg, evq, evPend, evBatch, evEmptyNow, numobjs, numfds, quit, runTimers, timevars, mon>>

(* the events_local task is kept outside the TK lists (it runs after the user
   tasks of its batch -- a deviation in order only) but follows the same
   queueing rule: evLocal = <<where it is queued, whether it already ran in the
   current epoch>>; a post made from an event handler re-registers it for the
   round after the next kernel poll *)
TaskPop ==
  /\ pc = "tpop" /\ cb = <<>>
  /\ IF tkCur # <<>>
     THEN LET k == Head(tkCur) IN
          /\ tkCur' = Tail(tkCur) /\ tkq' = [tkq EXCEPT ![k] = "none"]
          /\ tkepoch' = [tkepoch EXCEPT ![k] = epoch]
          /\ tkhas' = [tkhas EXCEPT ![k] = KeepTasks]   \* one-shot: the handler may free it
          /\ numobjs' = numobjs - 1
          /\ cb' = <<"tk", k, 0>> /\ cbops' = 0
          /\ mon' = Ev1(CbB("tk", k, 0, k, 0))
          /\ hist' = H([t |-> "cb", k |-> "tk", o |-> k, b |-> 0])
          /\ UNCHANGED <<pc, inRound, evLocal, evBatch, evPend, evEmptyNow>>
     ELSE IF evLocal[1] = "cur"
     THEN (* events_local runs __iv_event_run_pending_events: steal the list *)
          /\ evLocal' = <<"none", TRUE>> /\ numobjs' = numobjs - 1
          /\ evBatch' = evPend /\ evPend' = <<>>
          /\ pc' = "evrun"
          /\ UNCHANGED <<tkCur, tkq, tkepoch, tkhas, cb, cbops, mon, hist, inRound, evEmptyNow>>
     ELSE /\ pc' = "exit" /\ inRound' = FALSE
          /\ UNCHANGED <<tkCur, tkq, tkepoch, tkhas, numobjs, cb, cbops, mon, hist, evLocal, evBatch, evPend, evEmptyNow>>
  /\ UNCHANGED <<ops, waits, kern, fdvars, tmvars, tkNext, epoch, evreg, evq, numfds, quit, runTimers, timevars>>

EventRun ==
  /\ pc = "evrun" /\ cb = <<>>
  /\ IF evBatch = <<>> THEN pc' = "tpop" /\ UNCHANGED <<evBatch, evq, cb, cbops, mon, hist>>
     ELSE LET e == Head(evBatch) IN
          /\ evBatch' = Tail(evBatch) /\ evq' = [evq EXCEPT ![e] = FALSE]
          /\ cb' = <<"ev", e, 0>> /\ cbops' = 0
          /\ mon' = Ev1(CbB("ev", e, 0, e, 1))
          /\ hist' = H([t |-> "cb", k |-> "ev", o |-> e, b |-> 0])
          /\ UNCHANGED pc
  /\ UNCHANGED <<ops, waits, kern, fdvars, tmvars, tkvars, evreg, evPend, evLocal, evEmptyNow, numobjs, numfds, quit, runTimers, timevars>>

ExitTest ==
  /\ pc = "exit" /\ cb = <<>>
  /\ IF quit \/ numobjs = 0
     THEN /\ pc' = "done" /\ mon' = Ev1([e |-> "MainE", t |-> 0])
     ELSE /\ pc' = "poll" /\ mon' = mon
  /\ UNCHANGED hist
  /\ UNCHANGED <<cb, cbops, ops, waits, kern, fdvars, tmvars, tkvars, evvars, numobjs, numfds, quit, runTimers, timevars>>

-----------------------------------------------------------------------------
(* iv_fd_poll_and_run *)
Bits(f, mask) ==   \* what the kernel reports for f given the registered bands
  LET c == kcond[f]
      hup == (c \div 8) % 2 = 1
      rd == c % 2 = 1
      wr == (c \div 2) % 2 = 1
  IN (IF rd /\ 1 \in mask THEN 1 ELSE 0) + (IF wr /\ 2 \in mask THEN 2 ELSE 0) + (IF hup THEN 8 ELSE 0)

KernelSet == IF IsEpoll THEN {f \in FD : fdreg[f] /\ kreg[f] # {}} ELSE {parr[i] : i \in 1..Len(parr)}
Reported(f) == IF f \in KernelSet THEN Bits(f, kreg[f]) ELSE 0
BandsOf(bits) == (IF bits % 2 = 1 \/ bits >= 8 THEN {1} ELSE {}) \cup
                 (IF (bits \div 2) % 2 = 1 \/ bits >= 8 THEN {2} ELSE {}) \cup
                 (IF bits >= 8 THEN {3} ELSE {})

Soonest == IF tkNext # <<>> \/ evLocal[1] # "none" THEN 0
           ELSE IF Heap = {} THEN -1
           ELSE CHOOSE x \in {tmexp[t] : t \in Heap} : \A t \in Heap : x <= tmexp[t]

SeqOfSet(S) == CHOOSE s \in [1..Cardinality(S) -> S] : \A i, j \in 1..Cardinality(S) : i # j => s[i] # s[j]

RepSet(kc, kr, ks) == {f \in ks : (LET c == kc[f] IN
                         ((c % 2 = 1) /\ 1 \in kr[f]) \/ (((c \div 2) % 2 = 1) /\ 2 \in kr[f]) \/ c >= 8)}
BitsN(kc, kr, f) == (LET c == kc[f] IN (IF c % 2 = 1 /\ 1 \in kr[f] THEN 1 ELSE 0)
                                     + (IF (c \div 2) % 2 = 1 /\ 2 \in kr[f] THEN 2 ELSE 0)
                                     + (IF c >= 8 THEN 8 ELSE 0))
TruthOf(kc) == [i \in 1..Cardinality(FD) |-> kc[i]]
Prim == IF IsEpoll THEN "epoll_pwait2" ELSE Method

(* entering the wait: iv_fd_timeout_check (method ept), flush of the deferred
   kernel updates, computation of the timeout from the cached clock *)
PollEnter ==
  /\ pc = "poll" /\ cb = <<>> /\ waits < MaxWaits
  /\ waits' = waits + 1
  /\ LET abs == Soonest
         cmp == IF abs < 0 THEN 1 ELSE IF abs < lastAbs THEN -1 ELSE IF abs > lastAbs THEN 1 ELSE 0
         useTfd0 == Method = "ept" /\ lastCnt = 5 /\ cmp >= 0
         cleared == Method = "ept" /\ lastCnt = 5 /\ cmp < 0
         cnt1 == IF Method # "ept" \/ useTfd0 THEN lastCnt
                 ELSE IF cmp = 0 THEN (IF lastCnt < 5 /\ ~cleared THEN lastCnt + 1 ELSE IF cleared THEN 1 ELSE 5)
                 ELSE IF abs >= 0 THEN 1 ELSE 0
         arm == Method = "ept" /\ ~useTfd0 /\ cnt1 = 5 /\ cmp = 0
         useTfd == useTfd0 \/ arm
         tfd1 == IF arm THEN abs ELSE IF cleared THEN -1 ELSE tfd
         la1 == IF Method # "ept" \/ useTfd0 THEN lastAbs ELSE IF cmp # 0 /\ abs >= 0 THEN abs ELSE lastAbs
         needClk == ~useTfd /\ abs >= 0 /\ ~cvalid
         now0 == IF needClk THEN clock ELSE ctime
         rel == IF useTfd \/ abs < 0 THEN -1 ELSE IF abs > now0 THEN abs - now0 ELSE 0
         m0 == IF needClk THEN Ev(mon, [e |-> "Clk", v |-> Ts(clock), t |-> 0]) ELSE mon
         kreg1 == IF IsEpoll THEN [f \in FD |-> IF InSeq(notify, f) THEN Wanted(f) ELSE kreg[f]] ELSE kreg
         kset == IF IsEpoll THEN {f \in FD : fdreg[f] /\ kreg1[f] # {}} ELSE {parr[i] : i \in 1..Len(parr)}
         toTs == IF rel < 0 THEN <<-1, 0>> ELSE <<rel, 0>>
         tfdTs == IF tfd1 < 0 THEN <<-1, 0>> ELSE IF tfd1 = 0 THEN <<0, 1>> ELSE Ts(tfd1)
         m1 == Ev(m0, [e |-> "WE", p |-> Prim, to |-> toTs, tfd |-> tfdTs, now |-> Ts(clock), t |-> 0])
         rep0 == RepSet(kcond, kreg1, kset)
         tfdDue0 == tfd1 >= 0 /\ tfd1 <= clock
         blocks == rep0 = {} /\ ~tfdDue0 /\ rel # 0
     IN
     /\ kreg' = kreg1 /\ notify' = IF IsEpoll THEN <<>> ELSE notify
     /\ lastAbs' = la1 /\ lastCnt' = cnt1 /\ tfd' = tfd1
     /\ wrel' = rel /\ wuse' = useTfd
     /\ runTimers' = (~useTfd /\ abs >= 0)      \* what an EINTR / a plain return reports (ept); others: always
     /\ cvalid' = (cvalid \/ needClk) /\ ctime' = IF needClk THEN clock ELSE ctime
     /\ mon' = IF blocks THEN Ev(Ev(m1, [e |-> "Blk", tr |-> TruthOf(kcond), t |-> 0]), [e |-> "Qui", n |-> 0, t |-> 0]) ELSE m1
     /\ pc' = IF blocks THEN "blocked" ELSE "pret"
  /\ UNCHANGED hist
  /\ UNCHANGED <<cb, cbops, ops, kern, fdreg, fdh, parr, active, ready, handled, stage, kcond, tmvars, tkvars, evvars,
                 numobjs, numfds, quit, clock, intr>>

(* the wait returns.  While it was blocked the environment may have changed the
   kernel's view of the descriptors and time may have passed, but not beyond
   the deadline the library asked for. *)
PollReturn ==
  /\ pc \in {"blocked", "pret"} /\ cb = <<>>
  /\ LET kset == IF IsEpoll THEN {f \in FD : fdreg[f] /\ kreg[f] # {}} ELSE {parr[i] : i \in 1..Len(parr)}
         deadline == IF wrel >= 0 THEN (IF tfd >= 0 /\ tfd < clock + wrel THEN tfd ELSE clock + wrel) ELSE tfd
     IN
     \E kc \in [FD -> {0, 1, 2, 3, 8, 10}] :
     \E adv \in 0..(MaxTime - clock) :
       LET blocked == pc = "blocked"
           changed == Cardinality({f \in FD : kc[f] # kcond[f]})
           clk1 == clock + adv
           repN == RepSet(kc, kreg, kset)
           tfdDue == tfd >= 0 /\ tfd <= clk1
           timedOut == deadline >= 0 /\ clk1 >= deadline
       IN
       /\ (~blocked) => (adv = 0 /\ kc = kcond)
       /\ (KernMode = "pipe") => \A f \in FD : kc[f] \in {kcond[f], kcond[f] + (IF kcond[f] % 2 = 0 THEN 1 ELSE 0),
                                                         (kcond[f] % 2) + 8}
       /\ blocked => /\ kern + changed <= MaxKern
                     /\ (repN # {} \/ tfdDue \/ timedOut)
                     /\ (deadline >= 0 => clk1 <= deadline)
                     /\ (adv > 0 => (repN = {} \/ changed = 0))   \* either something happens or time runs out
       /\ kcond' = kc /\ clock' = clk1 /\ kern' = kern + changed
       /\ \E order \in {s \in [1..Cardinality(repN) -> repN] : \A i, j \in 1..Cardinality(repN) : i # j => s[i] # s[j]} :
            /\ active' = order
            /\ ready' = [f \in FD |-> IF f \in repN THEN BandsOf(BitsN(kc, kreg, f)) ELSE ready[f]]
       /\ lastCnt' = IF wuse /\ tfdDue THEN 0 ELSE lastCnt
       /\ tfd' = IF tfdDue THEN -1 ELSE tfd
       /\ runTimers' = IF Method = "ept" THEN (runTimers \/ tfdDue) ELSE TRUE
       /\ cvalid' = FALSE
       /\ LET evv == [i \in 1..Cardinality(FD) |-> IF i \in repN THEN BitsN(kc, kreg, i) ELSE 0]
          IN mon' = Ev1([e |-> "WR", r |-> Cardinality(repN), err |-> "", ev |-> evv, oth |-> 0, tr |-> TruthOf(kc),
                         now |-> Ts(clk1), t |-> 0])
       /\ hist' = IF blocked THEN H([t |-> "env", kc |-> TruthOf(kc), was |-> TruthOf(kcond), adv |-> adv]) ELSE hist
       /\ pc' = "disp" /\ handled' = None /\ stage' = 0
  /\ UNCHANGED <<cb, cbops, ops, waits, fdreg, fdh, kreg, notify, parr, tmvars, tkvars, evvars, numobjs, numfds, quit,
                 ctime, lastAbs, wrel, wuse, intr>>

(* the kernel interrupts the wait (EINTR), possibly after some time has passed:
   nothing is reported; the epoll-timerfd method reports "run timers" only if
   it was given a timeout; the cached time is invalid afterwards *)
PollEintr ==
  /\ pc \in {"blocked", "pret"} /\ cb = <<>> /\ intr < MaxIntr
  /\ intr' = intr + 1
  /\ \E adv \in 0..(MaxTime - clock) :
       LET deadline == IF wrel >= 0 THEN (IF tfd >= 0 /\ tfd < clock + wrel THEN tfd ELSE clock + wrel) ELSE tfd IN
       /\ (pc = "pret") => adv = 0
       /\ (deadline >= 0) => clock + adv <= deadline
       /\ clock' = clock + adv
       /\ mon' = Ev(Ev1([e |-> "Flt", c |-> Prim, n |-> intr + 1, err |-> "EINTR", t |-> 0]),
                    [e |-> "WR", r |-> -1, err |-> "EINTR", ev |-> [i \in 1..Cardinality(FD) |-> 0], oth |-> 0,
                     tr |-> TruthOf(kcond), now |-> Ts(clock + adv), t |-> 0])
  /\ cvalid' = FALSE
  /\ runTimers' = IF Method = "ept" THEN runTimers ELSE TRUE
  /\ active' = <<>> /\ pc' = "disp" /\ handled' = None /\ stage' = 0
  /\ UNCHANGED <<cb, cbops, ops, waits, kern, fdreg, fdh, kreg, notify, parr, ready, kcond, tmvars, tkvars, evvars,
                 numobjs, numfds, quit, ctime, lastAbs, lastCnt, tfd, wrel, wuse, hist>>

DispatchPop ==
  /\ pc = "disp" /\ cb = <<>>
  /\ IF active = <<>> THEN pc' = "timers" /\ UNCHANGED <<active, handled, stage>>
     ELSE /\ handled' = Head(active) /\ active' = Tail(active) /\ stage' = 3 /\ pc' = "band"
  /\ UNCHANGED <<cb, cbops, ops, waits, kern, fdreg, fdh, kreg, notify, parr, ready, kcond, tmvars, tkvars, evvars,
                 numobjs, numfds, quit, runTimers, timevars, mon, hist>>

(* the three band calls of one descriptor, in the order err(3), in(1), out(2);
   `cur` remembers the struct being dispatched even after handled_fd was reset *)
NextStage(s) == IF s = 3 THEN 1 ELSE IF s = 1 THEN 2 ELSE 0

DispatchBand ==
  /\ pc = "band" /\ cb = <<>>
  /\ IF stage = 0 \/ handled = None
     THEN pc' = "disp" /\ UNCHANGED <<stage, cb, cbops, mon, hist>>
     ELSE LET f == handled  b == stage IN
          /\ stage' = NextStage(stage)
          /\ IF b \in ready[f] /\ fdh[f][b] # 0
             THEN /\ cb' = <<"fd", f, b>> /\ cbops' = 0
                  /\ mon' = Ev1(CbB("fd", f, b, fdh[f][b], 1))
                  /\ hist' = H([t |-> "cb", k |-> "fd", o |-> f, b |-> b])
             ELSE UNCHANGED <<cb, cbops, mon, hist>>
          /\ UNCHANGED pc
  /\ UNCHANGED <<ops, waits, kern, fdreg, fdh, kreg, notify, parr, active, ready, handled, kcond, tmvars, tkvars, evvars,
                 numobjs, numfds, quit, runTimers, timevars>>

Next ==
  \/ \E f \in FD : \/ \E hi \in Hids \cup {0}, ho \in Hids \cup {0}, he \in {0} : FdRegister(f, hi, ho, he)
                   \/ FdRegisterTryFail(f) \/ FdUnregister(f) \/ Drain(f)
                   \/ \E b \in 1..2, h \in Hids \cup {0} : SetHandler(f, b, h)
  \/ \E t \in TM : (\E x \in Expiries : TimerRegister(t, x)) \/ TimerUnregister(t)
  \/ \E k \in TK : \E fr \in BOOLEAN : TaskRegister(k, fr) \/ TaskUnregister(k, fr /\ KeepTasks)
  \/ \E e \in EVS : EventRegister(e) \/ EventUnregister(e) \/ EventPost(e)
  \/ Quit \/ MainEnter \/ RunTimers \/ TimerPop \/ CbReturn \/ RunTasksBegin \/ TaskPop \/ EventRun
  \/ ExitTest \/ PollEnter \/ PollReturn \/ PollEintr \/ DispatchPop \/ DispatchBand

Spec == Init /\ [][Next]_vars

-----------------------------------------------------------------------------
NoViolation == mon.viols = {}

(* structural invariants of the code's bookkeeping *)
NumObjsOK ==
  numobjs = Cardinality({f \in FD : fdreg[f]}) + Cardinality({t \in TM : tmst[t] = "heap"})
          + Cardinality({k \in TK : tkq[k] # "none"}) + NEv + (IF NEv > 0 THEN 1 ELSE 0) + (IF evLocal[1] # "none" THEN 1 ELSE 0)
ActiveRegistered == \A i \in 1..Len(active) : fdreg[active[i]]
HandledRegistered == handled # None => fdreg[handled]
EpollSync == IsEpoll => \A f \in FD : (fdreg[f] /\ ~InSeq(notify, f)) => kreg[f] = Wanted(f)
PollArrayOK == ~IsEpoll => /\ \A i, j \in 1..Len(parr) : i # j => parr[i] # parr[j]
                           /\ {parr[i] : i \in 1..Len(parr)} = {f \in FD : Wanted(f) # {}}
ExpiredOK == \A t \in TM : (tmst[t] = "exp") <=> InSeq(expB, t)
TasksOK == /\ \A k \in TK : (tkq[k] = "cur") <=> InSeq(tkCur, k)
           /\ \A k \in TK : (tkq[k] = "next") <=> InSeq(tkNext, k)
EventsOK == \A e \in EVS : evq[e] <=> (InSeq(evPend, e) \/ InSeq(evBatch, e))
TimerFdOK == (tfd >= 0 => lastCnt = 5) /\ lastCnt \in 0..5

(* the monitor's vacuity bookkeeping does not influence behaviour *)
View == <<pc, cb, cbops, ops, waits, kern, fdreg, fdh, kreg, notify, parr, active, ready, handled, stage, kcond,
          tmst, tmexp, expB, tkq, tkNext, tkCur, inRound, evreg, evq, evPend, evBatch, evLocal,
          numobjs, quit, runTimers, clock, ctime, cvalid, lastAbs, lastCnt, tfd, wrel, wuse, tkhas, tkepoch, epoch, intr,
          [mon EXCEPT !.seen = {}, !.ctx = ""], hist>>

(* script generation: print the recorded choices of every finished behaviour *)
Finished == pc = "done" \/ (pc = "poll" /\ waits >= MaxWaits) \/ (pc = "blocked" /\ kern >= MaxKern)
Emit == (GenMode /\ Finished) => PrintT("GEN " \o ToJson(hist))
=============================================================================
