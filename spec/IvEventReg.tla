--------------------------- MODULE IvEventReg ---------------------------
(* Registration life cycle of iv_event (src/iv_event.c, iv_event_register /
   iv_event_unregister) and the per-owner wake-up path that hangs on it.
   IvEvent.tla models posting and delivery at lock granularity with the set
   of registered events fixed; this module abstracts posting to two steps and
   models what IvEvent leaves out:

     st->event_count       evcount   number of registered events of the owner
     events_kick /         rx        the owner's wake-up path exists (raw
     event_rx_on                     descriptor registered, or the one-shot
                                     kick armed on its epoll set)
     iv_event_register     first event (count 0 -> 1): set the path up; with
                           the raw transport this can FAIL (no descriptor):
                           the call returns an error and leaves the loop
                           exactly as it was (count and numobjs undone)
     iv_event_unregister   unlink from the pending list; last event (count
                           1 -> 0): tear the path down (a pending wake-up is
                           discarded with it)
     iv_event_post         P1: under the list mutex, queue the event unless
                               queued; wake := list was empty
                           P2: if wake: write to / arm the owner's path --
                               a write to a path that does not exist is lost
     owner loop            blocked until a wake-up is pending; Deliver takes
                           the whole pending list and runs the handlers

   The owner registers and unregisters between deliveries (from set-up code or
   handlers -- both run in the owner thread, so they are atomic with respect
   to its own loop).  A program posts only to events that are registered
   (posting an event while it is being unregistered is a race of the program):
   posters pick an event at P1 time and the owner does not unregister an event
   a poster is in the middle of posting. *)
EXTENDS Naturals, FiniteSets, TLC

CONSTANTS Ev,           \* events of the owner
          Posters,      \* other threads
          Transport,    \* "kick" | "raw"
          MaxFail,      \* registrations that may fail (raw transport only)
          MaxOps,       \* register / unregister calls of the owner
          PostBudget    \* posts per poster

VARIABLES reg, evcount, rx, numobjs, pend, wake, opc, ops, fails,
          ppc, pev, pwake, pleft, needs, calls
vars == <<reg, evcount, rx, numobjs, pend, wake, opc, ops, fails, ppc, pev, pwake, pleft, needs, calls>>

NoEv == "noev"

Init ==
  /\ reg = [e \in Ev |-> FALSE] /\ evcount = 0 /\ rx = FALSE /\ numobjs = 0
  /\ pend = {} /\ wake = FALSE /\ opc = "run" /\ ops = 0 /\ fails = 0
  /\ ppc = [p \in Posters |-> "idle"] /\ pev = [p \in Posters |-> NoEv]
  /\ pwake = [p \in Posters |-> FALSE] /\ pleft = [p \in Posters |-> PostBudget]
  /\ needs = [e \in Ev |-> FALSE] /\ calls = [e \in Ev |-> 0]

Posting(e) == \E p \in Posters : pev[p] = e

(* iv_event_register *)
Register(e) ==
  /\ opc = "run" /\ ~reg[e] /\ ops < MaxOps /\ ops' = ops + 1
  /\ IF evcount = 0
     THEN \/ (* the wake-up path is set up *)
             /\ rx' = TRUE /\ evcount' = 1 /\ numobjs' = numobjs + 2   \* the event, and the path's own reference
             /\ reg' = [reg EXCEPT ![e] = TRUE] /\ UNCHANGED fails
          \/ (* iv_event_raw_register fails: everything is undone *)
             /\ Transport = "raw" /\ fails < MaxFail /\ fails' = fails + 1
             /\ UNCHANGED <<rx, evcount, numobjs, reg>>
     ELSE /\ evcount' = evcount + 1 /\ numobjs' = numobjs + 1
          /\ reg' = [reg EXCEPT ![e] = TRUE] /\ UNCHANGED <<rx, fails>>
  /\ UNCHANGED <<pend, wake, opc, ppc, pev, pwake, pleft, needs, calls>>

(* iv_event_unregister *)
Unregister(e) ==
  /\ opc = "run" /\ reg[e] /\ ~Posting(e) /\ ops < MaxOps /\ ops' = ops + 1
  /\ reg' = [reg EXCEPT ![e] = FALSE] /\ pend' = pend \ {e}
  /\ needs' = [needs EXCEPT ![e] = FALSE]
  /\ evcount' = evcount - 1
  /\ IF evcount = 1
     THEN rx' = FALSE /\ wake' = FALSE /\ numobjs' = numobjs - 2
     ELSE UNCHANGED <<rx, wake>> /\ numobjs' = numobjs - 1
  /\ UNCHANGED <<opc, fails, ppc, pev, pwake, pleft, calls>>

(* iv_event_post from another thread *)
P1(p, e) ==
  /\ ppc[p] = "idle" /\ pleft[p] > 0 /\ reg[e]
  /\ pleft' = [pleft EXCEPT ![p] = @ - 1]
  /\ pwake' = [pwake EXCEPT ![p] = (pend = {})]
  /\ pend' = pend \cup {e} /\ needs' = [needs EXCEPT ![e] = TRUE]
  /\ ppc' = [ppc EXCEPT ![p] = "P2"] /\ pev' = [pev EXCEPT ![p] = e]
  /\ UNCHANGED <<reg, evcount, rx, numobjs, wake, opc, ops, fails, calls>>

P2(p) ==
  /\ ppc[p] = "P2"
  /\ wake' = (wake \/ (pwake[p] /\ rx))      \* a write to a path that does not exist goes nowhere
  /\ ppc' = [ppc EXCEPT ![p] = "idle"] /\ pev' = [pev EXCEPT ![p] = NoEv]
  /\ UNCHANGED <<reg, evcount, rx, numobjs, pend, opc, ops, fails, pwake, pleft, needs, calls>>

(* the owner's loop *)
Block ==     \* nothing to do: sleep in the kernel (iv_main returns instead when nothing is registered)
  /\ opc = "run" /\ ~wake /\ numobjs > 0 /\ opc' = "blocked"
  /\ UNCHANGED <<reg, evcount, rx, numobjs, pend, wake, ops, fails, ppc, pev, pwake, pleft, needs, calls>>

Wake ==
  /\ opc = "blocked" /\ wake /\ opc' = "run"
  /\ UNCHANGED <<reg, evcount, rx, numobjs, pend, wake, ops, fails, ppc, pev, pwake, pleft, needs, calls>>

Deliver ==   \* consume the wake-up, run the handlers of everything pending
  /\ opc = "run" /\ wake
  /\ wake' = FALSE /\ pend' = {}
  /\ calls' = [e \in Ev |-> IF e \in pend THEN calls[e] + 1 ELSE calls[e]]
  /\ needs' = [e \in Ev |-> IF e \in pend THEN FALSE ELSE needs[e]]
  /\ UNCHANGED <<reg, evcount, rx, numobjs, opc, ops, fails, ppc, pev, pwake, pleft>>

Next ==
  \/ \E e \in Ev : Register(e) \/ Unregister(e)
  \/ \E p \in Posters : P2(p) \/ \E e \in Ev : P1(p, e)
  \/ Block \/ Wake \/ Deliver

Spec == Init /\ [][Next]_vars
FairSpec == Spec /\ WF_vars(Wake \/ Deliver) /\ \A p \in Posters : WF_vars(P2(p))

-----------------------------------------------------------------------------
CountOK == evcount = Cardinality({e \in Ev : reg[e]})
RxOK == rx = (evcount > 0)
(* C07: what the loop counts is what is registered (a failed registration leaves no trace) *)
NumObjsOK == numobjs = evcount + (IF rx THEN 1 ELSE 0)
(* C08: the owner never sleeps on an undelivered post once the posters are done *)
NoLostWakeup ==
  ~(opc = "blocked" /\ ~wake /\ (\A p \in Posters : ppc[p] = "idle") /\ \E e \in Ev : reg[e] /\ needs[e])
PendRegistered == \A e \in pend : reg[e]
Delivered == \A e \in Ev : (needs[e] /\ reg[e]) ~> ~needs[e]
=============================================================================
