SPECIFICATION FairSpec
CONSTANTS
  Policy = "exit"
  AfterN = 3
  MaxTime = 40
  MaxStops = 2
INVARIANTS NoViolation RecordOK TimerOK KillsBounded
PROPERTY Terminates
CHECK_DEADLOCK FALSE
