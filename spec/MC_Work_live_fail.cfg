SPECIFICATION FairSpec
CONSTANTS
  Workers = {w1, w2, w3}
  MaxThreads = 2
  Items = {a, b, c}
  ContItems = {b}
  LateItems = {c}
  StartMayFail = TRUE
PROPERTIES AllComplete Released
CHECK_DEADLOCK FALSE
