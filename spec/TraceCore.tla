--------------------------- MODULE TraceCore ---------------------------
(* Trace validation for the loop core: consumes an ndjson trace recorded from
   the real library (IOEnv.TRACE), feeds every event to the MonCore monitors,
   and prints one VERDICT line per execution (executions are separated by
   Reset records).  Deterministic: one state per consumed line. *)
EXTENDS MonCore, Json, IOUtils

VARIABLES l, mon, sid
tvars == <<l, mon, sid>>

Log == ndJsonDeserialize(IOEnv.TRACE)
N == Len(Log)

TInit == l = 1 /\ mon = MonInit /\ sid = "none"

TNext ==
  /\ l <= N
  /\ l' = l + 1
  /\ LET e == Log[l] IN
     IF e.e = "Reset"
     THEN mon' = MonInit /\ sid' = e.id
     ELSE /\ mon' = MonStep(mon, e)
          /\ sid' = sid
          /\ (e.e = "End") =>
               PrintT("VERDICT " \o ToJson([id |-> sid, why |-> e.why, viols |-> mon'.viols,
                                             seen |-> mon'.seen]))

TSpec == TInit /\ [][TNext]_tvars
(* violated <=> the whole trace was consumed *)
NotDone == l <= N
=============================================================================
