--------------------------- MODULE MonPump ---------------------------
(* Property monitor for C17 "iv_fd_pump relays the byte stream intact and
   reports its state truthfully", over OBSERVABLE events only (DESIGN 3.1,
   App. C).  The same operator is fed by the IvPump system model (MC_Pump) and
   by traces recorded from the real code (TracePump).

   Events (records; field e is the kind):
     InitB   mode ("rw" | "sp"), relay (0/1), L, bs   iv_fd_pump_init begins on a fresh pump
                         (bs = BUF_SIZE, the capacity of the read/write buffer)
     InitE                                       ... returns
     PumpB                                       iv_fd_pump_pump begins
     In      q, r, a     read()/splice() on from_fd: requested q, result r
                         (n > 0 bytes = input stream positions a .. a+n-1,
                          0 = end of file, -1 = EAGAIN, -2 = hard error, -3 = EINTR)
     Fion    v           ioctl(from_fd, FIONREAD) answered v
     Out     q, r, a     write()/splice() on to_fd: requested q, result r
                         (n > 0: the n bytes that arrived at the output's peer are
                          the stream positions a .. a+n-1, a = -1 if they are not a
                          contiguous piece of the stream; 0; -1 EAGAIN; -2 error; -3 EINTR)
     Shut    how         shutdown(to_fd, how)
     Bands   i, o        set_bands(cookie, i, o)
     PumpE   ret         iv_fd_pump_pump returns ret
     Done    v           iv_fd_pump_is_done() = v
     DestroyB, DestroyE  iv_fd_pump_destroy
     End     why         end of the execution (ok | stalled | runaway | crash | hang)

   Rules (m.viols) -- each one is a clause of the property statement:
     C17:stream    bytes written are exactly the next not-yet-delivered bytes of
                   the input stream (no loss, duplication, reordering, invention)
     C17:eof-early shutdown(SHUT_WR) before end-of-file was seen and every byte
                   read was delivered; or data delivered after the shutdown
     C17:shutdown  shutdown without RELAY_EOF / twice / not SHUT_WR, or missing
                   when RELAY_EOF is set and end-of-file has been relayed
     C17:ret       0 exactly once EOF was seen and all data delivered, 1 while
                   more remains, -1 on an I/O error; is_done agrees
     C17:bands     after init: (1,0); after every successful pump call the last
                   set_bands arguments are (0,0) when done, (0,1) when EOF was seen
                   with data left, else (space remains, data buffered); (0,0) after destroy
     C17:crash / C17:hang   the real code died / did not finish on a valid script

   Deliberately weak points (a false alarm on correct code is unacceptable):
   * "buffer space remains": in read/write mode the buffer holds bs bytes,
     so space remains iff rd - dl < bs; bs is what the pump requests from
     read() while its buffer is empty (InitB.bs is only the initial guess), so
     a different BUF_SIZE is not an alarm.  In splice mode the buffer is a
     kernel pipe whose fill level is not observable; the only evidence of
     "full" is a would-block on input while FIONREAD says that input is
     available, and it lasts until the next byte is delivered.
   * write()/splice() returning 0 is neither success nor an errno: -1 and the
     ordinary return value are both accepted.
   m.seen collects tags of rules whose antecedent held (vacuity accounting). *)
EXTENDS Naturals, Integers, Sequences, FiniteSets, TLC


MonInit ==
  [ act |-> FALSE,       \* a pump exists (between InitB and DestroyE)
    mode |-> "rw", relay |-> 0,
    bs |-> 0,            \* capacity of the read/write buffer (from InitB)
    rd |-> 0,            \* input stream bytes consumed so far
    dl |-> 0,            \* bytes delivered to the output so far
    eof |-> FALSE,       \* the pump has seen end-of-file on input
    shut |-> 0,          \* number of shutdown(to_fd) calls
    bi |-> -1, bo |-> -1,\* last set_bands arguments
    err |-> 0,           \* in this call: 0 none, 1 write returned 0, 2 hard error
    failed |-> FALSE,    \* a call returned -1
    fullEv |-> FALSE,    \* splice mode: evidence that the pipe is full
    viols |-> {}, seen |-> {} ]

B01(x) == IF x = 0 THEN 0 ELSE 1
Max(a, b) == IF a >= b THEN a ELSE b

(* count the antecedent under `tag`; flag `rule` if the consequent fails *)
Chk(m, ante, ok, rule, tag) ==
  IF ante
  THEN [m EXCEPT !.seen = @ \cup {tag}, !.viols = IF ok THEN @ ELSE @ \cup {rule}]
  ELSE m
V(m, rule) == [m EXCEPT !.viols = @ \cup {rule}]

DoneNow(m) == m.eof /\ m.dl = m.rd
InWanted(m) == IF m.mode = "rw" THEN m.rd - m.dl < m.bs ELSE ~m.fullEv

(* what the last set_bands call must have said after a successful call *)
BandsOk(m) ==
  IF DoneNow(m) THEN m.bi = 0 /\ m.bo = 0
  ELSE IF m.eof THEN m.bi = 0 /\ m.bo = 1
  ELSE /\ m.bi = (IF InWanted(m) THEN 1 ELSE 0)
       /\ m.bo = (IF m.rd > m.dl THEN 1 ELSE 0)
BandsTag(m) ==
  IF DoneNow(m) THEN "C17:bands:done"
  ELSE IF m.eof THEN "C17:bands:fin-pending"
  ELSE IF ~InWanted(m) THEN "C17:bands:full"
  ELSE IF m.rd > m.dl THEN "C17:bands:in-out"
  ELSE "C17:bands:in-only"

InStep(m, e) ==
  CASE e.r > 0 -> [Chk(m, TRUE, e.a = m.rd, "X:in-pos", "X:in-pos")
                     EXCEPT !.rd = @ + e.r,
                            (* read/write mode: what the pump asks for while its buffer is
                               empty is the capacity of that buffer *)
                            !.bs = IF m.mode = "rw" /\ m.rd = m.dl THEN e.q ELSE @]
    [] e.r = 0 -> [m EXCEPT !.eof = TRUE]
    [] e.r = -2 -> [m EXCEPT !.err = 2]
    [] OTHER -> m

OutStep(m, e) ==
  CASE e.r > 0 ->
         LET m1 == Chk(m, TRUE, e.a = m.dl /\ m.dl + e.r <= m.rd, "C17:stream", "C17:stream")
             m2 == Chk(m1, TRUE, m.shut = 0, "C17:eof-early", "C17:eof-early:data-after")
         IN [m2 EXCEPT !.dl = @ + e.r, !.fullEv = FALSE]
    [] e.r = 0 -> [m EXCEPT !.err = Max(@, 1)]
    [] e.r = -2 -> [m EXCEPT !.err = 2]
    [] OTHER -> m

ShutStep(m, e) ==
  LET m1 == Chk(m, TRUE, DoneNow(m), "C17:eof-early", "C17:eof-early")
      m2 == Chk(m1, TRUE, m.relay = 1 /\ m.shut = 0 /\ e.how = 1, "C17:shutdown", "C17:shutdown:issued")
  IN [m2 EXCEPT !.shut = @ + 1]

MonPumpEnd(m, e) ==
  LET normal == IF DoneNow(m) THEN 0 ELSE 1
      retOk == CASE m.err = 2 -> e.ret = -1
                 [] m.err = 1 -> e.ret \in {-1, normal}
                 [] OTHER -> e.ret = normal
      tag == IF m.err > 0 THEN "C17:ret:err" ELSE IF normal = 0 THEN "C17:ret:0" ELSE "C17:ret:1"
      m1 == Chk(m, TRUE, retOk, "C17:ret", tag)
      m2 == Chk(m1, e.ret >= 0 /\ m.err = 0, BandsOk(m), "C17:bands", BandsTag(m))
      m3 == Chk(m2, DoneNow(m) /\ m.err = 0 /\ m.relay = 1, m.shut > 0, "C17:shutdown", "C17:shutdown:owed")
      m4 == Chk(m3, DoneNow(m) /\ m.err = 0 /\ m.relay = 0, m.shut = 0, "C17:shutdown", "C17:shutdown:not-asked")
  IN [m4 EXCEPT !.failed = @ \/ e.ret < 0]

MonStep(m, e) ==
  CASE e.e = "InitB" ->
         [m EXCEPT !.act = TRUE, !.mode = e.mode, !.relay = e.relay, !.bs = e.bs, !.rd = 0, !.dl = 0,
                   !.eof = FALSE, !.shut = 0, !.bi = -1, !.bo = -1, !.err = 0,
                   !.failed = FALSE, !.fullEv = FALSE]
    [] e.e = "InitE" -> Chk(m, TRUE, m.bi = 1 /\ m.bo = 0, "C17:bands", "C17:bands:init")
    [] e.e = "PumpB" -> [m EXCEPT !.err = 0]
    [] e.e = "In" -> InStep(m, e)
    [] e.e = "Fion" -> IF e.v > 0 THEN [m EXCEPT !.fullEv = TRUE] ELSE m
    [] e.e = "Out" -> OutStep(m, e)
    [] e.e = "Shut" -> ShutStep(m, e)
    [] e.e = "Bands" -> [m EXCEPT !.bi = B01(e.i), !.bo = B01(e.o)]
    [] e.e = "PumpE" -> MonPumpEnd(m, e)
    [] e.e = "Done" -> Chk(m, TRUE, (e.v # 0) = (DoneNow(m) /\ ~m.failed), "C17:ret",
                           IF DoneNow(m) THEN "C17:ret:is-done" ELSE "C17:ret:not-done")
    [] e.e = "DestroyE" -> [Chk(m, TRUE, m.bi = 0 /\ m.bo = 0, "C17:bands", "C17:bands:destroy")
                             EXCEPT !.act = FALSE]
    (* descriptor balance of the whole execution (init, sessions, possibly many pumps stalled at the same
       time, deinit): everything the library opened is closed again (shared with C18) *)
    [] e.e = "Fds" -> Chk(m, e.base >= 0, e.after = e.base, "C17:fd-leak", IF e.many > 0 THEN "C17:fd-leak:many" ELSE "C17:fd-leak")
    [] e.e = "End" ->
         (CASE e.why = "crash" -> V(m, "C17:crash")
            [] e.why \in {"hang", "runaway"} -> V(m, "C17:hang")
            [] OTHER -> m)
    [] OTHER -> m
=============================================================================
