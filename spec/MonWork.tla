--------------------------- MODULE MonWork ---------------------------
(* Property monitors C12 (iv_work items) and C13 (pool shutdown, iv_thread
   lifetime) over observable events: API calls of the scenario program,
   work / completion callbacks with the thread they run in, thread-start and
   thread-stop hooks, thread creation / exit / join as seen by the scheduler,
   global quiescence, iv_main return.  Same conventions as MonCore. *)
EXTENDS Naturals, Integers, Sequences, FiniteSets, TLC

MaxO == 8
Obj == 1..MaxO
Thr == 0..63

PoolInit == [reg |-> FALSE, owner |-> 0, max |-> 0, put |-> FALSE, running |-> 0]
WiInit == [st |-> "idle", pool |-> 0, subT |-> 0]

WInit ==
  [ pool |-> [p \in Obj |-> PoolInit],
    wi |-> [i \in Obj |-> WiInit],
    cur |-> [t \in Thr |-> 0],          \* item whose work function runs in thread t
    hs |-> [t \in Thr |-> 0], hp |-> [t \in Thr |-> 0],
    spawnFlag |-> [t \in Thr |-> FALSE],
    libthr |-> {},                      \* <<creator, thread>> created inside the library
    joined |-> {}, exited |-> {}, detached |-> {},
    quit |-> [t \in Thr |-> FALSE],
    viols |-> {}, seen |-> {} ]

V(m, rule) == [m EXCEPT !.viols = @ \cup {rule}]
S(m, rule) == [m EXCEPT !.seen = @ \cup {rule}]
Chk(m, ante, ok, rule) == IF ante THEN (IF ok THEN S(m, rule) ELSE V(S(m, rule), rule)) ELSE m

Incomplete(m) == {i \in Obj : m.wi[i].st \in {"sub", "working", "worked"}}
Unjoined(m, t) == {x \in Thr : <<t, x>> \in m.libthr /\ x \notin m.joined /\ x \notin m.detached}

WApi(m, e) ==
  CASE e.op = "pool_create" /\ e.r = 0 ->
         [m EXCEPT !.pool[e.o] = [PoolInit EXCEPT !.reg = TRUE, !.owner = e.t, !.max = e.a]]
    [] e.op = "pool_put" -> [m EXCEPT !.pool[e.o].put = TRUE, !.pool[e.o].reg = FALSE]
    [] e.op = "quit" -> [m EXCEPT !.quit[e.t] = TRUE]
    [] OTHER -> m

WCb(m, e) ==
  LET i == e.o  r == m.wi[i]  p == r.pool IN
  IF e.b = 1
  THEN LET m1 == Chk(m, TRUE, r.st = "sub", "C12:work-twice")
           m2 == Chk(m1, p # 0, e.t # m.pool[p].owner, "C12:work-in-owner")
           m3 == Chk(m2, p = 0, e.t = r.subT, "C12:local-wrong-thread")
           run == IF p # 0 THEN m.pool[p].running + 1 ELSE 0
           m4 == Chk(m3, p # 0, run <= m.pool[p].max, "C12:over-max")
           m5 == IF p # 0 THEN [m4 EXCEPT !.pool[p].running = run] ELSE m4
       IN [m5 EXCEPT !.wi[i].st = "working", !.cur[e.t] = i]
  ELSE LET m1 == Chk(m, TRUE, r.st # "done" /\ r.st # "idle", "C12:completion-twice")
           m2 == Chk(m1, r.st \in {"sub", "working", "worked"}, r.st = "worked", "C12:completion-before-work")
           m3 == Chk(m2, TRUE, e.t = (IF p # 0 THEN m.pool[p].owner ELSE r.subT), "C12:completion-wrong-thread")
       IN [m3 EXCEPT !.wi[i].st = "done"]

WCbEnd(m, e) ==
  LET i == m.cur[e.t] IN
  IF i # 0 /\ m.wi[i].st = "working"
  THEN LET p == m.wi[i].pool
           m1 == [m EXCEPT !.wi[i].st = "worked", !.cur[e.t] = 0]
       IN IF p # 0 THEN [m1 EXCEPT !.pool[p].running = @ - 1] ELSE m1
  ELSE [m EXCEPT !.cur[e.t] = 0]

WHook(m, e) ==
  IF e.op = "start" THEN S([m EXCEPT !.hs[e.t] = @ + 1], "C13:hook-unpaired")
  ELSE Chk([m EXCEPT !.hp[e.t] = @ + 1], TRUE, m.hp[e.t] + 1 <= m.hs[e.t], "C13:hook-unpaired")

WSync(m, e) ==
  CASE e.op = "create" ->
         IF m.spawnFlag[e.t] THEN [m EXCEPT !.spawnFlag[e.t] = FALSE]
         ELSE [m EXCEPT !.libthr = @ \cup {<<e.t, e.x>>}]
    [] e.op = "exit" -> [m EXCEPT !.exited = @ \cup {e.x}]
    [] OTHER -> m

WMainEnd(m, e) ==
  (* iv_main of thread t returned: without iv_quit this is only allowed once
     every thread it created through the library has exited and been joined
     and every pool it owns has delivered all completions *)
  LET mine == {p \in Obj : m.pool[p].owner = e.t /\ (m.pool[p].reg \/ m.pool[p].put)}
      pend == {i \in Incomplete(m) : m.wi[i].pool \in mine}
      m1 == Chk(m, ~m.quit[e.t] /\ (\E x \in Thr : <<e.t, x>> \in m.libthr),
                Unjoined(m, e.t) = {}, "C13:early-return")
  IN Chk(m1, ~m.quit[e.t] /\ mine # {}, pend = {}, "C13:incomplete-at-return")

(* global quiescence: nothing can run.  An item that is queued (or whose
   completion is pending) while no work function is in progress anywhere will
   never be looked at.  (While some work function is still running -- e.g.
   blocked on a condition of the program -- the pool may simply be saturated.) *)
WQuiesce(m) ==
  LET inProgress == {i \in Obj : m.wi[i].st = "working"} IN
  Chk(m, (\E i \in Obj : m.wi[i].st # "idle") /\ inProgress = {}, Incomplete(m) = {}, "C12:incomplete")

(* nothing of the pools / library threads is left that could legitimately
   keep a loop alive *)
AllReleased(m) ==
  /\ \A p \in Obj : ~m.pool[p].reg
  /\ Incomplete(m) = {}
  /\ \A c \in m.libthr : c[2] \in m.joined \cup m.detached

WEnd(m, e) ==
  IF e.why = "hang"
  THEN (* final quiescence: a library thread that has exited must get joined *)
       LET m1 == Chk(m, m.libthr # {}, \A c \in m.libthr : c[2] \in m.exited => c[2] \in m.joined \cup m.detached, "C13:not-joined")
           (* every pool released, every item completed, nothing moves any more: each worker that
              called its start hook has called its stop hook (and exited) *)
           released == (\A p \in Obj : ~m.pool[p].reg) /\ (\E p \in Obj : m.pool[p].put) /\ Incomplete(m) = {}
       IN Chk(m1, released /\ (\E t \in Thr : m.hs[t] > 0), \A t \in Thr : m.hs[t] = m.hp[t], "C13:worker-left")
  ELSE IF e.why # "ok" THEN m
  ELSE LET m1 == Chk(m, \E i \in Obj : m.wi[i].st # "idle", Incomplete(m) = {} \/ (\E t \in Thr : m.quit[t]), "C12:incomplete")
           m2 == Chk(m1, \E t \in Thr : m.hs[t] > 0, \A t \in Thr : m.hs[t] = m.hp[t] \/ (\E u \in Thr : m.quit[u]), "C13:hook-unpaired")
       IN Chk(m2, m.libthr # {}, (\A c \in m.libthr : c[2] \in m.joined \cup m.detached) \/ (\E u \in Thr : m.quit[u]), "C13:not-joined")

WStep(m, e) ==
  CASE e.e = "A" -> WApi(m, e)
    [] e.e = "SubB" -> [m EXCEPT !.wi[e.o] = [st |-> "sub", pool |-> e.p, subT |-> e.t]]
    [] e.e = "CbB" -> IF e.k = "wi" THEN WCb(m, e) ELSE m
    [] e.e = "CbE" -> WCbEnd(m, e)
    [] e.e = "Hook" -> WHook(m, e)
    [] e.e = "Spawn" -> [m EXCEPT !.spawnFlag[e.t] = TRUE]
    [] e.e = "Sy" -> WSync(m, e)
    [] e.e = "Join" -> [m EXCEPT !.joined = @ \cup {e.x}]
    [] e.e = "Detach" -> [m EXCEPT !.detached = @ \cup {e.x}]
    [] e.e = "MainE" -> WMainEnd(m, e)
    [] e.e = "Qui" -> WQuiesce(m)
    [] e.e = "End" -> WEnd(m, e)
    [] OTHER -> m
=============================================================================
