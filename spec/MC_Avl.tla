------------------------------ MODULE MC_Avl ------------------------------
(* C16 -- exhaustive one-step exploration of IvAvl from EVERY height-balanced
   tree shape of height <= H (1, 1, 3, 15, 315, 108675 shapes for h = 0..5).

   A shape with n nodes is laid out on nodes 1..n in in-order, node i carrying
   key 2i; node n+1 is an unlinked spare whose fields are poisoned (links point
   to itself, height 170).  From each such tree, one step performs
     - an insertion of the spare with key 2g+1 for each gap g = 0..n,
     - an insertion of the spare with key 2d for each d = 1..n (duplicate),
     - a deletion of each node d = 1..n,
   and the property clauses of IvAvl (PART 2) are invariants of the result.

   Staging (DESIGN C16): Init only picks the nested-tuple shape (Init is
   evaluated by one thread), the Build step turns it into the node heap (in
   parallel across workers), the operation is a third step.  (Measured: the
   result of Apply must be assigned directly, res' = Apply(..); binding it
   with LET inside the action made TLC re-evaluate it, 6x slower.)

   Mode = "corrupt" is a self-test of the oracle, not of the algorithm: the
   third step overwrites one field of one linked node (or the root pointer)
   with every other value; every such heap must be reported by PART 2 of IvAvl
   (no single-field corruption goes unnoticed, the predicates terminate on
   cyclic and shared structures) and PART 3 must give the identical verdict.

   Generation: the Emit "invariant" prints one GEN line per (pre, op, post)
   triple (all of them for SampleMod = 1, else a seed-determined, roughly 1/SampleMod
   sample); lib/check_c16.py replays them on the real code. *)
EXTENDS IvAvl, TLC, Json, IOUtils

CONSTANTS H,           \* maximal height of the pre-tree
          SampleMod,   \* print every triple whose hash is 0 modulo this
          Mode         \* "ops": the API calls;  "corrupt": oracle self-test
(* which 1/SampleMod sample: from the environment (VERIF seed) *)
SampleSeed == IF "AVL_SEED" \in DOMAIN IOEnv THEN atoi(IOEnv.AVL_SEED) ELSE 0

VARIABLES phase,       \* "shape" -> "built" -> "done"
          shape,       \* nested tuples: <<>> = empty, <<l, r>> = node
          n,           \* number of nodes of the pre-tree
          tree,        \* the pre-tree as a heap ("built" and "done")
          op,          \* the call made
          res          \* its result [ret, t] ("done")
vars == <<phase, shape, n, tree, op, res>>
ret == res.ret
post == res.t

RECURSIVE Pow2(_)
Pow2(k) == IF k = 0 THEN 1 ELSE 2 * Pow2(k - 1)
MaxN == Pow2(H)        \* up to 2^H - 1 linked nodes plus the spare
Poison == 170

(* ---- all height-balanced shapes; the sub-sets are bound once (LET) *)
Pairs(A, B) == (A \X A) \cup (A \X B) \cup (B \X A)
RECURSIVE ShapesUpTo(_, _, _, _)
(* a = shapes of height exactly k, b = of height exactly k-1, acc = all < k *)
ShapesUpTo(k, a, b, acc) ==
  IF k = H THEN acc \cup a
  ELSE LET c == Pairs(a, b) IN ShapesUpTo(k + 1, c, a, acc \cup a)
AllShapes == IF H = 0 THEN {<<>>}
             ELSE ShapesUpTo(1, {<< <<>>, <<>> >>}, {<<>>}, {<<>>})

(* ---- shape -> heap *)
RECURSIVE Size(_)
Size(s) == IF s = <<>> THEN 0 ELSE Size(s[1]) + 1 + Size(s[2])
RECURSIVE Ht(_)
Ht(s) == IF s = <<>> THEN 0
         ELSE LET a == Ht(s[1]) b == Ht(s[2]) IN 1 + (IF a > b THEN a ELSE b)
(* id of the root of s when the nodes of s are numbered off+1 .. off+Size(s) *)
TopId(s, off) == IF s = <<>> THEN NULL ELSE off + Size(s[1]) + 1
(* node records of s in in-order = in id order *)
RECURSIVE Recs(_, _, _)
Recs(s, off, par) ==
  IF s = <<>> THEN <<>>
  ELSE LET me == TopId(s, off)
       IN Recs(s[1], off, me)
          \o << [l |-> TopId(s[1], off), r |-> TopId(s[2], me), p |-> par, h |-> Ht(s)] >>
          \o Recs(s[2], me, me)
HeapOf(s) ==
  LET rs == Recs(s, 0, NULL)
      k  == Len(rs)
  IN [ root   |-> TopId(s, 0),
       left   |-> [i \in 1..MaxN |-> IF i <= k THEN rs[i].l ELSE i],
       right  |-> [i \in 1..MaxN |-> IF i <= k THEN rs[i].r ELSE i],
       parent |-> [i \in 1..MaxN |-> IF i <= k THEN rs[i].p ELSE i],
       height |-> [i \in 1..MaxN |-> IF i <= k THEN rs[i].h ELSE Poison],
       key    |-> [i \in 1..MaxN |-> IF i <= k THEN 2 * i ELSE 0] ]

Blank == [root |-> 0, left |-> <<>>, right |-> <<>>, parent |-> <<>>,
          height |-> <<>>, key |-> <<>>]
NoOp == [kind |-> "none", n |-> 0, key |-> 0]

Ops(k) == {[kind |-> "ins", n |-> k + 1, key |-> 2 * g + 1] : g \in 0..k}
          \cup {[kind |-> "ins", n |-> k + 1, key |-> 2 * d] : d \in 1..k}
          \cup {[kind |-> "del", n |-> d, key |-> 0] : d \in 1..k}

(* single-field corruptions of a heap t whose linked nodes are 1..k *)
Corruptions(t, k) ==
  {[t EXCEPT !.root = v] : v \in (0..MaxN) \ {t.root}}
  \cup UNION {{[t EXCEPT !.left[i] = v]   : v \in (0..MaxN) \ {t.left[i]}}   : i \in 1..k}
  \cup UNION {{[t EXCEPT !.right[i] = v]  : v \in (0..MaxN) \ {t.right[i]}}  : i \in 1..k}
  \cup UNION {{[t EXCEPT !.parent[i] = v] : v \in (0..MaxN) \ {t.parent[i]}} : i \in 1..k}
  \cup UNION {{[t EXCEPT !.height[i] = v] : v \in (0..(H + 2)) \ {t.height[i]}} : i \in 1..k}
  \cup UNION {{[t EXCEPT !.key[i] = v] : v \in {2 * i - 2, 2 * i + 2} \cap (2..(2 * k))} : i \in 1..k}

Init == /\ phase = "shape" /\ shape \in AllShapes
        /\ n = 0 /\ tree = Blank /\ op = NoOp /\ res = [ret |-> 0, t |-> Blank]

Build == /\ phase = "shape"
         /\ phase' = "built"
         /\ tree' = HeapOf(shape)
         /\ n' = Size(shape)
         /\ shape' = <<>>
         /\ UNCHANGED <<op, res>>

Step == /\ phase = "built" /\ Mode = "ops"
        /\ \E o \in Ops(n) : op' = o /\ res' = Apply(tree, o)
        /\ phase' = "done"
        /\ UNCHANGED <<shape, n, tree>>

Corrupt == /\ phase = "built" /\ Mode = "corrupt"
           /\ \E c \in Corruptions(tree, n) : res' = [ret |-> 0, t |-> c]
           /\ phase' = "corrupted"
           /\ UNCHANGED <<shape, n, tree, op>>

Next_ == Build \/ Step \/ Corrupt
Spec == Init /\ [][Next_]_vars

(* ---- the property on every result *)
Done == phase = "done"
Pre == SetKey(tree, op)             \* the heap the call started from
S0 == 1..n                          \* what was in the tree
S1 == SetAfter(Pre, S0, op)         \* what must be in it now

(* sanity of the construction: every built pre-tree is a correct AVL tree of
   height <= H holding exactly 1..n *)
InvBuilt == phase = "built" =>
              /\ StructViols(tree, S0) = {}
              /\ TrueHeight(tree, tree.root) <= H
              /\ TraversalOK(tree, Forward(tree), Backward(tree))

InvParent    == Done => WellLinked(post)
InvSet       == Done /\ WellLinked(post) => HasSet(post, S1)
InvOrder     == Done /\ WellLinked(post) => Ordered(post)
InvHeight    == Done /\ WellLinked(post) => HeightsExact(post)
InvBalance   == Done /\ WellLinked(post) => Balanced(post)
(* Next/Prev/Min/Max of the model walk the sorted key list both ways *)
ExpectedKeys ==       \* 2,4,..,2n with op.key put in / key 2*op.n taken out
  [i \in 1..Cardinality(S1) |->
     IF op.kind = "ins" /\ ~IsDup(Pre, S0, op)
     THEN (IF 2 * i < op.key THEN 2 * i
           ELSE IF 2 * i = op.key + 1 THEN op.key ELSE 2 * i - 2)
     ELSE IF op.kind = "del" /\ i >= op.n THEN 2 * i + 2
     ELSE 2 * i]
KeysOf(t, s) == [i \in 1..Len(s) |-> t.key[s[i]]]
InvTraversal == Done /\ WellLinked(post) =>
                  /\ TraversalOK(post, Forward(post), Backward(post))
                  /\ KeysOf(post, Forward(post)) = ExpectedKeys
                  /\ KeysOf(post, Backward(post)) = Reverse(ExpectedKeys)
(* duplicate insert: -1 and nothing at all changes; fresh key: 0 *)
InvDup       == Done /\ op.kind = "ins" =>
                  IF IsDup(Pre, S0, op) THEN ret = -1 /\ post = Pre ELSE ret = 0
(* the composed verdict used on the real code says the same ... *)
InvJudge     == Done => Judge(Pre, S0, op, ret, post, Forward(post), Backward(post)) = {}
(* ... and so does its one-pass form (the only one affordable at H = 5) *)
InvFastJudge == Done => FastJudge(Pre, S0, op, ret, post, Forward(post), Backward(post)) = {}
InvFastSame  == Done => /\ FastStructViols(post, S1) = StructViols(post, S1)
                        /\ FastStructViols(post, S0) = StructViols(post, S0)

(* ---- Mode = "corrupt": the oracle notices, terminates, and both forms agree *)
InvOracle == phase = "corrupted" =>
               /\ StructViols(post, S0) # {}
               /\ FastStructViols(post, S0) = StructViols(post, S0)

(* ---- generation *)
(* which triples to print: a cheap hash of the call and of the links around
   the node it concerns, before and after (a hash over the whole heap cost
   more than the call itself) *)
At(f, i) == IF i = 0 THEN 0 ELSE f[i]
Sampled ==
  \/ SampleMod = 1
  \/ ( op.n * 7 + op.key * 13 + n * 31 + (SampleSeed % 65536)
       + tree.root * 17 + post.root * 19
       + At(tree.left, tree.root) * 23 + At(tree.right, tree.root) * 29
       + tree.parent[op.n] * 37 + tree.left[op.n] * 41 + tree.right[op.n] * 43
       + post.parent[op.n] * 47 + post.left[op.n] * 53 + post.right[op.n] * 59
       + At(post.height, post.root) * 61 + At(post.left, post.root) * 67
       + At(post.right, post.root) * 71 ) % SampleMod = 0

Emit == (Done /\ Sampled) =>
          PrintT("GEN " \o ToJson([pre |-> Pre, n |-> n, op |-> op, ret |-> ret,
                                   post |-> post,
                                   chg |-> LinksChanged(Pre, post)]))
=============================================================================
