SPECIFICATION TSpec
CONSTANTS
  SplitBits = 7
  MaxNodes = 8
CONSTANT Timers <- TraceTimers
VIEW ViewL
CHECK_DEADLOCK FALSE
