--------------------------- MODULE IvEvent ---------------------------
(* System model of iv_event (src/iv_event.c) together with the wake-up
   transports it uses (src/iv_fd_epoll.c event_rx_on/event_send = one-shot
   EPOLLIN on an always-readable descriptor; src/iv_event_raw_posix.c =
   eventfd counter / pipe; same-thread posts = the events_local task).

   One action per critical section / system call of the code:
     poster p posting e   (iv_event_post)
        P1  lock owner's event_list_mutex
        P2  if e not queued: post := (pending empty); append e         [locked]
        P3  unlock
        P4  if post: same thread -> register events_local task
                     raw        -> write(event fd)
                     kick       -> epoll_ctl(MOD, EPOLLIN|EPOLLONESHOT)
     owner loop           (iv_main, abstracted to what matters here)
        Tasks   run events_local (=> RunPending)
        Wait    poll: returns if kick armed (consumes the one-shot) / raw
                descriptor readable (level) ; otherwise blocks
        RawRead read(event fd) then RunPending
     RunPending           (__iv_event_run_pending_events)
        R1  lock ; if pending empty: unlock, return ; steal list        [locked]
        R3  unlink first of batch; empty_now := batch empty ; unlock
        R4  handler(e)  -- the environment's reaction: post / unregister
        R5  if empty_now: return ; lock ; if batch empty: unlock, return ; goto R3
     iv_event_unregister(e) from a handler (U): lock, unlink, unlock.

   The environment is bounded by PostBudget.  Events in LocalEv are posted
   only by the owner itself and may be unregistered by handlers; events in
   SharedEv are posted by anybody and stay registered (unregistering an event
   another thread may be posting is a race in the user program). *)
EXTENDS Naturals, Sequences, FiniteSets, TLC

CONSTANTS Posters,      \* poster thread ids (not the owner)
          SharedEv, LocalEv,
          Transport,    \* "kick" | "raw"
          PostBudget,   \* posts per poster
          OwnerBudget   \* API calls the owner makes from handlers
                        \* (posts and unregistrations)

Owner == "owner"
Ev == SharedEv \cup LocalEv
Threads == Posters \cup {Owner}
NoEv == "noev"

VARIABLES
  mtx,        \* holder of event_list_mutex: a thread or "free"
  pend,       \* events_pending (sequence)
  batch,      \* the stolen local list inside RunPending
  reg,        \* [Ev -> BOOLEAN]
  kick,       \* one-shot EPOLLIN armed on the owner's epoll set
  rawcnt,     \* eventfd counter / bytes in the pipe
  ltask,      \* events_local task registered
  opc,        \* owner program counter
  oret,       \* where RunPending returns to: "tasks" | "wait"
  cur,        \* event whose handler is running / being processed (or NoEv)
  emptyNow,   \* the local `empty_now`
  react,      \* pending handler reaction: <<"none">> | <<"post", e>> | <<"unreg", e>>
  ppc, pev, ppost, pleft,   \* posters: pc, event, `post` flag, budget
  opost,      \* owner's own `post` flag while it posts from a handler
  oleft,      \* owner's remaining budget
  needs, posts, calls       \* ghost: C08 bookkeeping

vars == <<mtx, pend, batch, reg, kick, rawcnt, ltask, opc, oret, cur, emptyNow,
          react, ppc, pev, ppost, pleft, opost, oleft, needs, posts, calls>>

Queued(e) == (\E i \in 1..Len(pend) : pend[i] = e) \/ (\E i \in 1..Len(batch) : batch[i] = e)
Remove(s, e) == SelectSeq(s, LAMBDA x : x # e)

Init ==
  /\ mtx = "free" /\ pend = <<>> /\ batch = <<>>
  /\ reg = [e \in Ev |-> TRUE]
  /\ kick = FALSE /\ rawcnt = 0 /\ ltask = FALSE
  /\ opc = "tasks" /\ oret = "wait" /\ cur = NoEv /\ emptyNow = FALSE
  /\ react = <<"none">>
  /\ ppc = [p \in Posters |-> "idle"] /\ pev = [p \in Posters |-> NoEv]
  /\ ppost = [p \in Posters |-> FALSE] /\ pleft = [p \in Posters |-> PostBudget]
  /\ opost = FALSE /\ oleft = OwnerBudget
  /\ needs = [e \in Ev |-> FALSE] /\ posts = [e \in Ev |-> 0] /\ calls = [e \in Ev |-> 0]

-----------------------------------------------------------------------------
(* posters (other threads) *)
PStart(p, e) ==
  /\ ppc[p] = "idle" /\ pleft[p] > 0 /\ e \in SharedEv /\ reg[e]
  /\ ppc' = [ppc EXCEPT ![p] = "P1"] /\ pev' = [pev EXCEPT ![p] = e]
  /\ pleft' = [pleft EXCEPT ![p] = @ - 1]
  /\ needs' = [needs EXCEPT ![e] = TRUE] /\ posts' = [posts EXCEPT ![e] = @ + 1]
  /\ UNCHANGED <<mtx, pend, batch, reg, kick, rawcnt, ltask, opc, oret, cur, emptyNow, react, ppost, opost, oleft, calls>>

P1(p) ==
  /\ ppc[p] = "P1" /\ mtx = "free"
  /\ mtx' = p /\ ppc' = [ppc EXCEPT ![p] = "P2"]
  /\ UNCHANGED <<pend, batch, reg, kick, rawcnt, ltask, opc, oret, cur, emptyNow, react, pev, ppost, pleft, opost, oleft, needs, posts, calls>>

P2(p) ==
  /\ ppc[p] = "P2"
  /\ IF Queued(pev[p])
     THEN ppost' = [ppost EXCEPT ![p] = FALSE] /\ pend' = pend
     ELSE ppost' = [ppost EXCEPT ![p] = (pend = <<>>)] /\ pend' = Append(pend, pev[p])
  /\ ppc' = [ppc EXCEPT ![p] = "P3"]
  /\ UNCHANGED <<mtx, batch, reg, kick, rawcnt, ltask, opc, oret, cur, emptyNow, react, pev, pleft, opost, oleft, needs, posts, calls>>

P3(p) ==
  /\ ppc[p] = "P3"
  /\ mtx' = "free" /\ ppc' = [ppc EXCEPT ![p] = "P4"]
  /\ UNCHANGED <<pend, batch, reg, kick, rawcnt, ltask, opc, oret, cur, emptyNow, react, pev, ppost, pleft, opost, oleft, needs, posts, calls>>

P4(p) ==
  /\ ppc[p] = "P4"
  /\ IF ppost[p]
     THEN IF Transport = "kick" THEN kick' = TRUE /\ rawcnt' = rawcnt
                                ELSE rawcnt' = rawcnt + 1 /\ kick' = kick
     ELSE UNCHANGED <<kick, rawcnt>>
  /\ ppc' = [ppc EXCEPT ![p] = "idle"] /\ pev' = [pev EXCEPT ![p] = NoEv]
  /\ UNCHANGED <<mtx, pend, batch, reg, ltask, opc, oret, cur, emptyNow, react, ppost, pleft, opost, oleft, needs, posts, calls>>

-----------------------------------------------------------------------------
(* owner loop *)
OTasks ==   \* iv_run_tasks: events_local, if registered, runs RunPending
  /\ opc = "tasks"
  /\ IF ltask THEN ltask' = FALSE /\ opc' = "R1" /\ oret' = "wait"
              ELSE opc' = "wait" /\ UNCHANGED <<ltask, oret>>
  /\ UNCHANGED <<mtx, pend, batch, reg, kick, rawcnt, cur, emptyNow, react, ppc, pev, ppost, pleft, opost, oleft, needs, posts, calls>>

OWait ==    \* the poll: with ltask pending the timeout is zero
  /\ opc = "wait"
  /\ \/ /\ kick /\ kick' = FALSE /\ opc' = "R1" /\ oret' = "tasks" /\ UNCHANGED rawcnt
     \/ /\ ~kick /\ rawcnt > 0 /\ opc' = "rawread" /\ UNCHANGED <<kick, rawcnt, oret>>
     \/ /\ ~kick /\ rawcnt = 0 /\ ltask /\ opc' = "tasks" /\ UNCHANGED <<kick, rawcnt, oret>>
  /\ UNCHANGED <<mtx, pend, batch, reg, ltask, cur, emptyNow, react, ppc, pev, ppost, pleft, opost, oleft, needs, posts, calls>>

ORawRead ==  \* iv_event_raw_got_event: drain the descriptor, then the handler
  /\ opc = "rawread"
  /\ rawcnt' = 0 /\ opc' = "R1" /\ oret' = "tasks"
  /\ UNCHANGED <<mtx, pend, batch, reg, kick, ltask, cur, emptyNow, react, ppc, pev, ppost, pleft, opost, oleft, needs, posts, calls>>

OwnerBlocked == opc = "wait" /\ ~kick /\ rawcnt = 0 /\ ~ltask

R1 ==
  /\ opc = "R1" /\ mtx = "free"
  /\ IF pend = <<>>
     THEN opc' = oret /\ UNCHANGED <<mtx, pend, batch>>
     ELSE mtx' = Owner /\ batch' = pend /\ pend' = <<>> /\ opc' = "R3"
  /\ UNCHANGED <<reg, kick, rawcnt, ltask, oret, cur, emptyNow, react, ppc, pev, ppost, pleft, opost, oleft, needs, posts, calls>>

R3 ==       \* holding the mutex: unlink the first, compute empty_now, unlock
  /\ opc = "R3" /\ mtx = Owner
  /\ cur' = Head(batch) /\ batch' = Tail(batch) /\ emptyNow' = (Tail(batch) = <<>>)
  /\ mtx' = "free" /\ opc' = "R4"
  /\ UNCHANGED <<pend, reg, kick, rawcnt, ltask, oret, react, ppc, pev, ppost, pleft, opost, oleft, needs, posts, calls>>

R4 ==       \* handler entry: the post(s) so far are satisfied; choose a reaction
  /\ opc = "R4"
  /\ calls' = [calls EXCEPT ![cur] = @ + 1] /\ needs' = [needs EXCEPT ![cur] = FALSE]
  /\ \/ react' = <<"none">> /\ opc' = "R5" /\ UNCHANGED oleft
     \/ \E e \in Ev : reg[e] /\ oleft > 0 /\ react' = <<"post", e>> /\ opc' = "H1" /\ oleft' = oleft - 1
     \/ \E e \in LocalEv : reg[e] /\ oleft > 0 /\ react' = <<"unreg", e>> /\ opc' = "U1" /\ oleft' = oleft - 1
  /\ UNCHANGED <<mtx, pend, batch, reg, kick, rawcnt, ltask, oret, cur, emptyNow, ppc, pev, ppost, pleft, opost, posts>>

(* the owner posting from a handler: same code path, dst == me *)
H1 ==
  /\ opc = "H1" /\ mtx = "free"
  /\ mtx' = Owner /\ opc' = "H2"
  /\ needs' = [needs EXCEPT ![react[2]] = TRUE] /\ posts' = [posts EXCEPT ![react[2]] = @ + 1]
  /\ UNCHANGED <<pend, batch, reg, kick, rawcnt, ltask, oret, cur, emptyNow, react, ppc, pev, ppost, pleft, opost, oleft, calls>>

H2 ==
  /\ opc = "H2"
  /\ IF Queued(react[2]) THEN opost' = FALSE /\ pend' = pend
                         ELSE opost' = (pend = <<>>) /\ pend' = Append(pend, react[2])
  /\ mtx' = "free" /\ opc' = "H4"
  /\ UNCHANGED <<batch, reg, kick, rawcnt, ltask, oret, cur, emptyNow, react, ppc, pev, ppost, pleft, oleft, needs, posts, calls>>

H4 ==
  /\ opc = "H4"
  /\ ltask' = (ltask \/ opost) /\ opc' = "R5" /\ react' = <<"none">>
  /\ UNCHANGED <<mtx, pend, batch, reg, kick, rawcnt, oret, cur, emptyNow, ppc, pev, ppost, pleft, opost, oleft, needs, posts, calls>>

(* iv_event_unregister of a local event from a handler *)
U1 ==
  /\ opc = "U1"
  /\ IF Queued(react[2])
     THEN /\ mtx = "free"
          /\ pend' = Remove(pend, react[2]) /\ batch' = Remove(batch, react[2])
     ELSE UNCHANGED <<pend, batch>>
  /\ reg' = [reg EXCEPT ![react[2]] = FALSE]
  /\ needs' = [needs EXCEPT ![react[2]] = FALSE]
  /\ opc' = "R5" /\ react' = <<"none">>
  /\ UNCHANGED <<mtx, kick, rawcnt, ltask, oret, cur, emptyNow, ppc, pev, ppost, pleft, opost, oleft, posts, calls>>

R5 ==
  /\ opc = "R5"
  /\ IF emptyNow
     THEN opc' = oret /\ cur' = NoEv /\ UNCHANGED mtx
     ELSE /\ mtx = "free"
          /\ IF batch = <<>> THEN opc' = oret /\ cur' = NoEv /\ UNCHANGED mtx
                             ELSE mtx' = Owner /\ opc' = "R3" /\ cur' = NoEv
  /\ UNCHANGED <<pend, batch, reg, kick, rawcnt, ltask, oret, emptyNow, react, ppc, pev, ppost, pleft, opost, oleft, needs, posts, calls>>

Next ==
  \/ \E p \in Posters : (\E e \in SharedEv : PStart(p, e)) \/ P1(p) \/ P2(p) \/ P3(p) \/ P4(p)
  \/ OTasks \/ OWait \/ ORawRead \/ R1 \/ R3 \/ R4 \/ H1 \/ H2 \/ H4 \/ U1 \/ R5

Spec == Init /\ [][Next]_vars
OwnerSteps == OTasks \/ OWait \/ ORawRead \/ R1 \/ R3 \/ R4 \/ H1 \/ H2 \/ H4 \/ U1 \/ R5
FairSpec == Spec /\ WF_vars(OwnerSteps) /\ \A p \in Posters : WF_vars(P1(p) \/ P2(p) \/ P3(p) \/ P4(p))

-----------------------------------------------------------------------------
TypeOK ==
  /\ mtx \in Threads \cup {"free"}
  /\ \A i \in 1..Len(pend) : pend[i] \in Ev
  /\ \A i \in 1..Len(batch) : batch[i] \in Ev
  /\ kick \in BOOLEAN /\ rawcnt \in Nat /\ ltask \in BOOLEAN

(* structural: an event is on at most one list, at most once *)
NoDup ==
  \A e \in Ev : Cardinality({i \in 1..Len(pend) : pend[i] = e}) + Cardinality({i \in 1..Len(batch) : batch[i] = e}) <= 1

(* C01: unregistered events are on no list (so no handler will run for them) *)
UnregNotQueued == \A e \in Ev : ~reg[e] => ~Queued(e)

(* C08: the handler never runs more often than posts were made *)
NoOverDelivery == \A e \in Ev : calls[e] <= posts[e]

(* C08: no lost wake-up.  Nobody is inside a post, the owner sleeps, nothing
   is armed, and yet a registered event has an undelivered post. *)
PostersIdle == \A p \in Posters : ppc[p] = "idle"
NoLostWakeup == ~(OwnerBlocked /\ PostersIdle /\ \E e \in Ev : reg[e] /\ needs[e])

(* everything queued will be looked at: if something is pending while the
   owner sleeps, a wake-up source is armed or a poster is still on its way *)
PendingImpliesWake ==
  (OwnerBlocked /\ PostersIdle) => (pend = <<>> /\ batch = <<>>)

(* liveness (FairSpec, no constraint): every post is followed by a handler run *)
Delivered == \A e \in Ev : (needs[e] /\ reg[e]) ~> (~needs[e])
=============================================================================
