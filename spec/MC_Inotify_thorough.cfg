SPECIFICATION MCSpec
CONSTANTS
  MaxWd = 3
  MaxObj = 3
  MaxBatch = 3
  MaxReads = 1
  MaxLen = 1
  Aliases = {0}
  TermInit = "null"
  Variant = "code"
INVARIANT NoViolation
INVARIANT TypeOK
INVARIANT Structure
INVARIANT MonType
CHECK_DEADLOCK FALSE
VIEW MCView
