/* memrec -- memory-access recorder (DESIGN 3.2).
 *
 * The library objects of the "rec" build are compiled with gcc's
 * -fsanitize=thread instrumentation but linked against THIS runtime instead of
 * libtsan: every load/store of library code calls __tsan_readN/__tsan_writeN
 * here.  The runtime only observes: it maps each accessed address to a region
 *   heap   a live block allocated by the library through the wrapped allocator
 *          (a bump arena with guard gaps; freed blocks stay mapped and are
 *          remembered as freed)
 *   user   an object the harness lent to the library (registered by the harness)
 *   static a variable of the program image, resolved to its ELF symbol
 *   stack  some thread's stack
 *   wild   anything else (including guard gaps and freed blocks)
 * and emits, whenever the trace logger is about to write another event of the
 * same thread (and at every synchronisation operation), one `Acc` event with
 * the de-duplicated sets of the segment that just ended.  The decisions (is
 * this region owned / lent now? are two conflicting accesses ordered?) are
 * made by the TLA+ monitors MonRes / TraceSync over the recorded trace. */
#include "simk.h"
#include <elf.h>
#include <fcntl.h>
#include <sys/mman.h>
#include <sys/stat.h>

int memrec_on;			/* recording enabled (set by the harness) */
int memrec_words;		/* also record word offsets (race analysis) */

/* ------------------------------------------------------------- allocator */
#define ARENA_SIZE (1UL << 31)
#define GAP 64
struct blk { uintptr_t a; size_t n; int freed; int id; };
#define MAXBLK 65536
static struct blk B[MAXBLK];
static int nblk;
static char *arena, *abump;

static void arena_init(void)
{
	arena = mmap(NULL, ARENA_SIZE, PROT_READ | PROT_WRITE, MAP_PRIVATE | MAP_ANONYMOUS | MAP_NORESERVE, -1, 0);
	if (arena == MAP_FAILED)
		simk_end("arena", 0);
	abump = arena + 4096;
}

void *__real_malloc(size_t);
void __real_free(void *);

static pthread_mutex_t amx = PTHREAD_MUTEX_INITIALIZER;
int __real_pthread_mutex_lock(pthread_mutex_t *);
int __real_pthread_mutex_unlock(pthread_mutex_t *);

static void *arena_alloc(size_t n, int zero)
{
	if (!memrec_on) {
		void *p = __real_malloc(n ? n : 1);
		if (p && zero)
			memset(p, 0, n);
		return p;
	}
	__real_pthread_mutex_lock(&amx);
	if (arena == NULL)
		arena_init();
	size_t rn = (n + 15) & ~(size_t)15;
	if (nblk == MAXBLK || abump + rn + GAP > arena + ARENA_SIZE) {
		__real_pthread_mutex_unlock(&amx);
		simk_end("arena-full", 0);
	}
	char *p = abump;
	abump += rn + GAP;
	B[nblk].a = (uintptr_t)p;
	B[nblk].n = n;
	B[nblk].freed = 0;
	B[nblk].id = nblk + 1;
	int id = ++nblk;
	__real_pthread_mutex_unlock(&amx);
	if (!zero)
		memset(p, 0xCD, n);	/* arena memory is zero: make malloc garbage visible */
	tr("\"e\":\"Alloc\",\"r\":%d,\"n\":%d}", id, (int)n);
	return p;
}

static struct blk *blk_of(uintptr_t a)
{
	int lo = 0, hi = nblk - 1;

	while (lo <= hi) {
		int mid = (lo + hi) / 2;
		if (a < B[mid].a)
			hi = mid - 1;
		else if (a >= B[mid].a + B[mid].n + (B[mid].n ? 0 : 1))
			lo = mid + 1;
		else
			return &B[mid];
	}
	return NULL;
}

void *__wrap_malloc(size_t n) { return arena_alloc(n, 0); }
void *__wrap_calloc(size_t a, size_t b) { return arena_alloc(a * b, 1); }

char *__wrap_strdup(const char *s)
{
	size_t n = strlen(s) + 1;
	char *p = arena_alloc(n, 0);
	memcpy(p, s, n);
	return p;
}

static int memrec_in_user(uintptr_t a);

void __wrap_free(void *p)
{
	if (p == NULL)
		return;
	if (arena && (char *)p >= arena && (char *)p < arena + ARENA_SIZE) {
		void memrec_flush(void);
		memrec_flush();		/* accesses so far saw the block alive */
		struct blk *b = blk_of((uintptr_t)p);
		if (b == NULL || b->a != (uintptr_t)p || b->freed) {
			tr("\"e\":\"BadFree\",\"r\":%d}", b ? b->id : 0);
			return;
		}
		b->freed = 1;
		memset(p, 0xDD, b->n);
		tr("\"e\":\"Free\",\"r\":%d}", b->id);
		return;
	}
	if (arena && memrec_in_user((uintptr_t)p)) {
		/* the library hands an object of the program to free() */
		tr("\"e\":\"BadFree\",\"r\":0}");
		return;
	}
	__real_free(p);
}

/* ------------------------------------------------------------ user regions */
struct ureg { uintptr_t a; size_t n; int kind, id, live; };
#define MAXU 512
static struct ureg U[MAXU];
static int nu;

static int memrec_in_user(uintptr_t a)
{
	for (int i = 0; i < nu; i++)
		if (U[i].live && a >= U[i].a && a < U[i].a + U[i].n)
			return 1;
	return 0;
}

void memrec_user_add(void *p, size_t n, int kind, int id)
{
	for (int i = 0; i < nu; i++)
		if (U[i].a == (uintptr_t)p) {
			U[i].n = n; U[i].kind = kind; U[i].id = id; U[i].live = 1;
			return;
		}
	if (nu < MAXU) {
		U[nu].a = (uintptr_t)p; U[nu].n = n; U[nu].kind = kind; U[nu].id = id; U[nu].live = 1;
		nu++;
	}
}

/* ---------------------------------------------------------------- statics */
struct sym { uintptr_t a; size_t n; const char *name; };
static struct sym *syms;
static int nsyms;
static uintptr_t img_lo, img_hi;

static int symcmp(const void *x, const void *y)
{
	const struct sym *a = x, *b = y;
	return a->a < b->a ? -1 : a->a > b->a;
}

static void load_syms(void)
{
	int fd = open("/proc/self/exe", O_RDONLY);
	struct stat st;

	if (fd < 0 || fstat(fd, &st) < 0)
		return;
	char *m = mmap(NULL, st.st_size, PROT_READ, MAP_PRIVATE, fd, 0);
	__real_close(fd);
	if (m == MAP_FAILED)
		return;
	Elf64_Ehdr *eh = (Elf64_Ehdr *)m;
	Elf64_Shdr *sh = (Elf64_Shdr *)(m + eh->e_shoff);
	for (int i = 0; i < eh->e_shnum; i++) {
		if (sh[i].sh_type != SHT_SYMTAB)
			continue;
		Elf64_Sym *s = (Elf64_Sym *)(m + sh[i].sh_offset);
		int n = sh[i].sh_size / sizeof *s;
		const char *str = m + sh[sh[i].sh_link].sh_offset;
		syms = __real_malloc(n * sizeof *syms);
		for (int k = 0; k < n; k++) {
			if (ELF64_ST_TYPE(s[k].st_info) != STT_OBJECT || s[k].st_size == 0)
				continue;
			syms[nsyms].a = s[k].st_value;
			syms[nsyms].n = s[k].st_size;
			syms[nsyms].name = str + s[k].st_name;
			nsyms++;
		}
	}
	qsort(syms, nsyms, sizeof *syms, symcmp);
	for (int i = 0; i < eh->e_phnum; i++) {
		Elf64_Phdr *ph = (Elf64_Phdr *)(m + eh->e_phoff) + i;
		if (ph->p_type == PT_LOAD && (ph->p_flags & PF_W)) {
			if (!img_lo || ph->p_vaddr < img_lo)
				img_lo = ph->p_vaddr;
			if (ph->p_vaddr + ph->p_memsz > img_hi)
				img_hi = ph->p_vaddr + ph->p_memsz;
		}
	}
}

static struct sym *sym_of(uintptr_t a)
{
	int lo = 0, hi = nsyms - 1;

	while (lo <= hi) {
		int mid = (lo + hi) / 2;
		if (a < syms[mid].a)
			hi = mid - 1;
		else if (a >= syms[mid].a + syms[mid].n)
			lo = mid + 1;
		else
			return &syms[mid];
	}
	return NULL;
}

/* ----------------------------------------------------------------- stacks */
static __thread uintptr_t stk_lo, stk_hi;

static void stack_bounds(void)
{
	pthread_attr_t at;
	void *a;
	size_t n;

	if (pthread_getattr_np(pthread_self(), &at) == 0) {
		pthread_attr_getstack(&at, &a, &n);
		stk_lo = (uintptr_t)a;
		stk_hi = stk_lo + n;
		pthread_attr_destroy(&at);
	} else {
		stk_hi = 1;
	}
}

/* --------------------------------------------------------------- recording */
/* region codes in events: ["h",id] heap, ["u",kind,id] user, ["s","name"]
 * static, ["f",id] freed heap block, ["g",id] guard gap after block id,
 * ["w"] wild */
struct acc { uintptr_t key; unsigned short sz; unsigned char wr; };
#define SEG 512
static __thread struct acc seg[SEG];
static __thread int nseg;
static __thread int in_rt;

static void add(uintptr_t a, int wr, unsigned sz)
{
	/* region-level recording keys on the 8-byte word, word-level recording
	 * on the exact byte range */
	uintptr_t key = memrec_words ? a : (a & ~(uintptr_t)7);
	unsigned short s16 = sz > 4096 ? 4096 : (unsigned short)sz;

	for (int i = nseg - 1; i >= 0 && i >= nseg - 8; i--)
		if (seg[i].key == key && seg[i].wr >= wr && (!memrec_words || seg[i].sz >= s16))
			return;
	for (int i = 0; i < nseg; i++)
		if (seg[i].key == key && (!memrec_words || seg[i].sz == s16)) {
			if (wr)
				seg[i].wr = 1;
			return;
		}
	if (nseg == SEG) {
		void memrec_flush(void);
		memrec_flush();
	}
	seg[nseg].key = key;
	seg[nseg].sz = s16;
	seg[nseg].wr = wr;
	nseg++;
}

static int describe(uintptr_t a, char *buf, size_t len, uintptr_t *base)
{
	*base = 0;
	if (arena && a >= (uintptr_t)arena && a < (uintptr_t)arena + ARENA_SIZE) {
		struct blk *b = blk_of(a);
		if (b) {
			*base = b->a;
			return snprintf(buf, len, b->freed ? "[\"f\",%d]" : "[\"h\",%d]", b->id);
		}
		/* a guard gap: name the block just below */
		int lo = 0, hi = nblk - 1, best = -1;
		while (lo <= hi) {
			int mid = (lo + hi) / 2;
			if (B[mid].a <= a) { best = mid; lo = mid + 1; } else hi = mid - 1;
		}
		return snprintf(buf, len, "[\"g\",%d]", best >= 0 ? B[best].id : 0);
	}
	for (int i = 0; i < nu; i++)
		if (a >= U[i].a && a < U[i].a + U[i].n) {
			*base = U[i].a;
			return snprintf(buf, len, "[\"u\",%d,%d]", U[i].kind, U[i].id);
		}
	if (a >= img_lo && a < img_hi) {
		struct sym *s = sym_of(a);
		if (s) {
			*base = s->a;
			return snprintf(buf, len, "[\"s\",\"%s\"]", s->name);
		}
		return snprintf(buf, len, "[\"s\",\"?\"]");
	}
	if (!stk_hi)
		stack_bounds();
	if (a >= stk_lo && a < stk_hi)
		return snprintf(buf, len, "[\"k\"]");
	/* thread-local storage (errno, ...) sits next to the thread control block */
	{
		uintptr_t tcb = (uintptr_t)pthread_self();
		if (a + (1UL << 16) > tcb && a < tcb + (1UL << 16))
			return snprintf(buf, len, "[\"k\"]");
	}
	/* another thread's stack or mmap'ed libc memory: cannot tell apart cheaply */
	{
		char here;
		uintptr_t h = (uintptr_t)&here;
		if (a > h - (1UL << 23) && a < h + (1UL << 23))
			return snprintf(buf, len, "[\"k\"]");
	}
	return snprintf(buf, len, "[\"w\",%lu]", (unsigned long)((a >> 12) & 0xfffff));
}

void memrec_flush(void)
{
	static __thread char out[SEG * 40 + 64];

	if (!nseg || in_rt)
		return;
	in_rt = 1;
	/* group by region; the stack is the thread's own business */
	size_t off = 0;
	char d[64], prev[2][64] = { "", "" };
	off += snprintf(out + off, sizeof out - off, "\"e\":\"Acc\",\"a\":[");
	int first = 1;
	for (int i = 0; i < nseg; i++) {
		uintptr_t base;
		describe(seg[i].key, d, sizeof d, &base);
		if (d[2] == 'k')
			continue;
		if (!memrec_words) {
			/* region level: drop repeats of the same (region, rw) */
			char tag[72];
			snprintf(tag, sizeof tag, "%s%d", d, seg[i].wr);
			int dup = 0;
			for (int k = 0; k < i && !dup; k++) {
				uintptr_t b2;
				char d2[64], t2[72];
				if (seg[k].wr != seg[i].wr)
					continue;
				describe(seg[k].key, d2, sizeof d2, &b2);
				snprintf(t2, sizeof t2, "%s%d", d2, seg[k].wr);
				dup = !strcmp(tag, t2);
			}
			if (dup)
				continue;
			off += snprintf(out + off, sizeof out - off, "%s[%s,%d,0]", first ? "" : ",", d, seg[i].wr);
		} else {
			off += snprintf(out + off, sizeof out - off, "%s[%s,%d,%d,%d]", first ? "" : ",", d, seg[i].wr,
					base ? (int)(seg[i].key - base) : 0, (int)seg[i].sz);
		}
		first = 0;
		if (off > sizeof out - 128)
			break;
	}
	(void)prev;
	nseg = 0;
	if (!first) {
		off += snprintf(out + off, sizeof out - off, "]}");
		tr("%s", out);
	}
	in_rt = 0;
}

static inline void rec(void *addr, int wr, unsigned sz)
{
	if (!memrec_on || in_rt)
		return;
	add((uintptr_t)addr, wr, sz);
}

#define RW(n) \
	void __tsan_read##n(void *a) { rec(a, 0, n); } \
	void __tsan_write##n(void *a) { rec(a, 1, n); } \
	void __tsan_unaligned_read##n(void *a) { rec(a, 0, n); } \
	void __tsan_unaligned_write##n(void *a) { rec(a, 1, n); }
RW(1) RW(2) RW(4) RW(8) RW(16)

static void rec_range(void *a, unsigned long n, int wr)
{
	if (memrec_words) {
		for (unsigned long i = 0; i < n; i += 4096)
			rec((char *)a + i, wr, n - i > 4096 ? 4096 : (unsigned)(n - i));
		return;
	}
	for (unsigned long i = 0; i < n && i < 4096; i += 8)
		rec((char *)a + i, wr, 8);
	if (n)
		rec((char *)a + n - 1, wr, 1);
}

void __tsan_read_range(void *a, unsigned long n) { rec_range(a, n, 0); }
void __tsan_write_range(void *a, unsigned long n) { rec_range(a, n, 1); }

void __tsan_func_entry(void *pc) { }
void __tsan_func_exit(void) { }
void __tsan_init(void) { }
void __tsan_vptr_update(void *a, void *b) { }
void __tsan_vptr_read(void *a) { }

/* buffers handed to wrapped libc calls are accesses too */
void memrec_buf(const void *p, size_t n, int wr)
{
	if (!memrec_on || in_rt || n == 0)
		return;
	rec_range((void *)p, n, wr);
}

void memrec_init(int words)
{
	memrec_on = 1;
	memrec_words = words;
	load_syms();
}
