--------------------------- MODULE IvRaw ---------------------------
(* System model of iv_event_raw (src/iv_event_raw_posix.c, src/eventfd-linux.h).

   The pending indicator is the kernel object behind the event descriptor:
     eventfd mode:  a counter; write adds 1 (never fails below 2^64-2), read
                    returns it and resets it to 0;
     pipe mode:     a byte queue of capacity Cap; write(1 byte) fails with
                    EAGAIN when full (the write end is O_NONBLOCK, so the
                    poster never blocks); read takes up to ReadMax bytes.
   Owner, per loop iteration:  Poll (level-triggered: readable iff n > 0)
     -> GotEvent: read (drain) ; if it returned > 0 call the handler.
   Posters: any context (other thread, owner itself from the handler, signal
   handler, forked child) -- one atomic write each.

   Transport selection (eventfd_grab): eventfd2 -> eventfd -> pipe, decided
   by which system calls fail with ENOSYS/EINVAL; modelled as the constant
   Mode, the fall-back order itself is exercised on the real code by fault
   injection. *)
EXTENDS Naturals, TLC

CONSTANTS Mode,        \* "eventfd" | "pipe"
          Cap,         \* pipe capacity (bytes)
          ReadMax,     \* bytes taken by one read in pipe mode (1024 in the code)
          Posters, MaxPosts

VARIABLES n,           \* counter value / bytes queued
          opc,         \* owner: "poll" | "read" | "handler"
          left,        \* [Posters -> posts left]
          hleft,       \* posts the handler itself may still make
          needs, posts, calls, dropped

vars == <<n, opc, left, hleft, needs, posts, calls, dropped>>

Init == n = 0 /\ opc = "poll" /\ left = [p \in Posters |-> MaxPosts] /\ hleft = 1
        /\ needs = FALSE /\ posts = 0 /\ calls = 0 /\ dropped = 0

Write ==   \* one iv_event_raw_post: the write itself
  IF Mode = "pipe" /\ n >= Cap
  THEN n' = n /\ dropped' = dropped + 1      \* EAGAIN: ignored by the poster
  ELSE n' = n + 1 /\ dropped' = dropped

Post(p) ==
  /\ left[p] > 0 /\ left' = [left EXCEPT ![p] = @ - 1]
  /\ Write /\ needs' = TRUE /\ posts' = posts + 1
  /\ UNCHANGED <<opc, hleft, calls>>

Poll ==    \* returns only when the descriptor is readable
  /\ opc = "poll" /\ n > 0 /\ opc' = "read"
  /\ UNCHANGED <<n, left, hleft, needs, posts, calls, dropped>>

Read ==    \* iv_event_raw_got_event: read() drains, then the handler runs
  /\ opc = "read"
  /\ IF n = 0 THEN opc' = "poll" /\ n' = n                \* EAGAIN: no handler
     ELSE /\ opc' = "handler"
          /\ n' = IF Mode = "eventfd" THEN 0 ELSE IF n > ReadMax THEN n - ReadMax ELSE 0
  /\ UNCHANGED <<left, hleft, needs, posts, calls, dropped>>

Handler == \* handler entry satisfies every post made so far
  /\ opc = "handler" /\ calls' = calls + 1 /\ needs' = FALSE
  /\ \/ opc' = "poll" /\ UNCHANGED <<n, hleft, posts, dropped>>
     \/ /\ hleft > 0 /\ hleft' = hleft - 1 /\ opc' = "hpost"
        /\ UNCHANGED <<n, posts, dropped>>
  /\ UNCHANGED left

HandlerPost ==   \* a post from inside the handler (owner context)
  /\ opc = "hpost" /\ Write /\ needs' = TRUE /\ posts' = posts + 1 /\ opc' = "poll"
  /\ UNCHANGED <<left, hleft, calls>>

Next == (\E p \in Posters : Post(p)) \/ Poll \/ Read \/ Handler \/ HandlerPost
Spec == Init /\ [][Next]_vars
FairSpec == Spec /\ WF_vars(Poll \/ Read \/ Handler \/ HandlerPost)

(* C09: a post is never lost: while a post is undelivered either the
   descriptor is readable or the owner is already on its way to the handler *)
NoLostPost == needs => (n > 0 \/ opc \in {"handler"})
(* a full pipe only ever drops a write when enough is queued to wake the owner *)
DropOnlyWhenReadable == (dropped > 0 /\ needs) => (n > 0 \/ opc = "handler")
Delivered == needs ~> ~needs
=============================================================================
