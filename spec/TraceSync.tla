--------------------------- MODULE TraceSync ---------------------------
(* C14: happens-before race analysis of recorded multi-threaded executions.

   Input (IOEnv.TRACE, ndjson, produced from a harness trace by
   lib/synccheck.py which only renumbers objects and drops locations that a
   single thread touches):
     Reset id nloc nsync
     Sy  t op x      op in lock/acq (acquire x), unlock/rel (release x),
                     create (x = new thread), exit, join (x = joined thread)
     Acc t w r       the locations written / read by thread t since its
                     previous event; each entry <<loc, exempt>> (exempt = the
                     location is one of the one-way feature-detection flags the
                     property excludes)
     End
   State: a vector clock per thread and per synchronisation object, and per
   location the epoch of the last write and the read clocks (FastTrack-style).
   A conflicting pair of accesses of different threads that is not ordered by
   happens-before is reported as C14:race. *)
EXTENDS Naturals, Integers, Sequences, FiniteSets, TLC, Json, IOUtils

NT == 16
Thr == 0..(NT - 1)
Zero == [u \in Thr |-> 0]
Join(a, b) == [u \in Thr |-> IF a[u] > b[u] THEN a[u] ELSE b[u]]

VARIABLES l, vc, sv, lw, lr, viols, races, sid, nacc
tvars == <<l, vc, sv, lw, lr, viols, races, sid, nacc>>

Log == ndJsonDeserialize(IOEnv.TRACE)
N == Len(Log)
(* the per-location and per-object tables are sized for each execution (the
   Reset record carries the counts) *)
Fresh == /\ vc = [t \in Thr |-> [u \in Thr |-> IF u = t THEN 1 ELSE 0]]
         /\ sv = [x \in 0..0 |-> Zero]
         /\ lw = [c \in 0..0 |-> <<-1, 0>>]
         /\ lr = [c \in 0..0 |-> Zero]

TInit == l = 1 /\ Fresh /\ viols = {} /\ races = {} /\ sid = "none" /\ nacc = 0

Ordered(ep, v) == ep[1] < 0 \/ ep[2] <= v[ep[1]]     \* epoch <<thread, clock>> happens-before v

(* process the written then the read locations of one segment of thread t *)
RECURSIVE DoWrites(_, _, _, _, _, _)
DoWrites(t, w, i, lws, lrs, bad) ==
  IF i > Len(w) THEN <<lws, lrs, bad>>
  ELSE LET c == w[i][1]  ex == w[i][2] = 1
           v == vc[t]
           race == ~ex /\ ((lws[c][1] # t /\ ~Ordered(lws[c], v)) \/ (\E u \in Thr : u # t /\ lrs[c][u] > v[u]))
       IN DoWrites(t, w, i + 1, [lws EXCEPT ![c] = <<t, v[t]>>], [lrs EXCEPT ![c] = Zero],
                   IF race THEN bad \cup {c} ELSE bad)

RECURSIVE DoReads(_, _, _, _, _, _)
DoReads(t, r, i, lws, lrs, bad) ==
  IF i > Len(r) THEN <<lws, lrs, bad>>
  ELSE LET c == r[i][1]  ex == r[i][2] = 1
           v == vc[t]
           race == ~ex /\ lws[c][1] # t /\ ~Ordered(lws[c], v)
       IN DoReads(t, r, i + 1, lws, [lrs EXCEPT ![c][t] = v[t]], IF race THEN bad \cup {c} ELSE bad)

TNext ==
  /\ l <= N /\ l' = l + 1
  /\ LET e == Log[l] IN
     CASE e.e = "Reset" ->
            /\ vc' = [t \in Thr |-> [u \in Thr |-> IF u = t THEN 1 ELSE 0]]
            /\ sv' = [x \in 0..e.nsync |-> Zero]
            /\ lw' = [c \in 0..e.nloc |-> <<-1, 0>>] /\ lr' = [c \in 0..e.nloc |-> Zero]
            /\ viols' = {} /\ races' = {} /\ sid' = e.id /\ nacc' = 0
       [] e.e = "Sy" ->
            LET t == e.t  x == e.x IN
            /\ CASE e.op \in {"lock", "acq"} ->
                      vc' = [vc EXCEPT ![t] = Join(@, sv[x])] /\ sv' = sv
                 [] e.op = "unlock" ->
                      sv' = [sv EXCEPT ![x] = vc[t]] /\ vc' = [vc EXCEPT ![t][t] = @ + 1]
                 [] e.op = "rel" ->
                      sv' = [sv EXCEPT ![x] = Join(@, vc[t])] /\ vc' = [vc EXCEPT ![t][t] = @ + 1]
                 [] e.op = "create" ->
                      vc' = [vc EXCEPT ![x] = [Join(vc[t], vc[x]) EXCEPT ![x] = 1], ![t][t] = @ + 1] /\ sv' = sv
                 [] e.op = "join" ->
                      vc' = [vc EXCEPT ![t] = Join(@, vc[x])] /\ sv' = sv
                 [] OTHER -> UNCHANGED <<vc, sv>>
            /\ UNCHANGED <<lw, lr, viols, races, sid, nacc>>
       [] e.e = "Acc" ->
            LET a == DoWrites(e.t, e.w, 1, lw, lr, {})
                b == DoReads(e.t, e.r, 1, a[1], a[2], a[3])
            IN /\ lw' = b[1] /\ lr' = b[2]
               /\ races' = races \cup b[3]
               /\ viols' = IF b[3] # {} THEN viols \cup {"C14:race"} ELSE viols
               /\ nacc' = nacc + 1
               /\ UNCHANGED <<vc, sv, sid>>
       [] e.e = "End" ->
            /\ PrintT("VERDICT " \o ToJson([id |-> sid, why |-> e.why, viols |-> viols, races |-> races,
                                            seen |-> IF nacc > 0 THEN {"C14:race"} ELSE {}]))
            /\ UNCHANGED <<vc, sv, lw, lr, viols, races, sid, nacc>>
       [] OTHER -> UNCHANGED <<vc, sv, lw, lr, viols, races, sid, nacc>>

TSpec == TInit /\ [][TNext]_tvars
=============================================================================
