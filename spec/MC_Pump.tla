--------------------------- MODULE MC_Pump ---------------------------
(* IvPump composed with the MonPump monitor: every system step feeds its
   observable event to MonStep.  INVARIANT NoViolation (+ TypeOK, Structure,
   MonType).  No budgets are needed: the composed state space is finite. *)
EXTENDS IvPump, MonPump

VARIABLE mon
mvars == <<p, ev, mon>>

Feed == mon' = MonStep(mon, ev')

MCInit == Init /\ mon = MonInit

(* one disjunct per system action so that -coverage reports each of them *)
MCNext ==
  \/ (PumpInit /\ Feed)
  \/ (InitBands /\ Feed)
  \/ (InitEnd /\ Feed)
  \/ (PumpBegin /\ Feed)
  \/ (InputData /\ Feed)
  \/ (InputEof /\ Feed)
  \/ (InputAgain /\ Feed)
  \/ (InputError /\ Feed)
  \/ (InputEintr /\ Feed)
  \/ (FionAnswer /\ Feed)
  \/ (OutputData /\ Feed)
  \/ (OutputAgain /\ Feed)
  \/ (OutputZero /\ Feed)
  \/ (OutputError /\ Feed)
  \/ (OutputEintr /\ Feed)
  \/ (ShutdownOut /\ Feed)
  \/ (SwitchBands /\ Feed)
  \/ (PumpEnd /\ Feed)
  \/ (IsDone /\ Feed)
  \/ (DestroyBegin /\ Feed)
  \/ (DestroyBands /\ Feed)
  \/ (DestroyEnd /\ Feed)

MCSpec == MCInit /\ [][MCNext]_mvars

(* vacuity bookkeeping and the last event do not influence behaviour *)
MCView == <<p, [mon EXCEPT !.seen = {}]>>

NoViolation == mon.viols = {}

(* the monitor's ghost state agrees with the model's ghost state *)
MonType ==
  /\ mon.rd = p.rd /\ mon.dl = p.dl
  /\ p.pc # "idle" => (mon.eof <=> p.fin >= 1 \/ (p.pc = "shut"))
  /\ mon.shut = (IF p.shut THEN 1 ELSE 0)

(* every monitor rule had its antecedent satisfied somewhere: printed tags are
   collected by the driver from states where a new tag appears *)
SeenAll == {"C17:stream", "C17:eof-early", "C17:eof-early:data-after", "C17:shutdown:issued",
            "C17:shutdown:owed", "C17:shutdown:not-asked", "C17:ret:0", "C17:ret:1", "C17:ret:err",
            "C17:ret:is-done", "C17:ret:not-done", "C17:bands:init", "C17:bands:destroy",
            "C17:bands:done", "C17:bands:fin-pending", "C17:bands:full", "C17:bands:in-out",
            "C17:bands:in-only", "X:in-pos"}
(* vacuity probe: violated (intentionally) iff some behaviour exercises every tag *)
NotAllSeen == mon.seen # SeenAll
=============================================================================
