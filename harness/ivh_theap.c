/*
 * ivh_theap - harness for the timer store of ivykis (property C05).
 *
 * Drives iv_timer_register / iv_timer_unregister / iv_main on the REAL library
 * under a virtual clock (__wrap_clock_gettime) and logs, as ndjson,
 *   - in "mon" mode only the observable events (register id/expiry,
 *     unregister id, round begin/end, handler entry), for populations up to
 *     MAXID timers;
 *   - in "lock" mode additionally a projection of the store after every
 *     event, read through the private header WITHOUT allocating: num_timers,
 *     rat_depth, the timer ids in slot order 1..num_timers, every timer's
 *     index field, and the number of non-NULL slots beyond num_timers in the
 *     leaves that exist ("st").
 * spec/TraceTimerHeap.tla validates both kinds of trace.
 *
 * usage: ivh_theap -i script -o trace.ndjson
 *
 * Script (text, one operation per line; every script runs in a forked child so
 * that iv_fatal()/a crash ends only that script):
 *   S <sid> lock|mon <maxid> <seed>     start of a script
 *   R <id|0> <exp>                      register (0 = harness picks a free id)
 *   RE                                  register with the expiry of a random registered timer
 *   U <id>                              unregister that id
 *   UV root|last|int|rand|eq            unregister a victim chosen in the live store
 *   P <n> <wR> <wRE> <wroot> <wlast> <wint> <wrand> <weq> <lo> <hi>
 *                                       n random operations with these weights, expiries in [lo,hi]
 *   G <target> <pct> <lo> <hi>          grow to <target> timers (pct% of the steps unregister)
 *   D <target> <pct> <lo> <hi>          shrink to <target> timers (pct% of the steps register)
 *   H <fid> R <id|0> <exp> | H <fid> U <id>
 *                                       reaction performed inside the handler of <fid> in the next round
 *   F <T> <pct>                         fire phase: virtual time := T, one iv_main() that runs the timers
 *                                       due at T and returns (a task calls iv_quit()); in pct% of the
 *                                       handlers a random register / unregister is performed
 *   E                                   end of the script (remaining timers are unregistered, iv_deinit)
 * Times are integers in a virtual unit of 1/64 s (so both tv_sec and tv_nsec
 * take part in comparisons).
 */
#define _GNU_SOURCE
#include <stdio.h>
#include <stdlib.h>
#include <string.h>
#include <stdint.h>
#include <stdarg.h>
#include <unistd.h>
#include <signal.h>
#include <time.h>
#include <sys/wait.h>
#include "iv_private.h"

#define MAXID		20000
#define UNITS		64
#define BASE_SEC	1000

struct htm {
	struct iv_timer	t;		/* must be first: slot pointer == struct htm pointer */
	int		id;
	int		exp;
	int		reg;		/* harness's own record: 1 between register and unregister/handler */
	int		pos;		/* position in regs[] */
	int		eq;		/* registered as an equal-key timer */
};

static struct htm *tms;
static int maxid;
static int regs[MAXID + 1], nreg;
static int freeid[MAXID + 1], nfree;
static int lockmode;
static long long vnow;			/* virtual time, units */
static int in_round, cur_fire;
static FILE *out;
static uint64_t rng;

struct react { int fid; int op; int id; int exp; };
static struct react *reacts;
static int nreact, capreact;

/* ------------------------------------------------------------ clock */
int __real_clock_gettime(clockid_t c, struct timespec *ts);
int __wrap_clock_gettime(clockid_t c, struct timespec *ts)
{
	ts->tv_sec = BASE_SEC + vnow / UNITS;
	ts->tv_nsec = (vnow % UNITS) * (1000000000L / UNITS);
	return 0;
}

static void set_exp(struct iv_timer *t, int u)
{
	t->expires.tv_sec = BASE_SEC + u / UNITS;
	t->expires.tv_nsec = (u % UNITS) * (1000000000L / UNITS);
}

/* ------------------------------------------------------------ prng */
static uint32_t rnd(void)
{
	rng ^= rng << 13;
	rng ^= rng >> 7;
	rng ^= rng << 17;
	return (uint32_t)(rng >> 16);
}
static int rnd_in(int lo, int hi)
{
	return hi <= lo ? lo : lo + (int)(rnd() % (uint32_t)(hi - lo + 1));
}

/* ------------------------------------------------------------ projection (read only) */
static int ptr_id(void *p)
{
	char *c = p;

	if (p == NULL)
		return 0;
	if (c < (char *)(tms + 1) || c > (char *)(tms + maxid) ||
	    (c - (char *)tms) % sizeof(struct htm))
		return -2;
	return ((struct htm *)p)->id;
}

/* iv_timer_get_node without growth and without allocation */
static void *slot_at(struct iv_state *st, int index)
{
	struct iv_timer_ratnode *r = st->ratnode.timer_root;
	int i;

	for (i = st->rat_depth; i > 0; i--) {
		if (r == NULL)
			return NULL;
		r = r->child[(index >> (i * IV_TIMER_SPLIT_BITS)) & (IV_TIMER_SPLIT_NODES - 1)];
	}
	if (r == NULL)
		return NULL;
	return r->child[index & (IV_TIMER_SPLIT_NODES - 1)];
}

static int stale_walk(struct iv_state *st, struct iv_timer_ratnode *r, int depth, int prefix)
{
	int k, n = 0;

	for (k = 0; k < IV_TIMER_SPLIT_NODES; k++) {
		int index = prefix * IV_TIMER_SPLIT_NODES + k;

		if (r->child[k] == NULL)
			continue;
		if (depth > 0)
			n += stale_walk(st, r->child[k], depth - 1, index);
		else if (index != 0 && index > st->num_timers)	/* index 0 of the first leaf is timer_root */
			n++;
	}
	return n;
}

static int stale_count(struct iv_state *st)
{
	return stale_walk(st, st->ratnode.timer_root, st->rat_depth, 0);
}

static void proj(void)
{
	struct iv_state *st = iv_get_state();
	int i;

	if (!lockmode)
		return;
	fprintf(out, ",\"n\":%d,\"d\":%d,\"st\":%d,\"sl\":[", st->num_timers, st->rat_depth,
		stale_count(st));
	for (i = 1; i <= st->num_timers && i <= 4 * MAXID; i++)
		fprintf(out, "%s%d", i > 1 ? "," : "", ptr_id(slot_at(st, i)));
	fprintf(out, "],\"ix\":[");
	for (i = 1; i <= maxid; i++)
		fprintf(out, "%s%d", i > 1 ? "," : "", ((struct iv_timer_ *)&tms[i].t)->index);
	fprintf(out, "]");
}

static void ev_end(void)
{
	fputs("}\n", out);
	fflush(out);
}

/* ------------------------------------------------------------ registry */
static void reg_add(int id)
{
	tms[id].reg = 1;
	tms[id].pos = nreg;
	regs[nreg++] = id;
}

static void reg_del(int id)
{
	int p = tms[id].pos, last = regs[nreg - 1];

	regs[p] = last;
	tms[last].pos = p;
	nreg--;
	tms[id].reg = 0;
	tms[id].eq = 0;
	freeid[nfree++] = id;
}

static void handler(void *cookie);

static void do_reg(int id, int exp, int eq)
{
	if (id == 0) {
		if (nfree == 0)
			return;
		id = freeid[--nfree];
	} else {
		int k;

		if (id < 1 || id > maxid || tms[id].reg)
			return;
		for (k = 0; k < nfree; k++)
			if (freeid[k] == id)
				break;
		if (k == nfree)
			return;
		freeid[k] = freeid[--nfree];
	}
	if (exp < 0)
		exp = 0;
	tms[id].exp = exp;
	tms[id].eq = eq;
	IV_TIMER_INIT(&tms[id].t);
	set_exp(&tms[id].t, exp);
	tms[id].t.cookie = &tms[id];
	tms[id].t.handler = handler;
	reg_add(id);
	iv_timer_register(&tms[id].t);
	fprintf(out, "{\"e\":\"Reg\",\"id\":%d,\"x\":%d,\"in\":%d", id, exp, cur_fire);
	proj();
	ev_end();
}

static void do_unreg(int id)
{
	if (id < 1 || id > maxid || !tms[id].reg)
		return;
	reg_del(id);
	iv_timer_unregister(&tms[id].t);
	fprintf(out, "{\"e\":\"Unreg\",\"id\":%d,\"in\":%d", id, cur_fire);
	proj();
	ev_end();
}

enum { V_ROOT, V_LAST, V_INT, V_RAND, V_EQ };

static int pick_victim(int kind)
{
	struct iv_state *st = iv_get_state();
	int n = st->num_timers, id = 0, k;

	if (nreg == 0)
		return 0;
	switch (kind) {
	case V_ROOT:
		if (n >= 1)
			id = ptr_id(slot_at(st, 1));
		break;
	case V_LAST:
		if (n >= 1)
			id = ptr_id(slot_at(st, n));
		break;
	case V_INT:
		if (n >= 3)
			id = ptr_id(slot_at(st, 2 + (int)(rnd() % (uint32_t)(n - 2))));
		break;
	case V_EQ:
		for (k = 0; k < 32; k++) {
			int c = regs[rnd() % (uint32_t)nreg];
			if (tms[c].eq) {
				id = c;
				break;
			}
		}
		break;
	}
	if (id < 1 || id > maxid || !tms[id].reg)
		id = regs[rnd() % (uint32_t)nreg];
	return id;
}

static void do_re(int lo, int hi)
{
	if (nreg)
		do_reg(0, tms[regs[rnd() % (uint32_t)nreg]].exp, 1);
	else
		do_reg(0, rnd_in(lo, hi), 0);
}

static void rand_unreg(void)
{
	static const int kinds[8] = { V_ROOT, V_LAST, V_INT, V_INT, V_RAND, V_RAND, V_EQ, V_INT };

	do_unreg(pick_victim(kinds[rnd() % 8]));
}

/* ------------------------------------------------------------ rounds */
static int react_pct;

static void handler(void *cookie)
{
	struct htm *m = cookie;
	int i;

	fprintf(out, "{\"e\":\"Fire\",\"id\":%d,\"x\":%d", m->id, m->exp);
	if (m->reg)
		reg_del(m->id);
	proj();
	ev_end();
	cur_fire = m->id;
	for (i = 0; i < nreact; i++) {
		if (reacts[i].fid != m->id)
			continue;
		if (reacts[i].op == 'R')
			do_reg(reacts[i].id, reacts[i].exp, 0);
		else
			do_unreg(reacts[i].id);
		reacts[i].fid = -1;
	}
	if (react_pct && (int)(rnd() % 100) < react_pct) {
		int c = rnd() % 10, k;

		if (c < 4) {
			/* a new timer, already due or not: must not disturb this round */
			do_reg(0, (int)vnow + rnd_in(-40, 60), 0);
		} else if (c < 7) {
			rand_unreg();
		} else if (nreg) {
			/* a timer that is due: collected by this round but not run yet */
			for (k = 0; k < 64; k++) {
				int v = regs[rnd() % (uint32_t)nreg];
				if (tms[v].exp <= vnow) {
					do_unreg(v);
					break;
				}
			}
		}
	}
	cur_fire = 0;
}

static struct iv_task qt;
static void quit_h(void *c)
{
	iv_quit();
}

static void do_fire(int T, int pct)
{
	if (T < vnow)
		T = vnow;
	vnow = T;
	fprintf(out, "{\"e\":\"RB\",\"T\":%d", T);
	ev_end();
	in_round = 1;
	react_pct = pct;
	IV_TASK_INIT(&qt);
	qt.handler = quit_h;
	iv_task_register(&qt);
	iv_invalidate_now();
	iv_main();
	in_round = 0;
	react_pct = 0;
	nreact = 0;
	fprintf(out, "{\"e\":\"RE\"");
	proj();
	ev_end();
}

/* ------------------------------------------------------------ script */
static void fatal_h(const char *msg)
{
	char b[200];
	int i;

	for (i = 0; msg[i] && i < 190; i++)
		b[i] = (msg[i] == '"' || msg[i] == '\\' || msg[i] < 32) ? ' ' : msg[i];
	b[i] = 0;
	fprintf(out, "{\"e\":\"Fatal\",\"msg\":\"%s\"}\n", b);
	fflush(out);
}

static int vkind(const char *s)
{
	if (!strcmp(s, "root")) return V_ROOT;
	if (!strcmp(s, "last")) return V_LAST;
	if (!strcmp(s, "int")) return V_INT;
	if (!strcmp(s, "eq")) return V_EQ;
	return V_RAND;
}

static void run_line(char *ln)
{
	char a[32], b[32];
	int v[12], n;

	if (sscanf(ln, "R %d %d", &v[0], &v[1]) == 2) {
		do_reg(v[0], v[1], 0);
	} else if (!strncmp(ln, "RE", 2)) {
		do_re(0, 1000);
	} else if (sscanf(ln, "UV %31s", a) == 1) {
		do_unreg(pick_victim(vkind(a)));
	} else if (sscanf(ln, "U %d", &v[0]) == 1) {
		do_unreg(v[0]);
	} else if ((n = sscanf(ln, "P %d %d %d %d %d %d %d %d %d %d", &v[0], &v[1], &v[2], &v[3], &v[4],
			       &v[5], &v[6], &v[7], &v[8], &v[9])) == 10) {
		int tot = v[1] + v[2] + v[3] + v[4] + v[5] + v[6] + v[7], i;

		for (i = 0; i < v[0] && tot > 0; i++) {
			int c = rnd() % tot;

			if ((c -= v[1]) < 0) do_reg(0, rnd_in(v[8], v[9]), 0);
			else if ((c -= v[2]) < 0) do_re(v[8], v[9]);
			else if ((c -= v[3]) < 0) do_unreg(pick_victim(V_ROOT));
			else if ((c -= v[4]) < 0) do_unreg(pick_victim(V_LAST));
			else if ((c -= v[5]) < 0) do_unreg(pick_victim(V_INT));
			else if ((c -= v[6]) < 0) do_unreg(pick_victim(V_RAND));
			else do_unreg(pick_victim(V_EQ));
		}
	} else if (sscanf(ln, "G %d %d %d %d", &v[0], &v[1], &v[2], &v[3]) == 4) {
		while (nreg < v[0] && nfree > 0) {
			if (nreg > 0 && (int)(rnd() % 100) < v[1])
				rand_unreg();
			else if (rnd() % 10 == 0)
				do_re(v[2], v[3]);
			else
				do_reg(0, rnd_in(v[2], v[3]), 0);
		}
	} else if (sscanf(ln, "D %d %d %d %d", &v[0], &v[1], &v[2], &v[3]) == 4) {
		while (nreg > v[0]) {
			if ((int)(rnd() % 100) < v[1] && nfree > 0)
				do_reg(0, rnd_in(v[2], v[3]), 0);
			else
				rand_unreg();
		}
	} else if (sscanf(ln, "H %d %31s %d %d", &v[0], b, &v[1], &v[2]) >= 3) {
		if (nreact == capreact) {
			capreact = capreact ? 2 * capreact : 64;
			reacts = realloc(reacts, capreact * sizeof(*reacts));
		}
		reacts[nreact].fid = v[0];
		reacts[nreact].op = b[0];
		reacts[nreact].id = v[1];
		reacts[nreact].exp = v[2];
		nreact++;
	} else if (sscanf(ln, "F %d %d", &v[0], &v[1]) == 2) {
		do_fire(v[0], v[1]);
	}
}

static void child(char **lines, int nlines, const char *outpath)
{
	char sid[64], mode[16];
	int seed, i;

	out = fopen(outpath, "a");
	if (out == NULL)
		_exit(97);
	setvbuf(out, NULL, _IOFBF, 1 << 16);
	if (sscanf(lines[0], "S %63s %15s %d %d", sid, mode, &maxid, &seed) != 4 || maxid < 1 || maxid > MAXID)
		_exit(98);
	lockmode = !strcmp(mode, "lock");
	rng = 0x9E3779B97F4A7C15ULL ^ ((uint64_t)seed * 0xD1342543DE82EF95ULL);
	if (rng == 0)
		rng = 1;
	tms = calloc(maxid + 2, sizeof(*tms));
	for (i = 1; i <= maxid; i++) {
		tms[i].id = i;
		IV_TIMER_INIT(&tms[i].t);
	}
	for (i = maxid; i >= 1; i--)
		freeid[nfree++] = i;		/* pops 1, 2, 3, ... */
	fprintf(out, "{\"e\":\"Reset\",\"id\":\"%s\",\"mode\":\"%s\",\"maxid\":%d}\n", sid, mode, maxid);
	fflush(out);
	alarm(300);
	iv_set_fatal_msg_handler(fatal_h);
	iv_init();
	for (i = 1; i < nlines; i++)
		run_line(lines[i]);
	while (nreg > 0)
		do_unreg(regs[nreg - 1]);
	iv_deinit();
	fprintf(out, "{\"e\":\"End\",\"why\":\"ok\"}\n");
	fflush(out);
	fclose(out);
	_exit(0);
}

int main(int argc, char **argv)
{
	const char *in = NULL, *outpath = NULL;
	char **lines = NULL;
	int nl = 0, cap = 0, i, start;
	char buf[512];
	FILE *f;

	for (i = 1; i + 1 < argc; i += 2) {
		if (!strcmp(argv[i], "-i")) in = argv[i + 1];
		else if (!strcmp(argv[i], "-o")) outpath = argv[i + 1];
	}
	if (in == NULL || outpath == NULL) {
		fprintf(stderr, "usage: ivh_theap -i script -o trace\n");
		return 2;
	}
	f = fopen(in, "r");
	if (f == NULL) {
		perror(in);
		return 2;
	}
	while (fgets(buf, sizeof(buf), f)) {
		if (nl == cap) {
			cap = cap ? 2 * cap : 1024;
			lines = realloc(lines, cap * sizeof(*lines));
		}
		buf[strcspn(buf, "\n")] = 0;
		lines[nl++] = strdup(buf);
	}
	fclose(f);
	f = fopen(outpath, "w");
	if (f == NULL) {
		perror(outpath);
		return 2;
	}
	fclose(f);

	for (start = -1, i = 0; i <= nl; i++) {
		if (i < nl && lines[i][0] == 'S' && lines[i][1] == ' ') {
			start = i;
			continue;
		}
		if (start >= 0 && (i == nl || (lines[i][0] == 'E' && lines[i][1] == 0))) {
			pid_t pid = fork();
			int st;

			if (pid < 0) {
				perror("fork");
				return 2;
			}
			if (pid == 0)
				child(lines + start, i - start, outpath);
			if (waitpid(pid, &st, 0) < 0) {
				perror("waitpid");
				return 2;
			}
			if (!(WIFEXITED(st) && WEXITSTATUS(st) == 0)) {
				/* drop a torn last line, if any */
				f = fopen(outpath, "r+");
				if (f != NULL) {
					long sz, keep;
					int c;

					fseek(f, 0, SEEK_END);
					sz = keep = ftell(f);
					while (keep > 0) {
						fseek(f, keep - 1, SEEK_SET);
						c = fgetc(f);
						if (c == '\n')
							break;
						keep--;
					}
					fclose(f);
					if (keep != sz && truncate(outpath, keep) < 0)
						perror("truncate");
				}
				f = fopen(outpath, "a");
				if (WIFSIGNALED(st))
					fprintf(f, "{\"e\":\"End\",\"why\":\"sig%d\"}\n", WTERMSIG(st));
				else
					fprintf(f, "{\"e\":\"End\",\"why\":\"exit%d\"}\n", WEXITSTATUS(st));
				fclose(f);
				if (WIFEXITED(st) && WEXITSTATUS(st) >= 97)
					return 2;	/* harness usage problem, not the library */
			}
			start = -1;
		}
	}
	return 0;
}
