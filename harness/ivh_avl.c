/* ivh_avl -- drives the REAL iv_avl_tree_insert / iv_avl_tree_delete /
 * iv_avl_tree_next / iv_avl_tree_prev / iv_avl_tree_min / iv_avl_tree_max of
 * /repo/src/iv_avl.c on trees given by direct pointer construction, and dumps
 * every field of every node object after every call (C16, DESIGN 4/C16).
 *
 * The harness decides nothing: it executes a script and reports what the
 * structure looks like.  All judging is done by TLC (spec/TraceAvl.tla, with
 * the predicates of spec/IvAvl.tla) and cross-checked by lib/check_c16.py.
 *
 * usage: ivh_avl -i script -o trace.ndjson
 * script, one command per line (node ids 1..N, 0 = NULL):
 *   N <n>                      n node objects, all poisoned (links point to the
 *                              node itself, height 170, key 0), empty tree
 *   T <root> <key l r p h>*n   set the tree by direct pointer construction
 *   I <node> <key>             node->key = key; iv_avl_tree_insert(tree, node)
 *   D <node>                   iv_avl_tree_delete(tree, node)
 *   #...                       comment
 * trace: one JSON object per N/T/I/D command:
 *   {"op":"set"|"ins"|"del","n":node,"key":k,"ret":r,"chg":c,"root":id,
 *    "left":[..],"right":[..],"parent":[..],"height":[..],"fwd":[..],"bwd":[..]}
 *   ("set" lines also carry "keys":[..]; afterwards keys change only by "ins")
 * a pointer is reported as the id of the node object it points to, 0 for NULL
 * and -1 for anything else; chg = number of node objects whose links differ
 * from before the call; fwd/bwd = the nodes visited by
 * min,next,next,... / max,prev,prev,... ([-1] if the harness did not dare to
 * walk because the links no longer form a tree -- walking a cyclic structure
 * with the real functions would never return).
 * Every real call runs under a 5 s CPU-time watchdog: a call that does not
 * return kills the process with SIGVTALRM, a wild pointer with SIGSEGV; the driver turns either
 * into a "crash" verdict for the command after the last complete trace line. */
#include <stdio.h>
#include <stdlib.h>
#include <string.h>
#include <unistd.h>
#include <sys/time.h>
#include <iv_avl.h>
#include <iv_list.h>

struct node {
	struct iv_avl_node	an;
	int			key;
};

#define MAXN	4096
#define POISON	170

static struct node *nodes;
static int nn;
static struct iv_avl_tree tree;
static FILE *out;
static unsigned long ncompare;

/* CPU-time watchdog (not wall time: a loaded machine must not look like a
 * hang): SIGVTALRM after `sec` seconds of user CPU time in this process. */
static void watchdog(int sec)
{
	struct itimerval it;

	memset(&it, 0, sizeof(it));
	it.it_value.tv_sec = sec;
	setitimer(ITIMER_VIRTUAL, &it, NULL);
}

static long cmp_scale;	/* N <n> <scale>: 0 = the comparator answers -1 / 0 / 1, else (a - b) * scale */

static int compare(const struct iv_avl_node *_a, const struct iv_avl_node *_b)
{
	const struct node *a = iv_container_of(_a, struct node, an);
	const struct node *b = iv_container_of(_b, struct node, an);

	ncompare++;
	if (cmp_scale != 0) {
		/* any negative / positive value is a valid answer of a comparator */
		long d = ((long)a->key - (long)b->key) * cmp_scale;
		return d < -2000000000L ? -2000000000 : d > 2000000000L ? 2000000000 : (int)d;
	}
	if (a->key < b->key)
		return -1;
	if (a->key > b->key)
		return 1;
	return 0;
}

static int id_of(const struct iv_avl_node *an)
{
	const struct node *p;
	long i;

	if (an == NULL)
		return 0;
	p = iv_container_of(an, struct node, an);
	if (p < nodes || p >= nodes + nn)
		return -1;
	if (((const char *)p - (const char *)nodes) % sizeof(struct node))
		return -1;
	i = p - nodes;
	return (int)i + 1;
}

static struct iv_avl_node *ptr_of(int id)
{
	return id > 0 && id <= nn ? &nodes[id - 1].an : NULL;
}

static void die(const char *msg, int line)
{
	fprintf(stderr, "ivh_avl: %s (script line %d)\n", msg, line);
	exit(2);
}

/* Is it safe to walk with next/prev?  (links in range, tree shaped) */
static int walkable(void)
{
	static unsigned char seen[MAXN + 1];
	static int stack[MAXN + 1];
	int sp = 0;
	int r = id_of(tree.root);

	memset(seen, 0, sizeof(seen));
	if (r < 0)
		return 0;
	if (r == 0)
		return 1;
	if (nodes[r - 1].an.parent != NULL)
		return 0;
	stack[sp++] = r;
	seen[r] = 1;
	while (sp) {
		int n = stack[--sp];
		struct iv_avl_node *an = &nodes[n - 1].an;
		int k;

		for (k = 0; k < 2; k++) {
			struct iv_avl_node *c = k ? an->right : an->left;
			int ci = id_of(c);

			if (ci < 0)
				return 0;
			if (ci == 0)
				continue;
			if (seen[ci] || c->parent != an)
				return 0;
			seen[ci] = 1;
			stack[sp++] = ci;
		}
	}
	return 1;
}

static void dump_field(const char *name, int which)
{
	int i;

	fprintf(out, ",\"%s\":[", name);
	for (i = 0; i < nn; i++) {
		int v;

		switch (which) {
		case 0: v = id_of(nodes[i].an.left); break;
		case 1: v = id_of(nodes[i].an.right); break;
		case 2: v = id_of(nodes[i].an.parent); break;
		case 3: v = nodes[i].an.height; break;
		default: v = nodes[i].key; break;
		}
		fprintf(out, i ? ",%d" : "%d", v);
	}
	fputc(']', out);
}

static void dump_walk(const char *name, int fwd, int ok)
{
	struct iv_avl_node *an;
	int cnt = 0;

	fprintf(out, ",\"%s\":[", name);
	if (!ok) {
		fprintf(out, "-1]");
		return;
	}
	watchdog(5);
	an = fwd ? iv_avl_tree_min(&tree) : iv_avl_tree_max(&tree);
	while (an != NULL && cnt <= nn) {
		fprintf(out, cnt ? ",%d" : "%d", id_of(an));
		cnt++;
		an = fwd ? iv_avl_tree_next(an) : iv_avl_tree_prev(an);
	}
	watchdog(0);
	fputc(']', out);
}

struct links { struct iv_avl_node *l, *r, *p; };
static struct links *before;

static void snapshot(void)
{
	int i;

	for (i = 0; i < nn; i++) {
		before[i].l = nodes[i].an.left;
		before[i].r = nodes[i].an.right;
		before[i].p = nodes[i].an.parent;
	}
}

static int changed(void)
{
	int i;
	int c = 0;

	for (i = 0; i < nn; i++)
		if (before[i].l != nodes[i].an.left ||
		    before[i].r != nodes[i].an.right ||
		    before[i].p != nodes[i].an.parent)
			c++;
	return c;
}

static void dump(const char *op, int n, int key, int ret, int chg)
{
	int ok;

	fprintf(out, "{\"op\":\"%s\",\"n\":%d,\"key\":%d,\"ret\":%d,\"chg\":%d,\"sc\":%ld,\"root\":%d",
		op, n, key, ret, chg, cmp_scale, id_of(tree.root));
	dump_field("left", 0);
	dump_field("right", 1);
	dump_field("parent", 2);
	dump_field("height", 3);
	if (op[0] == 's')
		dump_field("keys", 4);
	ok = walkable();
	dump_walk("fwd", 1, ok);
	dump_walk("bwd", 0, ok);
	fprintf(out, "}\n");
	/* a complete line must be on disk before the next real call can crash */
	fflush(out);
}

int main(int argc, char *argv[])
{
	const char *inp = NULL;
	const char *outp = NULL;
	FILE *in;
	char *line = NULL;
	size_t cap = 0;
	int lineno = 0;
	int c;

	while ((c = getopt(argc, argv, "i:o:")) != -1) {
		if (c == 'i')
			inp = optarg;
		else if (c == 'o')
			outp = optarg;
		else
			die("usage: ivh_avl -i script -o trace", 0);
	}
	in = inp ? fopen(inp, "r") : stdin;
	out = outp ? fopen(outp, "w") : stdout;
	if (in == NULL || out == NULL)
		die("cannot open files", 0);
	setvbuf(out, NULL, _IOFBF, 1 << 16);

	while (getline(&line, &cap, in) > 0) {
		char *s = line;
		char cmd;

		lineno++;
		while (*s == ' ')
			s++;
		cmd = *s;
		if (cmd == '#' || cmd == '\n' || cmd == 0)
			continue;
		s++;
		if (cmd == 'N') {
			int i;
			int n = (int)strtol(s, &s, 10);

			cmp_scale = strtol(s, &s, 10);
			if (n < 1 || n > MAXN)
				die("bad N", lineno);
			free(nodes);
			free(before);
			nn = n;
			nodes = calloc(nn, sizeof(*nodes));
			before = calloc(nn, sizeof(*before));
			if (nodes == NULL || before == NULL)
				die("out of memory", lineno);
			for (i = 0; i < nn; i++) {
				nodes[i].an.left = &nodes[i].an;
				nodes[i].an.right = &nodes[i].an;
				nodes[i].an.parent = &nodes[i].an;
				nodes[i].an.height = POISON;
				nodes[i].key = 0;
			}
			INIT_IV_AVL_TREE(&tree, compare);
			dump("set", 0, 0, 0, 0);
		} else if (cmd == 'T') {
			int i;
			int root;

			if (nodes == NULL)
				die("T before N", lineno);
			root = (int)strtol(s, &s, 10);
			if (root < 0 || root > nn)
				die("bad root", lineno);
			tree.root = ptr_of(root);
			for (i = 0; i < nn; i++) {
				long v[5];
				int k;

				for (k = 0; k < 5; k++) {
					char *e;

					v[k] = strtol(s, &e, 10);
					if (e == s)
						die("short T line", lineno);
					s = e;
				}
				if (v[1] < 0 || v[1] > nn || v[2] < 0 || v[2] > nn ||
				    v[3] < 0 || v[3] > nn || v[4] < 0 || v[4] > 255)
					die("bad T value", lineno);
				nodes[i].key = (int)v[0];
				nodes[i].an.left = ptr_of((int)v[1]);
				nodes[i].an.right = ptr_of((int)v[2]);
				nodes[i].an.parent = ptr_of((int)v[3]);
				nodes[i].an.height = (uint8_t)v[4];
			}
			dump("set", 0, 0, 0, 0);
		} else if (cmd == 'I') {
			int n = (int)strtol(s, &s, 10);
			int key = (int)strtol(s, &s, 10);
			int ret;

			if (nodes == NULL || n < 1 || n > nn)
				die("bad I", lineno);
			snapshot();
			nodes[n - 1].key = key;
			watchdog(5);
			ret = iv_avl_tree_insert(&tree, &nodes[n - 1].an);
			watchdog(0);
			dump("ins", n, key, ret, changed());
		} else if (cmd == 'D') {
			int n = (int)strtol(s, &s, 10);

			if (nodes == NULL || n < 1 || n > nn)
				die("bad D", lineno);
			snapshot();
			watchdog(5);
			iv_avl_tree_delete(&tree, &nodes[n - 1].an);
			watchdog(0);
			dump("del", n, 0, 0, changed());
		} else {
			die("unknown command", lineno);
		}
	}
	if (fflush(out) || ferror(out))
		die("write error", lineno);
	return 0;
}
