#!/usr/bin/env python3
"""Common machinery for the /verif checks: building the library from /repo's
working tree, running TLC, validating traces, writing evidence, reporting.

Only the Python standard library is used."""
import concurrent.futures as cf
import hashlib
import json
import os
import re
import shutil
import subprocess
import sys
import tempfile
import time

REPO = os.environ.get("VERIF_REPO", "/repo")
VERIF = os.path.dirname(os.path.dirname(os.path.abspath(__file__)))
SPEC = os.path.join(VERIF, "spec")
HARNESS = os.path.join(VERIF, "harness")
BUILD = os.path.join(VERIF, "build")
EVID = os.environ.get("VERIF_EVID_DIR", os.path.join(VERIF, "evidence"))
OUT = os.environ.get("VERIF_OUT_DIR", os.path.join(VERIF, "out"))
NCPU = os.cpu_count() or 4
GUARD = "IVYKIS_VERIF"

LIB_SRCS = ["iv_avl.c", "iv_event.c", "iv_fatal.c", "iv_task.c", "iv_timer.c",
            "iv_tls.c", "iv_work.c", "iv_event_raw_posix.c", "iv_fd.c",
            "iv_fd_poll.c", "iv_fd_pump.c", "iv_main_posix.c", "iv_popen.c",
            "iv_signal.c", "iv_thread_posix.c", "iv_tid_posix.c",
            "iv_time_posix.c", "iv_wait.c", "iv_fd_epoll.c", "iv_inotify.c"]

# every boundary symbol the virtual kernel interposes on (see DESIGN 3.2)
WRAPS = ["syscall", "epoll_create", "epoll_ctl", "epoll_wait", "epoll_pwait2",
         "poll", "ppoll", "timerfd_create", "timerfd_settime", "read", "write",
         "close", "pipe", "fcntl", "splice", "ioctl", "shutdown",
         "clock_gettime", "gettimeofday", "sigaction", "signal",
         "pthread_sigmask", "sigprocmask", "fork", "wait4", "kill", "getpid",
         "pthread_create", "pthread_join", "pthread_detach",
         "pthread_mutex_lock", "pthread_mutex_unlock", "pthread_spin_lock",
         "pthread_spin_unlock", "malloc", "calloc", "free", "strdup",
         "inotify_init", "inotify_add_watch", "inotify_rm_watch", "abort"]


class MachineryError(Exception):
    """A failure of the verification machinery itself (never a VIOLATION)."""


def log(*a):
    print(*a, file=sys.stderr, flush=True)


def sha(*chunks):
    h = hashlib.sha256()
    for c in chunks:
        h.update(c if isinstance(c, bytes) else str(c).encode())
        h.update(b"\0")
    return h.hexdigest()


def read(p, mode="r"):
    with open(p, mode) as f:
        return f.read()


def tree_hash(extra=()):
    """Hash of everything in /repo that influences a library build."""
    items = []
    srcdir = os.path.join(REPO, "src")
    for root, _d, files in os.walk(srcdir):
        for fn in sorted(files):
            if fn.endswith((".c", ".h", ".in")):
                p = os.path.join(root, fn)
                items.append((os.path.relpath(p, REPO), read(p, "rb")))
    cfg = os.path.join(REPO, "config.h")
    if os.path.exists(cfg):
        items.append(("config.h", read(cfg, "rb")))
    items.sort()
    h = hashlib.sha256()
    for n, b in items:
        h.update(n.encode() + b"\0" + b + b"\0")
    for e in extra:
        h.update(str(e).encode() + b"\0")
    return h.hexdigest()[:20]


def _gen_headers(incdir):
    """config.h and iv.h are generated files; fall back to kept copies."""
    os.makedirs(incdir, exist_ok=True)
    cfg = os.path.join(REPO, "config.h")
    if not os.path.exists(cfg):
        cfg = os.path.join(HARNESS, "fallback", "config.h")
    shutil.copy(cfg, os.path.join(incdir, "config.h"))
    ivh_in = os.path.join(REPO, "src", "include", "iv.h.in")
    txt = read(ivh_in).replace("@ac_cv_timespec_hdr@", "sys/time.h")
    with open(os.path.join(incdir, "iv.h"), "w") as f:
        f.write(txt)


def _run(cmd, **kw):
    return subprocess.run(cmd, stdout=subprocess.PIPE, stderr=subprocess.STDOUT,
                          text=True, **kw)


KIND_FLAGS = {
    "plain": ["-O1", "-g"],
    "rec": ["-O1", "-g", "-fsanitize=thread", "-fno-omit-frame-pointer"],
    "asan": ["-O1", "-g", "-fsanitize=address,undefined",
             "-fno-omit-frame-pointer", "-fno-sanitize-recover=undefined"],
    "cov": ["-O0", "-g", "--coverage"],
}


def _prune_builds(keep=24, max_age_s=3 * 3600):
    """Remove old build directories: never one used in the last 3 hours (it
    may belong to a concurrently running check), and keep the newest `keep`."""
    try:
        ds = [os.path.join(BUILD, d) for d in os.listdir(BUILD)]
    except FileNotFoundError:
        return
    ds = [d for d in ds if os.path.isdir(d)]
    ds.sort(key=lambda d: os.path.getmtime(d), reverse=True)
    now = time.time()
    for d in ds[keep:]:
        if now - os.path.getmtime(d) > max_age_s:
            shutil.rmtree(d, ignore_errors=True)


def build_lib(kind="plain", defines=(), srcs=None):
    """Compile the library's POSIX/Linux sources straight from /repo's
    working tree.  Returns (objdir, [objects], incdir).  Cached by content."""
    srcs = srcs or LIB_SRCS
    flags = KIND_FLAGS[kind] + ["-D_GNU_SOURCE", "-D" + GUARD, "-DHAVE_CONFIG_H",
                                "-fno-builtin-malloc", "-fno-builtin-free",
                                "-fno-builtin-calloc", "-fno-builtin-strdup",
                                "-fno-builtin-memmove", "-w"]
    flags += ["-D" + d for d in defines]
    key = tree_hash(flags + list(srcs))
    root = os.path.join(BUILD, key)
    objdir = os.path.join(root, "lib-" + kind)
    incdir = os.path.join(root, "inc")
    stamp = os.path.join(objdir, ".ok")
    objs = [os.path.join(objdir, s[:-2] + ".o") for s in srcs]
    if os.path.exists(stamp):
        os.utime(root)
        return objdir, objs, incdir
    os.makedirs(objdir, exist_ok=True)
    _gen_headers(incdir)
    inc = ["-I" + incdir, "-I" + os.path.join(REPO, "src", "include"),
           "-I" + os.path.join(REPO, "src")]

    def cc(s):
        o = os.path.join(objdir, s[:-2] + ".o")
        r = _run(["gcc"] + flags + inc + ["-c", os.path.join(REPO, "src", s), "-o", o])
        return s, r.returncode, r.stdout

    with cf.ThreadPoolExecutor(NCPU) as ex:
        res = list(ex.map(cc, srcs))
    bad = [(s, o) for s, rc, o in res if rc]
    if bad:
        raise MachineryError("library build failed (%s):\n%s" % (kind, "\n".join(o for _s, o in bad)))
    open(stamp, "w").close()
    _prune_builds()
    return objdir, objs, incdir


def build_harness(name, csrcs, kind="plain", wraps=(), defines=(), libs=(),
                  extra_cflags=(), lib_defines=()):
    """Compile harness sources and link them statically with the library
    objects, interposing on `wraps` with -Wl,--wrap.  Returns the binary."""
    objdir, objs, incdir = build_lib(kind, lib_defines)
    hs = sha(*[read(os.path.join(HARNESS, s), "rb") for s in csrcs],
             *[read(os.path.join(HARNESS, h), "rb") for h in sorted(os.listdir(HARNESS)) if h.endswith(".h")],
             kind, wraps, defines, libs, extra_cflags)[:12]
    root = os.path.dirname(objdir)
    exe = os.path.join(root, "%s-%s-%s" % (name, kind, hs))
    if os.path.exists(exe):
        return exe
    hflags = ["-O1", "-g", "-D_GNU_SOURCE", "-D" + GUARD, "-w"] + ["-D" + d for d in defines] + list(extra_cflags)
    if kind == "asan":
        hflags += ["-fsanitize=address,undefined"]
    if kind == "cov":
        hflags += ["--coverage"]
    inc = ["-I" + incdir, "-I" + os.path.join(REPO, "src", "include"),
           "-I" + os.path.join(REPO, "src"), "-I" + HARNESS]
    hobjs = []
    for s in csrcs:
        o = os.path.join(root, "h-%s-%s-%s.o" % (os.path.basename(s)[:-2], kind, hs))
        r = _run(["gcc"] + hflags + inc + ["-c", os.path.join(HARNESS, s), "-o", o])
        if r.returncode:
            raise MachineryError("harness compile failed: %s\n%s" % (s, r.stdout))
        hobjs.append(o)
    ld = ["gcc", "-o", exe + ".tmp"] + hobjs + objs + ["-pthread", "-no-pie"]
    if kind == "asan":
        ld += ["-fsanitize=address,undefined"]
    if kind == "cov":
        ld += ["--coverage"]
    ld += ["-Wl,--wrap=" + w for w in wraps] + list(libs)
    r = _run(ld)
    if r.returncode:
        raise MachineryError("harness link failed:\n" + r.stdout)
    os.rename(exe + ".tmp", exe)
    return exe


# ---------------------------------------------------------------- TLC
TLC_JAR = "/opt/veriftools/tla/tla2tools.jar:/opt/veriftools/tla/CommunityModules-deps.jar"


class Scratch:
    """Per-run scratch directory under /tmp, removed on exit."""

    def __init__(self, tag="verif"):
        self.dir = tempfile.mkdtemp(prefix="%s-%d-" % (tag, os.getpid()), dir="/tmp")

    def path(self, *a):
        p = os.path.join(self.dir, *a)
        os.makedirs(os.path.dirname(p), exist_ok=True)
        return p

    def sub(self, name):
        p = os.path.join(self.dir, name)
        os.makedirs(p, exist_ok=True)
        return p

    def cleanup(self):
        if os.environ.get("VERIF_KEEP_SCRATCH"):
            print("scratch kept: %s" % self.dir, file=sys.stderr)
            return
        shutil.rmtree(self.dir, ignore_errors=True)

    def __enter__(self):
        return self

    def __exit__(self, *a):
        self.cleanup()


_cnt = [0]
_cnt_lock = __import__("threading").Lock()


def tlc(module, cfg, scratch, workers=None, env=None, timeout=900, simulate=None,
        depth=None, seed=None, xmx="8g", extra=(), coverage=False, dfid=None,
        deque=False):
    """Run TLC on spec/<module>.tla with spec/<cfg>.  Returns a dict with the
    parsed summary.  Raises MachineryError on parse/semantic/evaluation errors
    (TLC exit codes other than 0 / 12 / 13 (violations))."""
    with _cnt_lock:
        _cnt[0] += 1
        mycnt = _cnt[0]
    meta = scratch.sub("tlc-meta-%d-%d" % (os.getpid(), mycnt))
    jtmp = scratch.sub("jtmp-%d-%d" % (os.getpid(), mycnt))
    workers = workers or NCPU
    jopts = ["-XX:+UseParallelGC", "-Xmx" + xmx, "-Xss16m", "-Djava.io.tmpdir=" + jtmp]
    if deque:
        jopts.append("-Dtlc2.tool.queue.IStateQueue=StateDeque")
    # (outer `timeout`: a TLC whose parent was killed must not live on)
    cmd = ["timeout", "-k", "5", str(int(timeout)), "java"] + jopts + ["-cp", TLC_JAR, "tlc2.TLC", "-workers", str(workers),
                              "-metadir", meta, "-config", cfg, "-noGenerateSpecTE"]
    if simulate:
        cmd += ["-simulate", simulate]
    if depth:
        cmd += ["-depth", str(depth)]
    if seed is not None:
        cmd += ["-seed", str(seed)]
    if coverage:
        cmd += ["-coverage", "1"]
    cmd += list(extra) + [module]
    e = dict(os.environ)
    e.pop("JAVA_TOOL_OPTIONS", None)
    if env:
        e.update({k: str(v) for k, v in env.items()})
    t0 = time.time()
    timed_out = False
    try:
        p = subprocess.run(cmd, cwd=SPEC, env=e, stdout=subprocess.PIPE,
                           stderr=subprocess.STDOUT, text=True, timeout=timeout + 120)
        out, rc = p.stdout, p.returncode
        if rc in (124, 137) and time.time() - t0 >= timeout - 1:
            rc, timed_out = -9, True       # ended by the outer `timeout`
    except subprocess.TimeoutExpired as ex:
        out = ex.stdout.decode() if isinstance(ex.stdout, bytes) else (ex.stdout or "")
        rc, timed_out = -9, True
    shutil.rmtree(meta, ignore_errors=True)
    shutil.rmtree(jtmp, ignore_errors=True)
    res = {"rc": rc, "out": out, "wall_s": time.time() - t0, "timed_out": timed_out,
           "generated": 0, "distinct": 0, "depth": 0, "violated": [], "cmd": " ".join(cmd)}
    m = None
    for m in re.finditer(r"(\d+) states generated, (\d+) distinct states found", out):
        pass
    if m:
        res["generated"], res["distinct"] = int(m.group(1)), int(m.group(2))
    else:
        for m in re.finditer(r"Progress\(\d+\)[^:]*: (\d+) states generated[^,]*, (\d+) distinct", out.replace(",", "")):
            pass
    m = re.search(r"depth of the complete state graph search is (\d+)", out)
    if m:
        res["depth"] = int(m.group(1))
    res["violated"] = re.findall(r"Invariant (\S+) is violated", out) + \
        re.findall(r"Action property (\S+) is violated", out) + \
        (["<temporal>"] if "Temporal properties were violated" in out else [])
    if "Deadlock reached" in out:
        res["violated"].append("<deadlock>")
    res["complete"] = ("Model checking completed" in out) and not timed_out
    bad_rc = rc not in (0, 10, 11, 12, 13, -9)
    if bad_rc or "Parsing or semantic analysis failed" in out or \
            ("Error: " in out and not res["violated"] and rc != 0 and not timed_out):
        raise MachineryError("TLC failed (rc=%s) on %s/%s:\n%s" % (rc, module, cfg, out[-6000:]))
    return res


def tlc_coverage(out):
    """Parse -coverage 1 output: {action: (taken, generated)} (last report)."""
    cov = {}
    for m in re.finditer(r"<(\w+) line \d+, col \d+ to line \d+, col \d+ of module (\w+)>: (\d+):(\d+)", out):
        cov[m.group(1)] = (int(m.group(3)), int(m.group(4)))
    return cov


def printed(out, tag):
    """Lines printed by PrintT("TAG ...") (TLC prints strings with quotes)."""
    res = []
    for ln in out.splitlines():
        s = ln.strip()
        if s.startswith('"' + tag + ' '):
            s = s[1:-1] if s.endswith('"') else s[1:]
            res.append(s[len(tag) + 1:].replace('\\"', '"').replace("\\\\", "\\"))
        elif s.startswith(tag + ' '):
            res.append(s[len(tag) + 1:])
    return res


def parallel(fn, items, nproc=None):
    with cf.ThreadPoolExecutor(nproc or NCPU) as ex:
        return list(ex.map(fn, items))


# ---------------------------------------------------------------- findings
def known_findings():
    p = os.path.join(VERIF, "known_findings.json")
    if not os.path.exists(p):
        return {"open": [], "fixed": []}
    return json.load(open(p))


class Report:
    """Collects violations for one property check and produces the exit code,
    the VIOLATION / KNOWN-FINDING lines and the evidence file."""

    def __init__(self, pid, tier, seed, level="model_checking"):
        self.pid, self.tier, self.seed, self.level = pid, tier, seed, level
        self.t0 = time.time()
        self.viol = []       # (signature, replay path, description)
        self.cov = {"samples": []}
        self.assumptions = []
        self.kf = known_findings()

    def violation(self, signature, replay, desc=""):
        self.viol.append((signature, replay, desc))

    def add(self, **kw):
        for k, v in kw.items():
            if isinstance(v, int) and isinstance(self.cov.get(k), int):
                self.cov[k] += v
            else:
                self.cov[k] = v

    def sample(self, s):
        if len(self.cov["samples"]) < 6:
            self.cov["samples"].append(s)

    def finish(self):
        known = {e["signature"]: e for e in self.kf.get("open", []) if e["property"] == self.pid}
        unknown = []
        seen = set()
        for sig, replay, desc in self.viol:
            if sig in known:
                if sig not in seen:
                    print("KNOWN-FINDING: property=%s %s" % (self.pid, known[sig]["what"]), flush=True)
                seen.add(sig)
            else:
                unknown.append((sig, replay, desc))
        ev = {"property_id": self.pid, "tier": self.tier, "seed": int(self.seed),
              "level": self.level, "coverage": self.cov,
              "assumptions": self.assumptions,
              "wall_s": round(time.time() - self.t0, 2),
              "violations": len(unknown)}
        if not self.cov.get("samples"):
            self.cov["samples"] = ["(none recorded)"]
        os.makedirs(EVID, exist_ok=True)
        with open(os.path.join(EVID, self.pid + ".json"), "w") as f:
            json.dump(ev, f, indent=1, sort_keys=True)
            f.write("\n")
        done = set()
        for sig, replay, desc in unknown:
            if sig in done:
                continue
            done.add(sig)
            print("VIOLATION property=%s replay=%s  # %s %s" % (self.pid, replay, sig, desc), flush=True)
        return 1 if unknown else 0


def save_replay(pid, obj, tag=None):
    os.makedirs(os.path.join(OUT, "replay"), exist_ok=True)
    s = json.dumps(obj, sort_keys=True)
    p = os.path.join(OUT, "replay", "%s-%s.json" % (pid, tag or sha(s)[:10]))
    with open(p, "w") as f:
        f.write(s + "\n")
    return p


# ---------------------------------------------------------------- traces
def validate_traces(trace_files, scratch, module="TraceAll.tla", cfg="TraceAll.cfg",
                    nproc=None, timeout=900):
    """Run TLC trace validation on each ndjson file (one JVM per file, in
    parallel).  Returns (verdicts, total_events): verdicts is a list of dicts
    {id, why, viols, seen, file}.  Raises MachineryError if TLC did not
    consume a trace completely."""
    def one(tf):
        nlines = sum(1 for _ in open(tf))
        if nlines == 0:
            return [], 0
        r = tlc(module, cfg, scratch, workers=1, env={"TRACE": tf}, timeout=timeout, xmx="3g")
        if r["distinct"] != nlines + 1 or r["violated"]:
            raise MachineryError("trace %s not fully consumed: %d lines, %d states, violated=%s\n%s" %
                                 (tf, nlines, r["distinct"], r["violated"], r["out"][-3000:]))
        vs = []
        for s in printed(r["out"], "VERDICT"):
            v = json.loads(s)
            v["file"] = tf
            vs.append(v)
        return vs, nlines
    # split very large files at execution boundaries (TLC holds the whole trace in memory) ...
    MAXL = 60000
    split_files = []
    sdir = None
    for tf in trace_files:
        n = sum(1 for _ in open(tf))
        if n <= MAXL * 2:
            split_files.append(tf)
            continue
        if sdir is None:
            sdir = scratch.sub("split-%d" % len(os.listdir(scratch.dir)))
        part, out, cnt = 0, None, 0
        with open(tf, "rb") as f:
            for ln in f:
                if out is None or (cnt >= MAXL and ln.startswith(b'{') and b'"Reset"' in ln[:40]):
                    if out:
                        out.close()
                    pp = os.path.join(sdir, "%s.p%d.ndjson" % (os.path.basename(tf)[:-7] + "-%d" % len(split_files), part))
                    out = open(pp, "wb")
                    split_files.append(pp)
                    part += 1
                    cnt = 0
                out.write(ln)
                cnt += 1
        if out:
            out.close()
    trace_files = split_files
    # ... and bundle many small files into few TLC runs (JVM start-up dominates)
    sizes = [(tf, sum(1 for _ in open(tf))) for tf in trace_files]
    total = sum(n for _tf, n in sizes)
    target = max(2000, min(50000, total // (2 * (nproc or NCPU)) + 1))
    bundles, cur, curn = [], [], 0
    for tf, n in sizes:
        if n == 0:
            continue
        if cur and curn + n > target:
            bundles.append(cur)
            cur, curn = [], 0
        cur.append(tf)
        curn += n
    if cur:
        bundles.append(cur)
    bdir = scratch.sub("bundles-%d" % len(os.listdir(scratch.dir)))
    files = []
    for i, b in enumerate(bundles):
        if len(b) == 1:
            files.append(b[0])
            continue
        bp = os.path.join(bdir, "b%d.ndjson" % i)
        with open(bp, "wb") as out:
            for tf in b:
                with open(tf, "rb") as f:
                    shutil.copyfileobj(f, out)
        files.append(bp)
    res = parallel(one, files, nproc or NCPU)
    verdicts = [v for vs, _n in res for v in vs]
    return verdicts, sum(n for _vs, n in res)


def save_replay_text(pid, text, ext="scr"):
    os.makedirs(os.path.join(OUT, "replay"), exist_ok=True)
    p = os.path.join(OUT, "replay", "%s-%s.%s" % (pid, sha(text)[:10], ext))
    with open(p, "w") as f:
        f.write(text)
    return p
