--------------------------- MODULE IvInotify ---------------------------
(* System model of src/iv_inotify.c, shaped like the code, at the granularity
   of one step per OBSERVABLE event (the alphabet of MonInotify): every step
   emits exactly one event into `ev`; the silent decisions of the parse loop
   between two events (records whose wd is not in the watch set, the
   `this == NULL` test, the final `this->term = NULL`) are folded into Loop().

     p.pc      idle      not inside iv_inotify_got_event (API calls, kernel activity, read)
               api       inside an iv_inotify_* call (p.call), returns to p.ctx
               deliver   parse loop found the watch for the record at p.curr:
                         about to (remove it and) call its handler
               handler   inside a watch handler (API calls allowed)
               fault     the code is about to dereference an invalid pointer
               crashed / ended   terminal
     p.inst    none | reg | unreg           struct iv_inotify
     p.term    this->term:  garbage (never written), null, stack (= &this of the
               running iv_inotify_got_event)
     p.this    the parse loop's local `this` is still non-NULL
     p.set     this->watches: set of [o, wd, os] keyed by wd (the AVL tree, C16)
     p.usr     ghost: the objects the USER may still unregister (registered
               through the API and not yet reported gone by IN_IGNORED / one-shot)
     p.buf     event_queue[] of the last read, as CELLS of sizeof(struct
               inotify_event) bytes: a record is one header cell followed by
               `len` name cells (the kernel pads names to a multiple of the
               header size).  A name cell read as a header has wd = the first
               four name bytes (`al`), mask 0, len 0.
     p.curr    the parse pointer (cell index);  p.recs  the records of the read
     p.kq      kernel queue: records produced since the last read
     p.nextwd / p.nexto   next watch descriptor of the kernel / next object id

   Variant = "code" is the algorithm of the repository.  The other variants
   are single-site deviations used to show that the monitor is not vacuous on
   the model (each must make MC_Inotify fail): stride-fixed (event->len
   ignored), oneshot-stays, ignored-stays (watch left in the set), no-break
   (loop continues after the instance was unregistered -> NULL dereference),
   no-term (unregister does not reset the loop's instance pointer).

   TermInit: value of this->term after iv_inotify_register().  The code never
   writes it, so it is whatever the memory held: "garbage" (faithful; for an
   instance in zeroed memory it happens to be "null").  With "garbage",
   iv_inotify_unregister() outside the event handler stores through a wild
   pointer: undefined behaviour, modelled as "may crash". *)
EXTENDS Naturals, Integers, Sequences, FiniteSets, TLC

CONSTANTS MaxWd,      \* watch descriptors the kernel hands out (1..MaxWd)
          MaxObj,     \* watch objects the user allocates (1..MaxObj)
          MaxBatch,   \* records per read
          MaxReads,   \* reads per behaviour
          MaxLen,     \* name cells per record (0..MaxLen)
          Aliases,    \* values of the first name cell when read as a wd
          TermInit,   \* "garbage" | "null"
          Variant

VARIABLES p, ev

Start ==
  [ pc |-> "idle", ctx |-> "idle", inst |-> "none", term |-> "null", this |-> FALSE,
    set |-> {}, usr |-> {}, buf |-> <<>>, recs |-> <<>>, curr |-> 1, cur |-> 0,
    call |-> [op |-> "", o |-> 0, os |-> 0], kq |-> <<>>, nextwd |-> 1, nexto |-> 1,
    reads |-> 0 ]

(* ---- events ---- *)
EvApiB(op, o, os) == [e |-> "ApiB", op |-> op, o |-> o, os |-> os]
EvApiE(op, o, os, wd, ret) == [e |-> "ApiE", op |-> op, o |-> o, os |-> os, wd |-> wd, ret |-> ret]
EvFs(r) == [e |-> "Fs", rec |-> r]
EvRead(recs) == [e |-> "Read", recs |-> recs]
EvCbB(o, r) == [e |-> "CbB", o |-> o, wd |-> r.wd, ign |-> r.ign, lc |-> r.lc, mask |-> r.mask,
                ck |-> r.ck, name |-> r.name]
EvCbE(o) == [e |-> "CbE", o |-> o]
EvEnd(why) == [e |-> "End", why |-> why]

(* a kernel record as the wrapped read() logs it *)
Rec(wd, ign, lc, al) ==
  [wd |-> wd, ign |-> ign, lc |-> lc, al |-> al, mask |-> IF ign = 1 THEN 32768 ELSE 2, ck |-> 0,
   name |-> IF lc > 0 THEN "n" \o ToString(al) ELSE ""]
(* what the code sees when it takes a name cell for a record *)
Garbage(al) == [wd |-> al, ign |-> 0, lc |-> 0, al |-> 0, mask |-> 0, ck |-> 0, name |-> ""]

NameCells(r) ==
  [i \in 1..r.lc |-> [h |-> FALSE, wd |-> IF i = 1 THEN r.al ELSE 0, ign |-> 0, len |-> 0, ri |-> 0]]
RECURSIVE CellsFrom(_, _)
CellsFrom(recs, i) ==
  IF i > Len(recs) THEN <<>>
  ELSE <<[h |-> TRUE, wd |-> recs[i].wd, ign |-> recs[i].ign, len |-> recs[i].lc, ri |-> i]>>
       \o NameCells(recs[i]) \o CellsFrom(recs, i + 1)
Cells(recs) == CellsFrom(recs, 1)

Objs(s) == {x.o : x \in s}
Find(s, wd) == {x \in s : x.wd = wd}            \* __find_watch: at most one element
Watch(q) == CHOOSE x \in Find(q.set, q.buf[q.curr].wd) : TRUE
Delivered(q) == LET c == q.buf[q.curr] IN IF c.h THEN q.recs[c.ri] ELSE Garbage(c.wd)

(* curr += event->len + sizeof(struct inotify_event) *)
Stride(c) == IF Variant = "stride-fixed" THEN 1 ELSE 1 + c.len

(* top of `while (curr < end)`: skip records without a watch; leave the loop
   at the end of the buffer (`if (this != NULL) this->term = NULL`) *)
RECURSIVE Loop(_)
Loop(q) ==
  IF q.curr > Len(q.buf)
  THEN [q EXCEPT !.pc = "idle", !.buf = <<>>, !.recs = <<>>, !.curr = 1, !.cur = 0, !.this = FALSE,
                 !.term = IF q.this THEN "null" ELSE @]
  ELSE IF ~q.this
  THEN [q EXCEPT !.pc = "fault"]                \* only variant no-break gets here: __find_watch(NULL)
  ELSE IF Find(q.set, q.buf[q.curr].wd) # {}
  THEN [q EXCEPT !.pc = "deliver"]
  ELSE Loop([q EXCEPT !.curr = @ + Stride(q.buf[q.curr])])

(* after w->handler() returned: advance, `if (this == NULL) break;` *)
AfterHandler(q) ==
  LET q1 == [q EXCEPT !.curr = @ + Stride(q.buf[q.curr]), !.cur = 0] IN
  IF ~q1.this /\ Variant # "no-break"
  THEN [q1 EXCEPT !.pc = "idle", !.buf = <<>>, !.recs = <<>>, !.curr = 1]
  ELSE Loop(q1)

(* ---- the API calls (effects at return) ---- *)
ApiReturn(q, e) ==
  LET c == q.call IN
  CASE c.op = "ireg" ->
         [q EXCEPT !.pc = q.ctx, !.inst = "reg", !.set = {}, !.usr = {}, !.term = TermInit]
    [] c.op = "wreg" ->
         IF e.ret = 0
         THEN [q EXCEPT !.pc = q.ctx, !.set = @ \cup {[o |-> c.o, wd |-> e.wd, os |-> c.os]},
                        !.usr = @ \cup {c.o},
                        !.nextwd = IF e.wd >= @ THEN e.wd + 1 ELSE @,
                        !.nexto = IF c.o >= @ THEN c.o + 1 ELSE @]
         ELSE [q EXCEPT !.pc = q.ctx, !.nexto = IF c.o >= @ THEN c.o + 1 ELSE @]
    [] c.op = "wunreg" ->
         [q EXCEPT !.pc = q.ctx, !.set = {x \in @ : x.o # c.o}, !.usr = @ \ {c.o}]
    [] OTHER ->      \* iunreg: if (this->term != NULL) *this->term = NULL
         [q EXCEPT !.pc = q.ctx, !.inst = "unreg", !.usr = {},
                   !.this = IF q.term = "stack" /\ Variant # "no-term" THEN FALSE ELSE @]

InHandlerCtx(q) == q.pc = "handler" \/ (q.pc = "api" /\ q.ctx = "handler")

Enabled(q, e) ==
  CASE e.e = "ApiB" ->
         /\ q.pc \in {"idle", "handler"}
         /\ CASE e.op = "ireg" -> q.pc = "idle" /\ q.inst = "none"
              [] e.op = "wreg" -> q.inst = "reg" /\ e.o \notin Objs(q.set) /\ e.os \in {0, 1}
              [] e.op = "wunreg" -> q.inst = "reg" /\ e.o \in q.usr
              [] e.op = "iunreg" -> q.inst = "reg"
              [] OTHER -> FALSE
    [] e.e = "ApiE" ->
         /\ q.pc = "api" /\ e.op = q.call.op /\ e.o = q.call.o
         /\ e.op = "wreg" /\ e.ret = 0 => Find(q.set, e.wd) = {}
         /\ e.op # "wreg" => e.ret = 0
    [] e.e = "Fs" -> q.pc \in {"idle", "handler"}
    [] e.e = "Read" -> /\ q.pc = "idle" /\ q.inst = "reg"
                       /\ (q.kq = <<>> \/ e.recs = q.kq)
    [] e.e = "CbB" -> /\ q.pc = "deliver"
                      /\ LET r == Delivered(q) IN
                         /\ e.o = Watch(q).o /\ e.wd = r.wd /\ e.ign = r.ign /\ e.lc = r.lc
                         /\ e.mask = r.mask /\ e.ck = r.ck /\ e.name = r.name
    [] e.e = "CbE" -> q.pc = "handler" /\ e.o = q.cur
    [] e.e = "End" ->
         (CASE e.why = "ok" -> q.pc = "idle"
            [] e.why = "crash" ->
                 \/ q.pc = "fault"
                 \/ q.pc = "api" /\ q.call.op = "iunreg" /\ q.term = "garbage"
            [] OTHER -> FALSE)
    [] OTHER -> FALSE

Apply(q, e) ==
  CASE e.e = "ApiB" -> [q EXCEPT !.ctx = q.pc, !.pc = "api", !.call = [op |-> e.op, o |-> e.o, os |-> e.os]]
    [] e.e = "ApiE" -> ApiReturn(q, e)
    [] e.e = "Fs" -> IF "rec" \in DOMAIN e THEN [q EXCEPT !.kq = Append(@, e.rec)] ELSE q
    [] e.e = "Read" ->
         IF Len(e.recs) = 0 THEN q            \* EAGAIN: got_event returns at once
         ELSE Loop([q EXCEPT !.buf = Cells(e.recs), !.recs = e.recs, !.curr = 1, !.kq = <<>>,
                             !.term = "stack", !.this = TRUE, !.reads = @ + 1])
    [] e.e = "CbB" ->
         LET w == Watch(q)
             c == q.buf[q.curr]
             drop == \/ c.ign = 1 /\ Variant # "ignored-stays"
                     \/ w.os = 1 /\ Variant # "oneshot-stays"
             gone == c.ign = 1 \/ w.os = 1     \* what the user concludes from mask / its own flag
         IN [q EXCEPT !.pc = "handler", !.cur = w.o,
                      !.set = IF drop THEN @ \ {w} ELSE @,
                      !.usr = IF gone THEN @ \ {w.o} ELSE @]
    [] e.e = "CbE" -> AfterHandler(q)
    [] e.e = "End" -> [q EXCEPT !.pc = IF e.why = "ok" THEN "ended" ELSE "crashed"]
    [] OTHER -> q

Fire(e) == Enabled(p, e) /\ p' = Apply(p, e) /\ ev' = e

(* ---- actions: the environment's choices are the existential quantifiers ---- *)
InHandler == p.pc = "handler"
Outside == p.pc = "idle"
CanReg == p.inst = "reg" /\ p.nexto <= MaxObj /\ p.nextwd <= MaxWd

InstRegister == Fire(EvApiB("ireg", 0, 0))
RegOutside == Outside /\ CanReg /\ \E os \in {0, 1} : Fire(EvApiB("wreg", p.nexto, os))
UnregOutside == Outside /\ \E o \in p.usr : Fire(EvApiB("wunreg", o, 0))
InstUnregOutside == Outside /\ Fire(EvApiB("iunreg", 0, 0))
(* handler reactions *)
ReactRegNew == InHandler /\ CanReg /\ \E os \in {0, 1} : Fire(EvApiB("wreg", p.nexto, os))
ReactUnregSelf == InHandler /\ p.cur \in p.usr /\ Fire(EvApiB("wunreg", p.cur, 0))
ReactUnregOther == InHandler /\ \E o \in p.usr \ {p.cur} : Fire(EvApiB("wunreg", o, 0))
ReactUnregInst == InHandler /\ Fire(EvApiB("iunreg", 0, 0))
ReactNothing == InHandler /\ Fire(EvCbE(p.cur))     \* (also: return after the reactions)
ApiEnd ==
  /\ p.pc = "api"
  /\ IF p.call.op = "wreg" THEN Fire(EvApiE("wreg", p.call.o, p.call.os, p.nextwd, 0))
     ELSE Fire(EvApiE(p.call.op, p.call.o, p.call.os, -1, 0))
(* the kernel queues a record for a descriptor it has handed out *)
KernelEvent ==
  /\ Outside /\ p.inst = "reg" /\ Len(p.kq) < MaxBatch /\ p.reads < MaxReads
  /\ \E wd \in 1..(p.nextwd - 1), ign \in {0, 1}, lc \in 0..MaxLen :
       \E al \in (IF lc = 0 THEN {0} ELSE Aliases) : Fire(EvFs(Rec(wd, ign, lc, al)))
ReadBatch == Outside /\ p.kq # <<>> /\ Fire(EvRead(p.kq))
Deliver == p.pc = "deliver" /\ Fire(EvCbB(Watch(p).o, Delivered(p)))
Finish == Fire(EvEnd("ok"))
Crash == Fire(EvEnd("crash"))

Init == p = Start /\ ev = [e |-> "none"]

Next == \/ InstRegister \/ RegOutside \/ UnregOutside \/ InstUnregOutside
        \/ ReactRegNew \/ ReactUnregSelf \/ ReactUnregOther \/ ReactUnregInst \/ ReactNothing
        \/ ApiEnd \/ KernelEvent \/ ReadBatch \/ Deliver \/ Finish \/ Crash

(* ---- structural invariants ---- *)
PCs == {"idle", "api", "deliver", "handler", "fault", "crashed", "ended"}
TypeOK ==
  /\ p.pc \in PCs /\ p.ctx \in {"idle", "handler"} /\ p.inst \in {"none", "reg", "unreg"}
  /\ p.term \in {"garbage", "null", "stack"} /\ p.this \in BOOLEAN
  /\ \A x \in p.set : x.o \in 1..MaxObj /\ x.wd \in 1..MaxWd /\ x.os \in {0, 1}
  /\ p.usr \subseteq 1..MaxObj /\ p.cur \in 0..MaxObj
  /\ Len(p.kq) <= MaxBatch /\ Len(p.recs) <= MaxBatch /\ p.curr >= 1
  /\ p.nextwd \in 1..(MaxWd + 1) /\ p.nexto \in 1..(MaxObj + 1) /\ p.reads \in 0..MaxReads

Live == p.pc \notin {"crashed", "ended", "fault"}
Structure ==
  (* the set is keyed by wd and by object *)
  /\ \A x, y \in p.set : (x.wd = y.wd \/ x.o = y.o) => x = y
  (* while the instance lives, the library's set is exactly what the user may unregister *)
  /\ (Variant = "code" /\ p.inst = "reg") => Objs(p.set) = p.usr
  /\ p.inst # "reg" => p.usr = {}
  (* the termination pointer is armed exactly while the parse loop runs *)
  /\ (Live /\ p.inst = "reg" /\ (p.pc \in {"deliver", "handler"} \/ InHandlerCtx(p)))
       => (p.term = "stack" /\ p.this)
  /\ (p.inst = "reg" /\ (p.pc = "idle" \/ (p.pc = "api" /\ p.ctx = "idle")))
       => (p.term \in {"null", TermInit} /\ ~p.this)
  (* the parse pointer is always on a record header (never inside a name) *)
  /\ (Variant = "code" /\ p.pc \in {"deliver", "handler"}) => (p.curr <= Len(p.buf) /\ p.buf[p.curr].h)
  /\ Variant = "code" => p.pc # "fault"
=============================================================================
