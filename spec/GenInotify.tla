--------------------------- MODULE GenInotify ---------------------------
(* Script generation: the IvInotify model with a history variable recording
   the environment's choices.  Every terminal state prints its history as
   "GEN <tokens>":
     rw<o>.<os>   register watch object o (os = 1: IN_ONESHOT)
     uw<o>        unregister watch object o          ui   unregister the instance
     k<wd>.<ign>.<lc>.<al>   the kernel queues a record for descriptor wd
     rd           the loop reads the queued records
     [<o> ... ]   handler of object o runs; the tokens in between are its reactions
   In BFS this prints every environment program within the bound exactly once;
   with -simulate it prints random deep ones.  MaxOps bounds the API calls
   per program, Outside = FALSE forbids unregistering the instance outside a
   handler (the scenario family of the uninitialised this->term). *)
EXTENDS IvInotify

CONSTANTS MaxOps, OutsideUnreg

VARIABLES hist, ops
gvars == <<p, ev, hist, ops>>

Tok(e) ==
  CASE e.e = "ApiB" /\ e.op = "wreg" -> "rw" \o ToString(e.o) \o "." \o ToString(e.os) \o ";"
    [] e.e = "ApiB" /\ e.op = "wunreg" -> "uw" \o ToString(e.o) \o ";"
    [] e.e = "ApiB" /\ e.op = "iunreg" -> "ui;"
    [] e.e = "Fs" -> "k" \o ToString(e.rec.wd) \o "." \o ToString(e.rec.ign) \o "." \o ToString(e.rec.lc)
                         \o "." \o ToString(e.rec.al) \o ";"
    [] e.e = "Read" -> "rd;"
    [] e.e = "CbB" -> "[" \o ToString(e.o) \o ";"
    [] e.e = "CbE" -> "];"
    [] OTHER -> ""

IsOp(e) == e.e = "ApiB" /\ e.op # "ireg"

Allowed(e) ==
  CASE IsOp(e) -> /\ ops < MaxOps
                  /\ (e.op = "iunreg" /\ p.pc = "idle") => OutsideUnreg
    (* a program ends when nothing is queued any more and something was read, or the instance is gone *)
    [] e.e = "End" /\ e.why = "ok" -> p.kq = <<>> /\ (p.reads > 0 \/ p.inst = "unreg")
    [] OTHER -> TRUE

GInit == Init /\ hist = "" /\ ops = 0

GNext == /\ Next
         /\ Allowed(ev')
         /\ hist' = hist \o Tok(ev')
         /\ ops' = IF IsOp(ev') THEN ops + 1 ELSE ops

GSpec == GInit /\ [][GNext]_gvars

Terminal == p.pc \in {"ended", "crashed"}
Emit == Terminal => PrintT("GEN " \o hist)
=============================================================================
