#!/usr/bin/env python3
"""C14: multi-threaded scenario programs run on the instrumented build with
word-level access recording; spec/TraceSync.tla (vector clocks over the
recorded synchronisation operations) decides whether two conflicting accesses
are unordered.  This module only renumbers objects and drops locations that a
single thread touches (they cannot race)."""
import collections
import json
import os
import random
import sys

sys.path.insert(0, os.path.dirname(os.path.abspath(__file__)))
import vlib
import coregen
import corerun
import rescheck

# one-way feature-detection / initialisation flags the property excludes
EXEMPT = {"inited", "epoll_support", "epoll_pwait2_support", "eventfd_in_use", "pipe2_support", "splice_available",
          "iv_event_use_event_raw", "method", "clock_source", "iv_state_key_allocated", "last_offset"}


def regkey(desc):
    return ("s", desc[1]) if desc[0] == "s" else tuple(desc)


MAXEV = 40000


def preprocess(tf, out):
    """rewrite one harness trace file into TraceSync input; locations are the
    individual bytes that more than one thread touches and somebody writes.
    Returns {execution id: {loc id: (region, byte offset)}}"""
    execs, cur = [], None
    for ln in open(tf):
        try:
            e = json.loads(ln)
        except ValueError:
            continue
        if e["e"] == "Reset":
            cur = {"id": e["id"], "ev": []}
            execs.append(cur)
        elif cur is not None and e["e"] in ("Sy", "Acc", "End"):
            # a runaway execution is analysed up to MAXEV events: the happens-before relation of a
            # prefix is the restriction of the whole one, so a race found in the prefix is a race
            if len(cur["ev"]) < MAXEV or e["e"] == "End":
                cur["ev"].append(e)
    names = {}
    with open(out, "w") as f:
        for ex in execs:
            thr = collections.defaultdict(set)
            wr = set()
            for e in ex["ev"]:
                if e["e"] == "Acc":
                    for ent in e["a"]:
                        d, w, off, sz = ent[0], ent[1], ent[2], (ent[3] if len(ent) > 3 else 8)
                        if d[0] in ("h", "s", "u"):
                            rk = regkey(d)
                            for b in range(off, off + min(sz, 4096)):
                                thr[(rk, b)].add(e["t"])
                                if w:
                                    wr.add((rk, b))
            shared = sorted(k for k in thr if len(thr[k]) > 1 and k in wr)
            if len(shared) > 6000:
                shared = shared[:6000]
            lid = {k: i + 1 for i, k in enumerate(shared)}
            names[ex["id"]] = {i: k for k, i in lid.items()}
            sync = {}
            for e in ex["ev"]:
                if e["e"] == "Sy" and e["op"] not in ("create", "exit", "join", "begin"):
                    sync.setdefault(e["x"], len(sync) + 1)
            f.write(json.dumps({"e": "Reset", "id": ex["id"], "nloc": len(lid), "nsync": len(sync)}) + "\n")
            for e in ex["ev"]:
                t = e["t"]
                if e["e"] == "End":
                    f.write(json.dumps({"e": "End", "why": e["why"]}) + "\n")
                    continue
                if t >= 16:
                    continue
                if e["e"] == "Sy":
                    if e["op"] in ("create", "exit", "join", "begin"):
                        if e["x"] >= 16:
                            continue
                        f.write(json.dumps({"e": "Sy", "t": t, "op": e["op"], "x": e["x"]}) + "\n")
                    else:
                        f.write(json.dumps({"e": "Sy", "t": t, "op": e["op"], "x": sync[e["x"]]}) + "\n")
                elif e["e"] == "Acc":
                    w, r = {}, {}
                    for ent in e["a"]:
                        d, iswr, off, sz = ent[0], ent[1], ent[2], (ent[3] if len(ent) > 3 else 8)
                        if d[0] not in ("h", "s", "u"):
                            continue
                        rk = regkey(d)
                        exm = 1 if (d[0] == "s" and d[1] in EXEMPT) else 0
                        for b in range(off, off + min(sz, 4096)):
                            i = lid.get((rk, b))
                            if i:
                                (w if iswr else r)[i] = exm
                    if w or r:
                        f.write(json.dumps({"e": "Acc", "t": t, "w": [[i, x] for i, x in sorted(w.items())],
                                            "r": [[i, x] for i, x in sorted(r.items()) if i not in w]}) + "\n")
    return names


def gen(tier, seed):
    rnd = random.Random(seed * 31 + 5)
    import mtcheck
    import workcheck
    import sigcheck
    scripts = []
    k = 80 if tier == "quick" else 400
    for i in range(k):
        m = rnd.choice(coregen.METHODS)
        scripts.append(rescheck.with_opts(mtcheck.random_mt_script(rnd, "C14e%d.%d" % (seed, i), "C08", m, []), "memrec=2"))
        scripts.append(rescheck.with_opts(mtcheck.random_mt_script(rnd, "C14r%d.%d" % (seed, i), "C09", m, []), "memrec=2"))
        scripts.append(rescheck.with_opts(workcheck.random_work_script(rnd, "C14w%d.%d" % (seed, i), "C13", m), "memrec=2"))
        scripts.append(rescheck.with_opts(sigcheck.gen_c10(rnd, "C14s%d.%d" % (seed, i), m), "memrec=2"))
        scripts.append(rescheck.with_opts(sigcheck.gen_c11(rnd, "C14p%d.%d" % (seed, i), m), "memrec=2"))
    # the small two-thread scenarios of the signal / wait / event / pool checks, under random schedules
    import mtcheck as _mt
    small = []
    for prop, scen in sorted(sigcheck.SMALL.items()):
        small += [(n, "epoll " + o, b, []) for n, (o, b) in sorted(scen.items())]
    small += [(n, "epoll", b, []) for n, b in sorted(_mt.ev_scenarios().items())]
    small += [(n, "poll", b, []) for n, b in sorted(_mt.ev_scenarios().items())]
    small += [(n, "epoll", b, []) for n, b in sorted(_mt.raw_scenarios().items()) if n not in ("burst", "burst-owner")]
    small += [(n, "epoll", b, []) for n, b in sorted(workcheck.small_scenarios("C13").items())]
    for name, method, body, faults in small:
        for j in range(4 if tier == "quick" else 40):
            scripts.append(rescheck.with_opts(_mt.mk("C14x%d.%s.%s.%d" % (seed, name, method.split()[0], j), body, method, det=0,
                                                     seed=rnd.randint(1, 1 << 30), faults=faults, sticky=rnd.choice([0, 1, 3])), "memrec=2"))
    # independent loops initialised, run and torn down concurrently
    for i in range(k // 2):
        L = ["B C14i%d.%d method=%s seed=%d maxwait=60 maxcb=200 memrec=2 sticky=%d" % (seed, i, rnd.choice(coregen.METHODS), rnd.randint(1, 1 << 30), rnd.choice([0, 1, 3]))]
        for t in range(1, rnd.randint(2, 4)):
            L += ["S spawn %d" % t, "O tm %d" % (t + 3), "O tk %d" % (t + 3), "T %d iv_init" % t, "T %d tm_reg %d 1 0 %d" % (t, t + 3, rnd.choice([0, 1000])),
                  "T %d tk_reg %d" % (t, t + 3), "T %d iv_main" % t, "T %d iv_deinit" % t]
        L += ["O tm 1", "S tm_reg 1 1 0 5000", "X"]
        scripts.append("\n".join(L) + "\n")
    return scripts


def run(pid, tier, seed, replay=None):
    rep = vlib.Report(pid, tier, seed)
    exe = corerun.build_core("rec")
    with vlib.Scratch("verif-" + pid) as sc:
        scripts = [vlib.read(replay)] if replay else gen(tier, seed)
        tfs = corerun.run_scripts(exe, scripts, sc, tag="run")
        if not replay:
            # the two-thread child-wait scenarios with their schedules enumerated (iterative context bounding)
            import mtcheck
            import sigcheck
            for name, (opts, body) in sorted(sigcheck.SMALL["C11"].items()):
                s_, t_, _n, _c = mtcheck.enumerate_schedules(exe, sc, name, body, "epoll memrec=2 " + opts, [],
                                                             60 if tier == "quick" else 400, "C14e")
                scripts += s_
                tfs += t_
        idx = corerun.script_index(scripts)
        pdir = sc.sub("pre")
        pre, names = [], {}
        for i, tf in enumerate(tfs):
            o = os.path.join(pdir, "p%d.ndjson" % i)
            names.update(preprocess(tf, o))
            pre.append(o)
        verdicts, nev = vlib.validate_traces(pre, sc, module="TraceSync.tla", cfg="TraceSync.cfg")
        if len(verdicts) != len(scripts):
            raise vlib.MachineryError("%d scripts but %d verdicts" % (len(scripts), len(verdicts)))
        nontrivial = set()
        bad = collections.OrderedDict()
        for v in verdicts:
            if v["seen"]:
                nontrivial.add(vlib.sha(idx[v["id"]].split("\n", 1)[1])[:16])
            if v["viols"]:
                locs = sorted({loc_name(names[v["id"]].get(c)) for c in v["races"]})
                bad[v["id"]] = locs
        # a race is reported with the memory it is on; confirm by re-running
        reported = set()
        pick = list(bad)[:10]
        if pick:
            tf2 = corerun.run_scripts(exe, [idx[s] for s in pick], sc, tag="confirm")
            pre2 = []
            names2 = {}
            for i, tf in enumerate(tf2):
                o = os.path.join(pdir, "c%d.ndjson" % i)
                names2.update(preprocess(tf, o))
                pre2.append(o)
            v2, _ = vlib.validate_traces(pre2, sc, module="TraceSync.tla", cfg="TraceSync.cfg")
            again = {v["id"]: {loc_name(names2[v["id"]].get(c)) for c in v["races"]} for v in v2}
            for sid in pick:
                for loc in bad[sid]:
                    if loc in again.get(sid, ()) and loc not in reported:
                        reported.add(loc)
                        rep.violation("C14:race@" + loc, vlib.save_replay_text(pid, idx[sid]), "script %s" % sid)
        rep.add(evaluations=len(scripts), distinct_nontrivial=len(nontrivial), traces_validated_against_impl=len(verdicts),
                trace_events=nev, states=nev + len(pre), transitions=nev,
                shared_locations=sum(len(n) for n in names.values()),
                ends=dict(collections.Counter(v["why"] for v in verdicts)),
                rule="executions of multi-threaded scenario programs (posters, pools, signal / child reaping across two loops, "
                     "independent loops initialised and torn down concurrently) on the instrumented build under seeded random "
                     "schedules; non-trivial = distinct program with at least one location written by one thread and accessed by "
                     "another; every such access pair is checked for happens-before ordering by TLC (TraceSync.tla)",
                exhaustive=False)
        rep.sample({"script": scripts[0].splitlines()[:20]})
        if len(nontrivial) < 2 and not replay and not rep.viol:
            raise vlib.MachineryError("vacuous run: no shared locations observed")
    rep.assumptions += [
        "happens-before edges: pthread mutex and spin lock operations of the library, thread create/exit/join, pthread_once, writes / reads / epoll_ctl / wake-ups on event descriptors, and the scenario program's own object hand-over",
        "accesses are those of the library's own compiled code (instrumented); libc-internal accesses are not seen",
        "one-way flags exempted by the property: " + ", ".join(sorted(EXEMPT))]
    return rep.finish()


def loc_name(k):
    if k is None:
        return "?"
    rk, b = k
    if rk[0] == "s":
        return "static:%s+%d" % (rk[1], b)
    if rk[0] == "h":
        return "heap-block+%d" % b
    if rk[0] == "u":
        return "user-object:%s+%d" % (["fd", "tm", "tk", "ev", "raw", "pool", "wi", "sig", "wait", "popen"][rk[1]], b)
    return str(k)
