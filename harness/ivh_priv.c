/* ivh_priv -- the one place where the loop-core harness looks behind the public
 * API: advancing the loop's round counter, which stands for "this loop has
 * already been round N times with no task activity" (each iv_run_tasks() call
 * increments st->task_epoch and touches nothing else when no task is queued),
 * without spending N iterations and N trace records on it. */
#include "iv_private.h"

void ivh_warp_epoch(unsigned int n)
{
	struct iv_state *st = iv_get_state();

	if (st != NULL)
		st->task_epoch += n;
}
