--------------------------- MODULE TraceAll ---------------------------
(* Trace validation with every monitor family: MonCore (loop core, events)
   and MonWork (work pools, threads).  One state per consumed line. *)
EXTENDS Naturals, Integers, Sequences, FiniteSets, TLC, Json, IOUtils

Core == INSTANCE MonCore
Work == INSTANCE MonWork
Sig == INSTANCE MonSig
Res == INSTANCE MonRes

VARIABLES l, mon, monw, mons, monr, sid
tvars == <<l, mon, monw, mons, monr, sid>>

Log == ndJsonDeserialize(IOEnv.TRACE)
N == Len(Log)

TInit == l = 1 /\ mon = Core!MonInit /\ monw = Work!WInit /\ mons = Sig!SInit /\ monr = Res!RInit /\ sid = "none"

TNext ==
  /\ l <= N
  /\ l' = l + 1
  /\ LET e == Log[l] IN
     IF e.e = "Reset"
     THEN mon' = Core!MonInit /\ monw' = Work!WInit /\ mons' = Sig!SInit /\ monr' = Res!RInit /\ sid' = e.id
     ELSE /\ mon' = Core!MonStep(mon, e)
          /\ monw' = Work!WStep(monw, e)
          /\ mons' = Sig!SStep(mons, e)
          /\ monr' = Res!RStep(monr, e)
          /\ sid' = sid
          /\ LET nv == (mon'.viols \cup monw'.viols \cup mons'.viols \cup monr'.viols)
                       \ (mon.viols \cup monw.viols \cup mons.viols \cup monr.viols)
             IN nv # {} => PrintT("VIOLAT " \o ToJson([id |-> sid, line |-> l, rules |-> nv]))
          /\ (e.e = "End") =>
               LET (* C13 / C19: once a pool was released (a popen request closed)
                      and everything it started is gone, its references on the
                      loop are dropped: the loop must not sit in iv_main for
                      good with nothing registered *)
                   idle == e.why = "hang" /\ mon'.opaque /\ mon'.inMain /\ Core!UserObjs(mon') = 0
                           /\ Work!AllReleased(monw') /\ Sig!AllReleased(mons')
                   anyPut == \E p \in 1..8 : monw'.pool[p].put
                   anyClosed == \E p \in 1..8 : mons'.pop[p].closed
                   x == (IF idle /\ anyPut THEN {"C13:owner-held"} ELSE {}) \cup
                        (IF idle /\ anyClosed THEN {"C19:leak"} ELSE {})
                   sx == (IF anyPut THEN {"C13:owner-held"} ELSE {}) \cup (IF anyClosed THEN {"C19:leak"} ELSE {})
               IN PrintT("VERDICT " \o ToJson([id |-> sid, why |-> e.why,
                                             viols |-> mon'.viols \cup monw'.viols \cup mons'.viols \cup monr'.viols \cup x,
                                             seen |-> mon'.seen \cup monw'.seen \cup mons'.seen \cup monr'.seen \cup sx]))

TSpec == TInit /\ [][TNext]_tvars
=============================================================================
