SPECIFICATION MCSpec
CONSTANTS
  BufSize = 3
  MaxStream = 10
  MaxCached = 2
  Modes = {"rw", "sp"}
  Relays = {0, 1}
INVARIANT NoViolation
INVARIANT TypeOK
INVARIANT Structure
INVARIANT MonType
CHECK_DEADLOCK FALSE
VIEW MCView
