CONSTANTS
  SplitBits = 2
  MaxNodes = 28
  MaxT = 17
  NExp = 3
  MaxLevel = 100000
CONSTANT Timers <- TimerSet
INIT Init
NEXT Next
CONSTRAINT LevelBound
CHECK_DEADLOCK FALSE
INVARIANTS IHeapOrder IBackIndex IRootIsMin INoStale IDepthMinimal INoDangling INoLeak IMultiset IDeinit
