--------------------------- MODULE TraceAll ---------------------------
(* Trace validation with every monitor family: MonCore (loop core, events)
   and MonWork (work pools, threads).  One state per consumed line. *)
EXTENDS Naturals, Integers, Sequences, FiniteSets, TLC, Json, IOUtils

Core == INSTANCE MonCore
Work == INSTANCE MonWork

VARIABLES l, mon, monw, sid
tvars == <<l, mon, monw, sid>>

Log == ndJsonDeserialize(IOEnv.TRACE)
N == Len(Log)

TInit == l = 1 /\ mon = Core!MonInit /\ monw = Work!WInit /\ sid = "none"

TNext ==
  /\ l <= N
  /\ l' = l + 1
  /\ LET e == Log[l] IN
     IF e.e = "Reset"
     THEN mon' = Core!MonInit /\ monw' = Work!WInit /\ sid' = e.id
     ELSE /\ mon' = Core!MonStep(mon, e)
          /\ monw' = Work!WStep(monw, e)
          /\ sid' = sid
          /\ (e.e = "End") =>
               LET (* C13: after a pool was released and everything it started is
                      gone, its references on the owner's loop are dropped: the
                      loop must not sit in iv_main with nothing registered *)
                   held == e.why = "hang" /\ mon'.opaque /\ mon'.inMain /\ Core!UserObjs(mon') = 0
                           /\ Work!AllReleased(monw') /\ (\E p \in 1..8 : monw'.pool[p].put)
                   x == IF held THEN {"C13:owner-held"} ELSE {}
                   sx == IF mon'.opaque /\ (\E p \in 1..8 : monw'.pool[p].put) THEN {"C13:owner-held"} ELSE {}
               IN PrintT("VERDICT " \o ToJson([id |-> sid, why |-> e.why,
                                             viols |-> mon'.viols \cup monw'.viols \cup x,
                                             seen |-> mon'.seen \cup monw'.seen \cup sx]))

TSpec == TInit /\ [][TNext]_tvars
=============================================================================
