#!/usr/bin/env python3
"""C10 (iv_signal), C11 (iv_wait) and C19 (iv_popen): model checking of the
IvSignal / IvWait / IvPopen system models, scenario scripts executed on the
real library with simulated signals, processes and virtual time (harness
simk_sig.c), TLC trace validation with MonSig."""
import collections
import concurrent.futures as cf
import os
import random
import sys

sys.path.insert(0, os.path.dirname(os.path.abspath(__file__)))
import vlib
import corerun

SIGS = [10, 12]
MODELS = {
    "C10": [("MC_Signal.tla", "MC_Signal.cfg"), ("MC_SignalFork.tla", "MC_SignalFork.cfg")],
    "C11": [("MC_Wait.tla", "MC_Wait.cfg")],
    "C19": [("IvPopen.tla", "MC_Popen_exit.cfg"), ("IvPopen.tla", "MC_Popen_ignore.cfg"), ("IvPopen.tla", "MC_Popen_after-n.cfg")],
}


def hdr(sid, rnd, method, extra=""):
    return "B %s method=%s seed=%d maxwait=80 maxcb=300 sigsim=1 det=0 sticky=%d %s" % (
        sid, method, rnd.randint(1, 1 << 30), rnd.choice([0, 1, 3, 8]), extra)


def gen_c10(rnd, sid, method):
    L = []
    n = rnd.randint(1, 4)
    two = rnd.random() < 0.4
    for i in range(1, n + 1):
        L.append("O sig %d" % i)
    L.append("O tk 1")
    owner = {}
    sigs = {}
    if two:
        L.append("S spawn 1")
        L.append("T 1 iv_init")
    for i in range(1, n + 1):
        s = rnd.choice(SIGS if rnd.random() < 0.3 else [10])
        fl = rnd.choice([0, 0, 1, 1, 2, 3])
        t = 1 if (two and rnd.random() < 0.4) else 0
        owner[i], sigs[i] = t, s
        if t == 0:
            if rnd.random() < 0.8:
                L.append("S sig_reg %d %d %d" % (i, s, fl))
            else:
                L.append("S tk_reg 1")
                L.append("R tk 1 0 1 sig_reg %d %d %d" % (i, s, fl))
        else:
            L.append("T 1 sig_reg %d %d %d" % (i, s, fl))
    if two:
        L.append("O tm 5")
        L.append("T 1 tm_reg 5 1 %d 0" % rnd.choice([3, 50]))
        for i in range(1, n + 1):
            if owner[i] == 1 and rnd.random() < 0.7:
                L.append("R tm 5 0 1 sig_unreg %d" % i)
        L.append("T 1 iv_main")
        L.append("T 1 iv_deinit")
    # reactions
    for i in range(1, n + 1):
        for occ in (1, 2, 0):
            if rnd.random() < 0.45:
                c = rnd.random()
                j = rnd.randint(1, n)
                if c < 0.35:
                    L.append("R sig %d 0 %d sig_unreg %d" % (i, occ, i if rnd.random() < 0.5 else j))
                elif c < 0.5:
                    L.append("R sig %d 0 %d sig_reg %d %d %d" % (i, occ, j, sigs[j], rnd.choice([0, 1, 2, 3])))
                elif c < 0.75 and occ:
                    L.append("R sig %d 0 %d raise %d %d" % (i, occ, rnd.choice(SIGS[:1] + [sigs[i]]), rnd.choice([0, owner[i]])))
                elif c < 0.85 and occ:
                    L.append("R sig %d 0 %d childraise %d" % (i, occ, sigs[i]))
                else:
                    L.append("R sig %d 0 %d yield" % (i, occ))
    if rnd.random() < 0.2:
        L.append("S childraise 10")
    for q in range(1, 9):
        if rnd.random() < 0.75:
            for _ in range(rnd.randint(1, 2)):
                L.append("E %d raise %d %d" % (q, rnd.choice([10, 10, 12]), rnd.choice([0, 0, 1] if two else [0])))
    return "\n".join([hdr(sid, rnd, method)] + L + ["X"]) + "\n"


def gen_c11(rnd, sid, method):
    L = []
    n = rnd.randint(1, 3)
    pool = [101, 102, 103]
    pids = [rnd.choice(pool) for _ in range(6)]
    # avoid giving out a pid that is still in use: the harness hands them out in order
    seq, live = [], set()
    for p in pool + pool:
        seq.append(p)
    two = rnd.random() < 0.35
    for i in range(1, n + 1):
        L.append("O wait %d" % i)
    L.append("O tk 1")
    late_spawn = None
    if two:
        L += ["S spawn 1", "T 1 iv_init", "O wait 4", "O wait 5", "O tk 7", "O tm 7"]
        c = rnd.random()
        if c < 0.35:
            # thread 1 spawns a child that is gone at once, from inside its loop, while the
            # main loop (which receives SIGCHLD) is waiting: the reaper races with the spawn
            L += ["T 1 wait_spawn 4", "T 1 tk_reg 7", "R tk 7 0 1 forkexit 1", "R tk 7 0 1 wait_spawn 5"]
            late_spawn = 0
        elif c < 0.7:
            # the same with the roles swapped: the main thread spawns from a timer
            L += ["T 1 wait_spawn 4", "S tm_reg 7 1 0 1000", "R tm 7 0 1 forkexit 1", "R tm 7 0 1 wait_spawn 5"]
            late_spawn = 1
        else:
            L += ["T 1 wait_spawn 4"]
        L.append("R wait 4 0 0 yield")
        if rnd.random() < 0.6:
            # a thread is busy in a callback when SIGCHLD (for a child of the other thread) is
            # delivered to it, and drops its last interest before it gets back to its loop
            who = rnd.choice([0, 1])
            if who == 1:
                if rnd.random() < 0.5:
                    L += ["O tk 5", "T 1 tk_reg 5", "R tk 5 0 1 child %d %d %d" % (rnd.choice([101, 102]), rnd.choice([0, 1]), rnd.choice([0, 9])),
                          "R tk 5 0 1 wait_unreg 4"]
                else:
                    # thread 1's own child dies and thread 1 signals it through the helper while the
                    # thread that receives SIGCHLD is reaping it (the helper must decide under the lock)
                    L += ["O tk 5", "T 1 tk_reg 5", "R tk 5 0 1 childof 4 %d %d %d" % (rnd.choice([0, 1]), rnd.choice([0, 9]), rnd.choice([0, 1, 1])),
                          "R tk 5 0 1 wait_kill 4 %d" % rnd.choice([15, 9, 0])]
                    if rnd.random() < 0.5:
                        L += ["R tk 5 0 1 wait_kill 4 15"]
                    late_spawn = 0      # SIGCHLD goes to the main thread
            else:
                L += ["O tk 6", "S tk_reg 6", "R tk 6 0 1 yield", "R tk 6 0 1 child 104 %d %d" % (rnd.choice([0, 1]), rnd.choice([0, 9]))]
                for i in range(1, n + 1):
                    L.append("R tk 6 0 1 wait_unreg %d" % i)
        L += ["T 1 iv_main", "T 1 iv_deinit"]
    ns = rnd.randint(0, 2)
    for k in range(ns):
        L.append("S stranger %d" % (300 + k))
    if rnd.random() < 0.3:
        L.append("S forkexit %d" % rnd.choice([1, 1, 2]))
    nsp = 0
    for i in range(1, n + 1):
        L.append("S wait_spawn %d" % i)
        nsp += 1
    # reactions
    for i in range(1, n + 1):
        for occ in (1, 2, 3):
            if rnd.random() < 0.4:
                c = rnd.random()
                if c < 0.45:
                    L.append("R wait %d 0 %d wait_unreg %d" % (i, occ, i if rnd.random() < 0.6 else rnd.randint(1, n)))
                    if rnd.random() < 0.4:
                        L.append("R wait %d 0 %d wait_spawn %d" % (i, occ, i))
                elif c < 0.7:
                    L.append("R wait %d 0 %d wait_kill %d %d" % (i, occ, rnd.randint(1, n), rnd.choice([15, 9, 19, 18])))
                else:
                    L.append("R wait %d 0 %d yield" % (i, occ))
    # environment: status changes for the known pids in spawn order 101.. and strangers
    known = [101, 102, 103][:n] + ([104] if two else [])
    targets = known + [300 + k for k in range(ns)]
    for q in range(1, 10):
        if rnd.random() < 0.8:
            for _ in range(rnd.randint(1, 3)):
                p = rnd.choice(targets)
                what = rnd.choice([0, 0, 1, 2, 3, 2])
                L.append("E %d child %d %d %d" % (q, p, what, {0: rnd.randint(0, 3), 1: rnd.choice([9, 15]), 2: 19, 3: 0}[what]))
    extra = "pids=%s chldthr=%d" % (",".join(str(p) for p in ([101, 102, 103][:n] + ([104] if two else []) + [101, 102, 103])), 1 if two and rnd.random() < 0.5 else 0)
    if two:
        # the second thread spawns first or last depending on the schedule: keep its pid distinct
        extra = "pids=%s chldthr=%d" % (",".join(str(p) for p in [101, 102, 103, 104, 105, 106]),
                                        late_spawn if late_spawn is not None else rnd.choice([0, 1]))
        L = [l.replace("child 104", "child 104") for l in L]
    return "\n".join([hdr(sid, rnd, method, extra)] + L + ["X"]) + "\n"


def gen_c19(rnd, sid, method):
    L = []
    n = rnd.randint(1, 2)
    for i in range(1, n + 1):
        L.append("O popen %d" % i)
    L += ["O tm 1", "O tm 2"]
    if rnd.random() < 0.2:
        L.append("S forkexit 1")
    for i in range(1, n + 1):
        L.append("S popen %d %d" % (i, rnd.randint(0, 1)))
        pol = rnd.choice([0, 1, 1, 2, 2])
        L.append("S childpol %d %d %d" % (100 + i, pol, rnd.randint(1, 6)))
    for i in range(1, n + 1):
        c = rnd.random()
        if c < 0.25:
            L.append("S popen_close %d" % i)
        elif c < 0.9:
            t = rnd.choice([1, 2])
            L.append("S tm_reg %d 1 %d %d" % (t, rnd.choice([0, 1, 3, 7, 12]), rnd.choice([0, 500000000])))
            L.append("R tm %d 0 1 popen_close %d" % (t, i))
    # the child may end by itself at some point
    nstr = rnd.choice([0, 0, 1, 2])
    for k in range(nstr):
        # (older than the library's children: wait4(-1) returns them first)
        L.insert(0, "S stranger %d" % (300 + k))
    for q in range(1, 12):
        c = rnd.random()
        if c < 0.25:
            if nstr and rnd.random() < 0.5:
                # a child the library knows nothing about ends in the same batch (and is collected first)
                L.append("E %d child %d 0 0" % (q, 300 + rnd.randrange(nstr)))
            L.append("E %d child %d %d %d" % (q, 100 + rnd.randint(1, n), rnd.choice([0, 1]), rnd.choice([0, 9])))
            if rnd.random() < 0.4:
                # ... and the signalling timer comes due before the loop gets to the status
                L.append("E %d advance %d 0" % (q, rnd.choice([5, 5, 10, 1])))
        elif c < 0.4:
            # the child is stopped / continued: a status that is not a termination
            L.append("E %d child %d %d %d" % (q, 100 + rnd.randint(1, n), rnd.choice([2, 3]), 19))
        elif rnd.random() < 0.15:
            L.append("E %d advance %d 0" % (q, rnd.choice([1, 4, 6])))
    extra = "pids=%s" % ",".join(str(100 + i) for i in range(1, n + 1))
    return "\n".join([hdr(sid, rnd, method, extra)] + L + ["X"]) + "\n"


def _handoff(unreg):
    # two exclusive interests; the signal arrives while the loop is inside a callback, which then
    # drops one of them before it could be called: the other one must be called instead
    return ("sigsim=1 maxcb=300", ["O sig 1", "O sig 2", "O tk 1", "O tm 1", "S sig_reg 1 10 1", "S sig_reg 2 10 1", "S tk_reg 1",
                                   "R tk 1 0 1 raise 10 0", "R tk 1 0 1 sig_unreg %d" % unreg,
                                   "S tm_reg 1 1 5 0", "R tm 1 0 1 sig_unreg 1", "R tm 1 0 1 sig_unreg 2"])


SMALL = {
    "C10": {"excl-handoff-1": _handoff(1), "excl-handoff-2": _handoff(2),
            # a delivery arrives while the exclusive interest's handler runs; a task then drops that interest
            # before it is called again: the delivery goes to the other interest
            "excl-rerun-unreg": ("sigsim=1 maxcb=300", ["O sig 1", "O sig 2", "O tk 1", "O tm 1", "S sig_reg 1 10 1", "S sig_reg 2 10 0",
                                                        "E 1 raise 10 0", "R sig 1 0 1 raise 10 0", "R sig 1 0 1 tk_reg 1",
                                                        "R tk 1 0 1 sig_unreg 1", "S tm_reg 1 1 5 0", "R tm 1 0 1 sig_unreg 2"]),
            # the signal is taken by a thread that never used the library
            "foreign-thread": ("sigsim=1 maxcb=300", ["O sig 1", "O tk 1", "O tm 1", "S spawn 1"] + ["T 1 yield"] * 8 +
                               ["S sig_reg 1 10 0", "S tk_reg 1", "R tk 1 0 1 raise 10 1", "S tm_reg 1 1 5 0", "R tm 1 0 1 sig_unreg 1"]),
            # signals aimed at a thread that is inside registration calls most of the time
            "raise-during-reg": ("sigsim=1 maxcb=300", ["O sig 1", "O sig 2", "O sig 3", "O tm 1", "S spawn 1", "T 1 iv_init", "T 1 sig_reg 1 10 0",
                                                        "T 1 set_flag 2", "T 1 sig_reg 2 12 0", "T 1 sig_unreg 2", "T 1 sig_reg 2 12 0", "T 1 sig_unreg 2",
                                                        "T 1 sig_reg 3 12 0", "T 1 tm_reg 1 1 1 0", "R tm 1 0 1 sig_unreg 1", "R tm 1 0 1 sig_unreg 3",
                                                        "T 1 iv_main", "T 1 iv_deinit", "S wait_flag 2", "S raise 10 1", "S raise 10 1", "S raise 10 1"])},
    "C19": {
        # the child is stopped and continued while the request is open (statuses that are not terminations),
        # then the request is closed: the child is still signalled until it ends, and reaped
        "stop-cont-close": ("sigsim=1 maxcb=300 pids=101", ["O popen 1", "O tm 1", "S popen 1 0", "S childpol 101 2 2", "S tm_reg 1 1 2 0",
                                                          "R tm 1 0 1 popen_close 1", "E 1 child 101 2 19", "E 1 child 101 3 0"]),
        "cont-close": ("sigsim=1 maxcb=300 pids=101", ["O popen 1", "O tm 1", "S popen 1 1", "S childpol 101 1 0", "S tm_reg 1 1 2 0",
                                                     "R tm 1 0 1 popen_close 1", "E 1 child 101 3 0"]),
    },
    "C11": {
        # thread 1's child dies; thread 1 signals it through the helper while the main thread, which receives
        # SIGCHLD, reaps it: the helper must look at the interest under the lock
        "kill-vs-reap": ("sigsim=1 maxcb=300 pids=101,102,103 chldthr=0",
                         ["O wait 1", "O wait 4", "O tk 5", "S spawn 1", "T 1 iv_init", "T 1 wait_spawn 4", "T 1 tk_reg 5",
                          "R tk 5 0 1 childof 4 0 0 1", "R tk 5 0 1 wait_kill 4 15", "R wait 4 0 1 wait_unreg 4",
                          "T 1 iv_main", "T 1 iv_deinit", "S wait_spawn 1", "R wait 1 0 1 wait_unreg 1",
                          "E 1 childof 1 0 0"]),
        # stopped, then killed, while the owner is busy; the handler drops the interest at the first status
        "stop-kill-unreg": ("sigsim=1 maxcb=300 pids=101,102,103 chldthr=1",
                            ["O wait 1", "O wait 4", "O tk 5", "S spawn 1", "T 1 iv_init", "T 1 wait_spawn 4",
                             "R wait 4 0 1 wait_unreg 4", "T 1 iv_main", "T 1 iv_deinit", "S wait_spawn 1", "S tk_reg 5",
                             "R tk 5 0 1 childof 1 2 19", "R tk 5 0 1 yield", "R tk 5 0 1 childof 1 1 9", "R tk 5 0 1 yield",
                             "R wait 1 0 1 wait_unreg 1", "E 1 childof 4 0 0"]),
        # ... and the same with the interest dropped instead of signalled
        "unreg-vs-reap": ("sigsim=1 maxcb=300 pids=101,102,103 chldthr=0",
                          ["O wait 1", "O wait 4", "O tk 5", "S spawn 1", "T 1 iv_init", "T 1 wait_spawn 4", "T 1 tk_reg 5",
                           "R tk 5 0 1 childof 4 0 0 1", "R tk 5 0 1 wait_unreg 4",
                           "T 1 iv_main", "T 1 iv_deinit", "S wait_spawn 1", "R wait 1 0 1 wait_unreg 1",
                           "E 1 childof 1 0 0"]),
        # SIGCHLD is taken by a thread that never used the library (it has no loop): the interests of the
        # other threads are still served
        "sigchld-foreign-thread": ("sigsim=1 maxcb=300 pids=101,102,103 chldthr=1",
                                   ["O wait 1", "O tk 1", "S spawn 1"] + ["T 1 yield"] * 8 +
                                   ["S wait_spawn 1", "S tk_reg 1", "R tk 1 0 1 childof 1 0 7", "R wait 1 0 1 wait_unreg 1"]),
        # a child of the main thread stops and continues while its owner is busy; the handler drops the interest
        # at the first status (nothing may be delivered after that)
        "stop-cont-unreg": ("sigsim=1 maxcb=300 pids=101,102,103 chldthr=1",
                            ["O wait 1", "O wait 4", "O tk 5", "S spawn 1", "T 1 iv_init", "T 1 wait_spawn 4",
                             "R wait 4 0 1 wait_unreg 4", "T 1 iv_main", "T 1 iv_deinit", "S wait_spawn 1", "S tk_reg 5",
                             "R tk 5 0 1 childof 1 2 19", "R tk 5 0 1 yield", "R tk 5 0 1 childof 1 3 0", "R tk 5 0 1 yield",
                             "R wait 1 0 1 wait_unreg 1", "E 1 childof 4 0 0", "E 2 childof 1 0 0"]),
    },
}

GEN = {"C10": gen_c10, "C11": gen_c11, "C19": gen_c19}
NEED = {
    "C10": ["C10:lost", "C10:spurious", "C10:wrong-thread", "C10:disposition", "C10:handoff", "C10:child-triggered"],
    "C11": ["C11:lost", "C11:order", "C11:spurious", "C11:kill-reaped", "C11:zombie", "C11:wrong-thread"],
    "C19": ["C19:signal-seq", "C19:signal-interval", "C19:kill-reaped", "C19:abandoned", "C19:zombie", "C19:leak", "C19:wiring"],
}


def run(pid, tier, seed, replay=None):
    rep = vlib.Report(pid, tier, seed)
    exe = corerun.build_core("plain")
    rnd = random.Random(seed)
    with vlib.Scratch("verif-" + pid) as sc:
        mcs = [m for m in MODELS[pid] if os.path.exists(os.path.join(vlib.SPEC, m[0]))]
        pool = cf.ThreadPoolExecutor(max(1, len(mcs)))
        futs = [pool.submit(vlib.tlc, m, c, sc, workers=max(2, vlib.NCPU // 2), timeout=1500, coverage=True) for m, c in mcs]
        if replay:
            scripts = [vlib.read(replay)]
        else:
            n = 700 if tier == "quick" else 4000
            scripts = [GEN[pid](rnd, "%sr%d.%d" % (pid, seed, i), rnd.choice(["epoll", "epoll-timerfd", "poll", "ppoll"])) for i in range(n)]
        tfs = corerun.run_scripts(exe, scripts, sc, tag="run")
        exhausted = []
        if not replay:
            # small two-thread scenarios whose schedules are enumerated (iterative context bounding)
            import mtcheck
            for name, (opts, body) in SMALL.get(pid, {}).items():
                s_, t_, _n, complete = mtcheck.enumerate_schedules(exe, sc, name, body, "epoll " + opts, [],
                                                                   150 if tier == "quick" else 800, pid + "e")
                scripts += s_
                tfs += t_
                if complete:
                    exhausted.append(name)
        if not replay:
            # a share of the programs also runs on the instrumented build, where the
            # library's malloc'ed memory starts out as 0xCD garbage instead of zeroes
            import rescheck
            k = max(40, len(scripts) // 6)
            extra = [rescheck.with_opts(s.replace("B " + pid + "r", "B " + pid + "m", 1), "memrec=1") for s in scripts[:k]]
            tfs += corerun.run_scripts(corerun.build_core("rec"), extra, sc, tag="runrec")
            scripts = scripts + extra
        idx = corerun.script_index(scripts)
        nreal = 0
        if pid == "C19" and not replay:
            # the wiring clause needs a real fork/exec: pass-through scenario, real time
            import subprocess
            rexe = vlib.build_harness("ivh_popen_real", ["ivh_popen_real.c"], "plain")
            rt = sc.path("real", "popen-real.ndjson")
            with open(rt, "w") as f:
                for ty in ("r", "w"):
                    for m in coregen_methods():
                        env = dict(os.environ, IV_EXCLUDE_POLL_METHOD=excl(m))
                        for _attempt in range(3):
                            r = subprocess.run([rexe, ty], stdout=subprocess.PIPE, stderr=subprocess.DEVNULL, text=True, timeout=120, env=env)
                            if '"unknown"' not in r.stdout:
                                break
                        if '"End"' not in r.stdout:
                            r_out = r.stdout + '{"t":0,"e":"End","why":"crash","sig":%d,"now":[0,0]}\n' % abs(r.returncode)
                        else:
                            r_out = r.stdout
                        f.write(r_out.replace('"popen-real-%s"' % ty, '"popen-real-%s-%s"' % (ty, m)))
                        idx["popen-real-%s-%s" % (ty, m)] = "# pass-through: ivh_popen_real %s under %s\n" % (ty, m)
                        nreal += 1
            tfs = tfs + [rt]
        if pid == "C10" and not replay:
            # the forked-child clause with a child that keeps using the library needs a real fork
            # (the simulated one does not duplicate the address space): pass-through scenario
            import subprocess
            rexe = vlib.build_harness("ivh_sigfork_real", ["ivh_sigfork_real.c"], "plain")
            rt = sc.path("real", "sigfork-real.ndjson")
            with open(rt, "w") as f:
                for pf in (0, 1, 2, 3):
                    for cm in (0, 1, 2, 3, 4):
                        for m in coregen_methods():
                            env = dict(os.environ, IV_EXCLUDE_POLL_METHOD=excl(m))
                            r = subprocess.run([rexe, str(pf), str(cm)], stdout=subprocess.PIPE, stderr=subprocess.DEVNULL, text=True, timeout=150, env=env)
                            r_out = r.stdout
                            if '"End"' not in r_out:
                                r_out += '{"t":0,"e":"End","why":"crash","sig":%d,"now":[0,0]}\n' % abs(r.returncode)
                            sid = "sigfork-real-%d-%d-%s" % (pf, cm, m)
                            f.write(r_out.replace('"sigfork-real-%d-%d"' % (pf, cm), '"%s"' % sid))
                            idx[sid] = "# pass-through: ivh_sigfork_real %d %d under %s\n" % (pf, cm, m)
                            nreal += 1
            tfs = tfs + [rt]
        verdicts, nev = vlib.validate_traces(tfs, sc)
        if len(verdicts) != len(scripts) + nreal:
            raise vlib.MachineryError("%d scripts but %d verdicts" % (len(scripts), len(verdicts)))
        states = trans = 0
        runs, covall = [], {}
        for (mod, cfg), fu in zip(mcs, futs):
            r = fu.result()
            if r["violated"] or not r["complete"]:
                raise vlib.MachineryError("model %s/%s: violated=%s complete=%s\n%s" % (mod, cfg, r["violated"], r["complete"], r["out"][-2000:]))
            for a, (taken, gen_) in vlib.tlc_coverage(r["out"]).items():
                covall[a] = covall.get(a, 0) + max(taken, gen_)
            states += r["distinct"]
            trans += r["generated"]
            runs.append({"module": mod, "cfg": cfg, "distinct": r["distinct"], "generated": r["generated"], "depth": r["depth"]})
        dead = [a for a, taken in covall.items() if taken == 0]
        if dead:
            raise vlib.MachineryError("model actions never taken: %s" % dead)
        if pid == "C10" and not replay:
            # the fork model is not vacuous: each of the three guards of the code, taken away, is refuted
            for v in ("no-thr-reset", "no-proc-reset", "no-owner-check"):
                r = vlib.tlc("MC_SignalFork.tla", "MC_SignalFork_v_%s.cfg" % v, sc, workers=2, timeout=600)
                if "NoViolation" not in r["violated"]:
                    raise vlib.MachineryError("fork model variant %s is not refuted\n%s" % (v, r["out"][-1500:]))
                runs.append({"module": "MC_SignalFork.tla", "cfg": "MC_SignalFork_v_%s.cfg" % v, "expected": "refuted", "refuted": True,
                             "distinct": r["distinct"], "generated": r["generated"], "depth": r["depth"]})
        bad = collections.OrderedDict()
        nontrivial, seen_rules = set(), collections.Counter()
        for v in verdicts:
            for s in v["seen"]:
                if s.startswith(pid):
                    seen_rules[s] += 1
                    nontrivial.add(vlib.sha(idx[v["id"]])[:16])
            for r in v["viols"]:
                if r.startswith(pid):
                    bad.setdefault(v["id"], []).append(r)
                elif r in ("C18:crash", "C07:hang-real"):
                    bad.setdefault(v["id"], []).append(pid + (":crash" if "crash" in r else ":hang-real"))
        pick, rules_seen = [], set()
        for sid in [x for x in bad if x.startswith(("popen-real-", "sigfork-real-"))]:
            # the real fork / exec scenario (already repeated until the child's report was there)
            for r in sorted(set(bad.pop(sid))):
                rep.violation(sign(pid, r, idx[sid]), vlib.save_replay_text(pid, idx[sid]), "scenario %s" % sid)
        for sid, rules in bad.items():
            if len(pick) < 12 or any(r not in rules_seen for r in rules):
                pick.append(sid)
                rules_seen.update(rules)
            if len(pick) >= 30:
                break
        if pick:
            tf2 = corerun.run_scripts(exe, [idx[s] for s in pick], sc, tag="confirm")
            v2, _ = vlib.validate_traces(tf2, sc)
            again = {v["id"]: v["viols"] for v in v2}
            for sid in pick:
                for r in sorted(set(bad[sid])):
                    tail = r.split(":")[1]
                    if any(a == r or (tail in ("crash", "hang-real") and a.endswith(tail)) for a in again.get(sid, ())):
                        rep.violation(sign(pid, r, idx[sid]), vlib.save_replay_text(pid, idx[sid]), "script %s" % sid)
        rep.add(evaluations=len(scripts), schedules_exhausted=exhausted, distinct_nontrivial=len(nontrivial), traces_validated_against_impl=len(verdicts),
                trace_events=nev, states=states + nev, transitions=trans + nev, model_checks=runs,
                rules_exercised=dict(seen_rules), ends=dict(collections.Counter(v["why"] for v in verdicts)),
                rule="executions = seeded scenario scripts (interests / children / requests, handler reactions, scripted signal "
                     "deliveries and child status changes at quiescence points and inside handlers) on the real library with "
                     "simulated signals, processes and virtual time, random schedules when a second loop thread exists; "
                     "non-trivial = distinct script in which a rule of this property had its antecedent satisfied",
                exhaustive=False)
        if scripts:
            rep.sample({"script": scripts[0].splitlines()})
        if verdicts:
            rep.sample({"verdict": {k: verdicts[0][k] for k in ("id", "why", "viols")}})
        vac = [r for r in NEED[pid] if seen_rules[r] == 0]
        if vac and not replay and not rep.viol:
            raise vlib.MachineryError("vacuous run: rules never exercised: %s" % vac)
    rep.assumptions += [
        "signals and child processes are simulated by harness/simk_sig.c: handlers run synchronously at delivery points (mask changes, waits, lock operations); fork() returns scripted pids",
        "TLC evaluates spec/MonSig.tla on every recorded execution"]
    return rep.finish()


def coregen_methods():
    return ["epoll-timerfd", "epoll", "ppoll", "poll"]


def excl(m):
    allm = coregen_methods()
    return " ".join(allm[:allm.index(m)])


def sign(pid, rule, script):
    """known-finding signatures are refined by the scenario that fails"""
    return rule
