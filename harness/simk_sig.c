/* simk_sig -- simulated signals and child processes (DESIGN 3.2, App. E).
 *
 * Signals: sigaction()/signal() only update a disposition table kept here;
 * pthread_sigmask()/sigprocmask() maintain a simulated per-thread mask.
 * simk_raise(sig, thread) marks the signal pending for that thread; it is
 * delivered -- the captured handler is called synchronously in that thread,
 * with the handler's sa_mask applied -- at the thread's next delivery point
 * where its mask allows: after a mask change, at a blocked or starting wait
 * (which then returns EINTR), at an explicit simk_sigpoint().
 *
 * Processes: fork() returns scripted pids (parent side only, the registered
 * pthread_atfork prepare/parent handlers are run around it), child state
 * changes are queued for wait4() and raise the simulated SIGCHLD, kill() is
 * recorded together with the truth "was this pid's termination already
 * reaped", getpid() returns the current simulated pid. */
#include "simk.h"
#include <sys/wait.h>
#include <sys/resource.h>

#define NSIGS 65
#define MAXTHR 64

static struct { void (*h)(int); sigset_t mask; int set; } disp[NSIGS];
static sigset_t tmask[MAXTHR];
static unsigned char tpend[MAXTHR][NSIGS];
static int in_handler[MAXTHR];
int simk_sig_enabled;		/* 1: signals/processes are simulated */
int simk_fork_exit;		/* n > 0: the next n children exit at once; < 0: all */
static pid_t cur_pid;

int __real_sigaction(int, const struct sigaction *, struct sigaction *);
int __real_pthread_sigmask(int, const sigset_t *, sigset_t *);

static const char *hname(void (*h)(int))
{
	return h == SIG_DFL ? "dfl" : h == SIG_IGN ? "ign" : "handler";
}

int __wrap_sigaction(int sig, const struct sigaction *act, struct sigaction *old)
{
	if (!simk_sig_enabled)
		return __real_sigaction(sig, act, old);
	if (sig <= 0 || sig >= NSIGS) {
		errno = EINVAL;
		return -1;
	}
	int e = fault_check("sigaction");
	if (e) {
		errno = e;
		return -1;
	}
	if (old) {
		memset(old, 0, sizeof *old);
		old->sa_handler = disp[sig].set ? disp[sig].h : SIG_DFL;
		old->sa_mask = disp[sig].mask;
	}
	if (act) {
		disp[sig].h = act->sa_handler;
		disp[sig].mask = act->sa_mask;
		disp[sig].set = 1;
		/* installing a handler happens-before every delivery to it */
		if (memrec_words)
			sync_log("rel", 4000 + sig);
		tr("\"e\":\"Disp\",\"sig\":%d,\"h\":\"%s\"}", sig, hname(act->sa_handler));
	}
	return 0;
}

void (*__real_signal(int, void (*)(int)))(int);

void (*__wrap_signal(int sig, void (*h)(int)))(int)
{
	if (!simk_sig_enabled)
		return __real_signal(sig, h);
	if (sig <= 0 || sig >= NSIGS)
		return SIG_ERR;
	void (*o)(int) = disp[sig].set ? disp[sig].h : SIG_DFL;
	disp[sig].h = h;
	sigemptyset(&disp[sig].mask);
	disp[sig].set = 1;
	tr("\"e\":\"Disp\",\"sig\":%d,\"h\":\"%s\"}", sig, hname(h));
	return o;
}

const char *simk_disposition(int sig)
{
	return disp[sig].set ? hname(disp[sig].h) : "dfl";
}

/* process-directed signals (SIGCHLD from the simulated children): pending for the process, with a
 * preferred thread; any other thread that does not block the signal takes it once the preferred one
 * cannot get to a delivery point (gone, or parked in a join / lock / flag wait) */
static int ppend[NSIGS], ppref[NSIGS];

static int proc_sig_for(int t, int s)
{
	return ppend[s] && !sigismember(&tmask[t], s) &&
	       (ppref[s] == t || !simk_thread_takes_signals(ppref[s]) || sigismember(&tmask[ppref[s]], s));
}

void simk_raise_process(int sig, int pref)
{
	if (sig <= 0 || sig >= NSIGS)
		return;
	if (pref < 0 || pref >= MAXTHR)
		pref = 0;
	tr("\"e\":\"SigGen\",\"sig\":%d,\"x\":%d}", sig, pref);
	ppend[sig] = 1;
	ppref[sig] = pref;
	simk_progress();
}

/* deliver what is pending and unblocked for the calling thread; returns the
 * number of handlers run */
int simk_sigpoint(void)
{
	int n = 0;

	if (!simk_sig_enabled || me >= MAXTHR)
		return 0;
	for (int s = 1; s < NSIGS; s++)
		if (proc_sig_for(me, s)) {
			ppend[s] = 0;
			tpend[me][s] = 1;
		}
	for (int s = 1; s < NSIGS; s++) {
		if (!tpend[me][s] || sigismember(&tmask[me], s))
			continue;
		tpend[me][s] = 0;
		void (*h)(int) = disp[s].set ? disp[s].h : SIG_DFL;
		if (memrec_words)
			sync_log("acq", 4000 + s);
		tr("\"e\":\"SigDlv\",\"sig\":%d,\"h\":\"%s\",\"pid\":%d}", s, hname(h), (int)cur_pid);
		if (h == SIG_IGN || h == SIG_DFL)
			continue;	/* default action is not simulated */
		sigset_t save = tmask[me];
		for (int k = 1; k < NSIGS; k++)
			if (sigismember(&disp[s].mask, k))
				sigaddset(&tmask[me], k);
		sigaddset(&tmask[me], s);
		in_handler[me]++;
		h(s);
		in_handler[me]--;
		tmask[me] = save;
		tr("\"e\":\"SigRet\",\"sig\":%d}", s);
		n++;
		s = 0;		/* the handler may have made others deliverable */
	}
	return n;
}

int simk_sig_pending_unblocked(int t)
{
	if (!simk_sig_enabled || t >= MAXTHR)
		return 0;
	for (int s = 1; s < NSIGS; s++)
		if ((tpend[t][s] && !sigismember(&tmask[t], s)) || proc_sig_for(t, s))
			return 1;
	return 0;
}

void simk_raise(int sig, int thread)
{
	if (sig <= 0 || sig >= NSIGS || thread < 0 || thread >= MAXTHR)
		return;
	/* a process-directed signal goes to some thread that can take it: if the
	 * named one is gone or parked (joining, waiting for a lock or a flag) and
	 * another one runs or waits with the signal unblocked, that one gets it */
	if (!simk_thread_takes_signals(thread)) {
		for (int t = 0; t < simk_nthreads() && t < MAXTHR; t++)
			if (simk_thread_takes_signals(t) && !sigismember(&tmask[t], sig)) {
				thread = t;
				break;
			}
	}
	tr("\"e\":\"SigGen\",\"sig\":%d,\"x\":%d}", sig, thread);
	tpend[thread][sig] = 1;
	simk_progress();
}

/* a thread ends: what is still pending for it was process-directed and goes to another thread */
void simk_sig_thread_exit(int t)
{
	if (!simk_sig_enabled || t < 0 || t >= MAXTHR)
		return;
	for (int s = 1; s < NSIGS; s++) {
		if (!tpend[t][s])
			continue;
		tpend[t][s] = 0;
		int to = -1;
		for (int u = 0; u < simk_nthreads() && u < MAXTHR; u++)
			if (u != t && simk_thread_takes_signals(u) && !sigismember(&tmask[u], s)) { to = u; break; }
		for (int u = 0; to < 0 && u < simk_nthreads() && u < MAXTHR; u++)
			if (u != t && simk_thread_alive(u)) to = u;
		if (to >= 0) {
			tr("\"e\":\"SigGen\",\"sig\":%d,\"x\":%d}", s, to);
			tpend[to][s] = 1;
		}
	}
	simk_progress();
}

static int do_sigmask(int how, const sigset_t *set, sigset_t *old)
{
	if (me >= MAXTHR)
		return 0;
	if (old)
		*old = tmask[me];
	if (set) {
		for (int s = 1; s < NSIGS; s++) {
			int in = sigismember(set, s);
			if (how == SIG_BLOCK && in)
				sigaddset(&tmask[me], s);
			else if (how == SIG_UNBLOCK && in)
				sigdelset(&tmask[me], s);
			else if (how == SIG_SETMASK) {
				if (in)
					sigaddset(&tmask[me], s);
				else
					sigdelset(&tmask[me], s);
			}
		}
		if (how != SIG_BLOCK && !in_handler[me])
			simk_sigpoint();
	}
	return 0;
}

int __wrap_pthread_sigmask(int how, const sigset_t *set, sigset_t *old)
{
	if (!simk_sig_enabled)
		return __real_pthread_sigmask(how, set, old);
	return do_sigmask(how, set, old);
}

int __wrap_sigprocmask(int how, const sigset_t *set, sigset_t *old)
{
	if (!simk_sig_enabled)
		return __real_pthread_sigmask(how, set, old);
	return do_sigmask(how, set, old);
}

void simk_thread_inherit_mask(int child, int parent)
{
	if (child < MAXTHR && parent < MAXTHR) {
		tmask[child] = tmask[parent];
		memset(tpend[child], 0, sizeof tpend[child]);
	}
}

/* -------------------------------------------------------------- processes */
#define MAXCH 16
struct child {
	pid_t pid;
	int alive;		/* not yet terminated */
	int reaped;		/* termination status collected by wait4 */
	int policy;		/* reaction to SIGTERM: 0 exit, 1 ignore, 2 exit after n */
	int nterm;
};
static struct child CH[MAXCH];
static int nch;
static struct { pid_t pid; int status; } SQ[64];
static int sqh, sqt;
static pid_t next_pids[16];
static int n_next, i_next;
static int sigchld_thread;
static void (*af_prepare[8])(void), (*af_parent[8])(void), (*af_child[8])(void);
static int naf;

pid_t __real_getpid(void);
pid_t __real_fork(void);
int __real_kill(pid_t, int);
pid_t __real_wait4(pid_t, int *, int, struct rusage *);
int __real_pthread_atfork(void (*)(void), void (*)(void), void (*)(void));

int __wrap_pthread_atfork(void (*prepare)(void), void (*parent)(void), void (*child)(void))
{
	if (naf < 8) {
		af_prepare[naf] = prepare;
		af_parent[naf] = parent;
		af_child[naf] = child;
		naf++;
	}
	return __real_pthread_atfork(prepare, parent, child);
}

pid_t __wrap_getpid(void)
{
	if (!simk_sig_enabled)
		return __real_getpid();
	if (!cur_pid)
		cur_pid = 1000;
	return cur_pid;
}

void simk_set_pid(pid_t p) { cur_pid = p; tr("\"e\":\"Pid\",\"pid\":%d}", (int)p); }
void simk_set_next_pids(const int *p, int n) { n_next = n > 16 ? 16 : n; for (int i = 0; i < n_next; i++) next_pids[i] = p[i]; i_next = 0; }
void simk_set_sigchld_thread(int t) { sigchld_thread = t; }

static struct child *child_of(pid_t pid, int live_only)
{
	for (int i = nch - 1; i >= 0; i--)
		if (CH[i].pid == pid && (!live_only || !CH[i].reaped))
			return &CH[i];
	return NULL;
}

pid_t __wrap_fork(void)
{
	if (!simk_sig_enabled)
		return __real_fork();
	int e = fault_check("fork");
	if (e) {
		errno = e;
		return -1;
	}
	for (int i = naf - 1; i >= 0; i--)
		if (af_prepare[i])
			af_prepare[i]();
	/* like a kernel, never hand out a pid whose previous owner has not
	 * been reaped yet */
	pid_t pid = 0;
	while (i_next < n_next && pid == 0) {
		pid_t c = next_pids[i_next++];
		if (child_of(c, 1) == NULL)
			pid = c;
	}
	if (pid == 0)
		pid = 200 + nch;
	if (nch < MAXCH) {
		CH[nch].pid = pid;
		CH[nch].alive = 1;
		CH[nch].reaped = 0;
		CH[nch].policy = 0;
		CH[nch].nterm = 0;
		nch++;
	}
	tr("\"e\":\"Fork\",\"pid\":%d}", (int)pid);
	for (int i = 0; i < naf; i++)
		if (af_parent[i])
			af_parent[i]();
	if (simk_fork_exit) {
		/* the child is gone before fork() has returned to the parent */
		if (simk_fork_exit > 0)
			simk_fork_exit--;
		simk_child_event(pid, 0, 0);
	}
	simk_yield();
	return pid;
}

/* a child that was not created through the library (a "stranger") */
void simk_add_child(pid_t pid)
{
	if (nch < MAXCH) {
		CH[nch].pid = pid;
		CH[nch].alive = 1;
		CH[nch].reaped = 0;
		CH[nch].policy = 0;
		CH[nch].nterm = 0;
		nch++;
		tr("\"e\":\"Fork\",\"pid\":%d}", (int)pid);
	}
}

void simk_child_policy(pid_t pid, int policy, int n)
{
	struct child *c = child_of(pid, 1);
	if (c) {
		c->policy = policy;
		c->nterm = n;
	}
}

/* what: 0 exit(code) 1 killed(sig) 2 stopped(sig) 3 continued */
void simk_child_event(pid_t pid, int what, int arg)
{
	struct child *c = child_of(pid, 1);
	int status;

	if (c == NULL || !c->alive)
		return;
	switch (what) {
	case 0: status = (arg & 0xff) << 8; c->alive = 0; break;
	case 1: status = arg & 0x7f; c->alive = 0; break;
	case 2: status = ((arg & 0xff) << 8) | 0x7f; break;
	default: status = 0xffff; break;
	}
	if ((sqt + 1) % 64 != sqh) {
		SQ[sqt].pid = pid;
		SQ[sqt].status = status;
		sqt = (sqt + 1) % 64;
	}
	tr("\"e\":\"Child\",\"pid\":%d,\"what\":%d,\"arg\":%d,\"st\":%d}", (int)pid, what, arg, status);
	simk_raise_process(SIGCHLD, sigchld_thread);
}

pid_t __wrap_wait4(pid_t pid, int *status, int options, struct rusage *ru)
{
	if (!simk_sig_enabled)
		return __real_wait4(pid, status, options, ru);
	int e = fault_check("wait4");
	if (e) {
		errno = e;
		return -1;
	}
	if (ru)
		memset(ru, 0, sizeof *ru);
	if (sqh != sqt) {
		pid_t p = SQ[sqh].pid;
		int st = SQ[sqh].status;
		sqh = (sqh + 1) % 64;
		if (status)
			*status = st;
		if (WIFEXITED(st) || WIFSIGNALED(st)) {
			struct child *c = child_of(p, 1);
			if (c)
				c->reaped = 1;
		}
		tr("\"e\":\"Reap\",\"pid\":%d,\"st\":%d,\"dead\":%d}", (int)p, st, (WIFEXITED(st) || WIFSIGNALED(st)) ? 1 : 0);
		return p;
	}
	for (int i = 0; i < nch; i++)
		if (!CH[i].reaped)
			return 0;
	errno = ECHILD;
	return -1;
}

int __wrap_kill(pid_t pid, int sig)
{
	if (!simk_sig_enabled)
		return __real_kill(pid, sig);
	struct child *c = child_of(pid, 0);
	int reaped = c ? (child_of(pid, 1) == NULL) : 0;

	tr("\"e\":\"Kill\",\"pid\":%d,\"sig\":%d,\"known\":%d,\"reaped\":%d,\"now\":[%lld,%lld]}", (int)pid, sig, c ? 1 : 0, reaped, TS(vnow));
	if (pid == __wrap_getpid()) {
		simk_raise(sig, me);
		return 0;
	}
	c = child_of(pid, 1);
	if (c == NULL) {
		errno = ESRCH;
		return -1;
	}
	if (!c->alive)
		return 0;	/* a zombie accepts signals */
	if (sig == SIGKILL) {
		simk_child_event(pid, 1, SIGKILL);
	} else if (sig == SIGTERM) {
		if (c->policy == 0)
			simk_child_event(pid, 1, SIGTERM);
		else if (c->policy == 2 && --c->nterm <= 0)
			simk_child_event(pid, 0, 0);
	} else if (sig == SIGSTOP) {
		simk_child_event(pid, 2, SIGSTOP);
	} else if (sig == SIGCONT) {
		simk_child_event(pid, 3, 0);
	}
	return 0;
}

void simk_sig_init(void)
{
	simk_sig_enabled = 1;
	cur_pid = 1000;
	for (int t = 0; t < MAXTHR; t++)
		sigemptyset(&tmask[t]);
}
