--------------------------- MODULE MC_TimerHeap ---------------------------
(* Exhaustive check of the timer store (IvTimerHeap): every sequence of
   iv_timer_register (expiry from 1..NExp, so equal keys occur), of
   iv_timer_unregister of ANY stored timer (root, last, interior) and of
   iv_run_timers passes, with at most MaxT timers, to a depth of MaxLevel
   operations (the configurations set MaxLevel beyond the diameter, i.e. the
   search is a complete reachability analysis, histories of any length).

   Timer identities do not influence the algorithm; states are kept modulo
   renaming (IvTimerHeap!Canon), a registration takes the lowest free id.

   Every operation is classified by what it has to do (tree growth / lazy
   allocation, level removal, sift direction, p == m).  The class is
   PREDICTED from the abstract heap and the outcome of the transcribed code
   must agree (assertion): an independent statement of what the operation has
   to do.  With CovPrint = TRUE every transition prints "COV <op> <class>";
   the driver (lib/check_c05heap.py) counts them and fails the check build if
   one of the paths was never taken.  (`-coverage 1` cannot be used here:
   TLC's cost model expands every call site of the nested operators of
   IvTimerHeap and runs out of memory.) *)
EXTENDS IvTimerHeap

CONSTANTS MaxT, NExp, MaxLevel,
          CovPrint     \* TRUE: print one COV line per transition (path accounting)
VARIABLES h, reg
vars == <<h, reg>>

TimerSet == 1..MaxT
Exps == 1..NExp
Free == TimerSet \ reg
NextId == CHOOSE t \in Free : \A u \in Free : t <= u

Init == h = Init0 /\ reg = {}

(* does the leaf that holds `index` exist already? *)
RECURSIVE Exists(_, _, _, _)
Exists(a, r, i, index) ==
  IF r = NULL THEN FALSE ELSE IF i = 0 THEN TRUE
  ELSE Exists(a, a.nd[r][Shr(index, i * SplitBits) % Arity], i - 1, index)

RegPredict(a, e) ==
  LET k == a.n + 1 IN
  << IF Grows(a, k) THEN "grow" ELSE IF ~Exists(a, Root(a), a.depth, k) THEN "alloc" ELSE "plain",
     IF k > 1 /\ a.ex[Slot(a, k \div 2)] > e THEN "up" ELSE "stay" >>

Cov(op, c) == CovPrint => PrintT("COV " \o op \o " " \o c[1] \o " " \o c[2])

RegOutcome(a, b, t) ==
  << IF b.depth > a.depth THEN "grow" ELSE IF b.alloc # a.alloc THEN "alloc" ELSE "plain",
     IF b.ix[t] < b.n THEN "up" ELSE "stay" >>

(* (state-level operator: TLC caches the LET, the operation is computed once) *)
RegChecked(a, t, e, c) ==
  LET b == Register(a, t, e)
  IN IF /\ Assert(RegOutcome(a, b, t) = c, <<"register did not do what the heap requires", c>>)
        /\ Cov("Reg", c)
     THEN Canon(b) ELSE a

Reg(e, c) ==
  /\ Free # {}
  /\ h' = RegChecked(h, NextId, e, c)
  /\ reg' = 1..(h.n + 1)

RegAny(e) == Reg(e, RegPredict(h, e))

UnPredict(a, t) ==
  LET i    == a.ix[t]
      x    == a.ex[Slot(a, a.n)]           \* key of the replacement
      m    == a.n - 1                      \* population afterwards
  IN << IF i = a.n THEN "last"                                         \* p == m
        ELSE IF i > 1 /\ a.ex[Slot(a, i \div 2)] > x THEN "up"
        ELSE IF \E c \in {2 * i, 2 * i + 1} : c <= m /\ a.ex[Slot(a, c)] < x THEN "down"
        ELSE "stay",
        IF LevelBoundary(a) THEN "level" ELSE "nolevel" >>

UnOutcome(a, b, t) ==
  LET i    == a.ix[t]
      last == Slot(a, a.n)
  IN << IF i = a.n THEN "last"
        ELSE IF b.ix[last] < i THEN "up"
        ELSE IF b.ix[last] > i THEN "down"
        ELSE "stay",
        IF b.depth < a.depth THEN "level" ELSE "nolevel" >>

UnregChecked(a, t, c) ==
  LET b == Unregister(a, t)
  IN IF /\ Assert(UnOutcome(a, b, t) = c, <<"unregister did not do what the heap requires", c>>)
        /\ Cov("Unreg", c)
     THEN Canon(b) ELSE a

Unreg(t, c) ==
  /\ t \in reg
  /\ h' = UnregChecked(h, t, c)
  /\ reg' = 1..(h.n - 1)

UnregAny(t) == t \in reg /\ Unreg(t, UnPredict(h, t))

(* one iv_run_timers pass at time `now` whose handlers do nothing *)
PopOK(a, r, now) ==
  /\ \A k \in 1..Len(r.q) : a.ex[r.q[k]] <= now
  /\ \A k \in 1..(Len(r.q) - 1) : a.ex[r.q[k]] <= a.ex[r.q[k + 1]]
  /\ \A t \in Stored(r.h) : a.ex[t] > now
  /\ {r.q[k] : k \in 1..Len(r.q)} \cup Stored(r.h) = Stored(a)
  /\ Len(r.q) + r.h.n = a.n

FireChecked(a, now) ==
  LET r    == RunTimers(a, now, <<>>)
      gone == {r.q[k] : k \in 1..Len(r.q)}
  IN IF Len(r.q) = 0 THEN a
     ELSE IF Assert(PopOK(a, r, now), <<"iv_run_timers pops out of order", r.q>>) /\ Cov("Fire", <<"pop", "pop">>)
     THEN Canon([r.h EXCEPT !.ix = [t \in Timers |-> IF t \in gone THEN -1 ELSE r.h.ix[t]]])
     ELSE a

Fire(now) ==
  /\ h.n > 0 /\ h.ex[Slot(h, 1)] <= now
  /\ h' = FireChecked(h, now)
  /\ reg' = 1..h'.n

Next ==
  \/ \E e \in Exps : RegAny(e)
  \/ \E t \in TimerSet : UnregAny(t)
  \/ \E now \in Exps : Fire(now)

Spec == Init /\ [][Next]_vars

LevelBound == TLCGet("level") <= MaxLevel

(* invariants, one per clause so that a failure names it *)
IHeapOrder    == HeapOrder(h)
IBackIndex    == StoredOK(h) /\ BackIndex(h)
IRootIsMin    == RootIsMin(h)
INoStale      == NoStale(h)
IDepthMinimal == DepthMinimal(h)
INoDangling   == NoDangling(h) /\ OverlayOK(h)
INoLeak       == NoLeak(h)
IMultiset     == NoDup(h) /\ Stored(h) = reg /\ {t \in Timers : h.ix[t] # -1} = reg /\ h.n = Cardinality(reg)
IDeinit       == DeinitFrees(h)
=============================================================================
