SPECIFICATION Spec
CONSTANTS
  FD = {1, 2}
  TM = {1, 2}
  TK = {1, 2}
  EVS = {1}
  Method = "ep"
  Hids = {1}
  Expiries = {0, 2, 3}
  MaxTime = 6
  MaxOps = 9
  MaxCbOps = 2
  MaxSetup = 3
  MaxWaits = 6
  MaxKern = 4
  AllowTry = FALSE
  KeepTasks = TRUE
  KernMode = "pipe"
  GenMode = TRUE
  MaxIntr = 0
  InitBits = {0, 1}
INVARIANTS NoViolation Emit
CHECK_DEADLOCK FALSE
