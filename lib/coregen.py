#!/usr/bin/env python3
"""Seeded random generator of loop-core scripts for ivh_core (DESIGN App. B).
Every script is a valid API program: operations whose precondition does not
hold at run time are skipped by the harness itself."""
import random

METHODS = ["epoll-timerfd", "epoll", "ppoll", "poll"]
PTYPES = ["pr", "pw", "sk"]

# timer expiry choices: (mode, s, ns)  mode 0 abs(VBASE+off) 1 rel-to-now 2 zero
EXPIRIES = [(2, 0, 0), (0, -5, 0), (0, 0, 0), (0, 0, 1), (1, 0, 0), (1, 0, 1000000),
            (1, 0, 1500000), (1, 0, 1), (1, 0, 999999), (1, 2, 0), (1, 2, 0), (1, 0, 500000000),
            (1, 7, 0), (1, 100, 0), (0, 3, 0), (0, 3, 0)]


class Gen:
    def __init__(self, rnd, nfd=3, ntm=3, ntk=3, nev=2, nraw=1, kinds=None, modes=None):
        ntm = 8 if modes and "heap" in modes else ntm
        self.r = rnd
        self.modes = modes
        self.n = {"fd": nfd, "tm": ntm, "tk": ntk, "ev": nev, "raw": nraw}
        if kinds is not None:
            for k in self.n:
                if k not in kinds:
                    self.n[k] = 0
        self.lines = []

    def pick_obj(self, kind):
        return self.r.randint(1, self.n[kind])

    def api_op(self, setup=False):
        """one random API operation (as text)"""
        r = self.r
        if setup and r.random() < 0.8:
            kinds = [k for k in self.n if self.n[k] > 0]
            k = r.choice(kinds)
            o = self.pick_obj(k)
            if k == "fd":
                if r.random() < 0.12:
                    return "fd_reg %d 0 0 %d" % (o, r.choice([1, 2]))     # error band only
                if r.random() < 0.2:
                    # register_try, often without any handler yet (they are installed later)
                    hs = (0, 0, 0) if r.random() < 0.5 else (r.choice([0, 1]), r.choice([0, 1]), 0)
                    return "fd_try %d %d %d %d" % ((o,) + hs)
                return "fd_reg %d %d %d %d" % (o, r.choice([0, 1, 1, 2]), r.choice([0, 0, 1, 2]), r.choice([0, 0, 1, 2]))
            if k == "tm":
                return "tm_reg %d %d %d %d" % ((o,) + r.choice(EXPIRIES))
            return {"tk": "tk_reg %d", "ev": "ev_reg %d", "raw": "raw_reg %d"}[k] % o
        kinds = [k for k in self.n if self.n[k] > 0]
        weights = {"fd": 6, "tm": 4, "tk": 4, "ev": 3, "raw": 2}
        k = r.choices(kinds, [weights[x] for x in kinds])[0]
        o = self.pick_obj(k)
        if k == "fd":
            c = r.random()
            if c < 0.04:
                return "fd_reg %d 0 0 %d" % (o, r.choice([1, 2]))     # error band only
            if c < 0.22:
                return "fd_reg %d %d %d %d" % (o, r.choice([0, 1, 1, 2]), r.choice([0, 0, 1, 2]), r.choice([0, 0, 1, 2]))
            if c < 0.30:
                if r.random() < 0.4:
                    return "fd_try %d 0 0 0" % o
                return "fd_try %d %d %d %d" % (o, r.choice([0, 1, 2]), r.choice([0, 1]), r.choice([0, 1]))
            if c < 0.52:
                return "fd_unreg %d" % o
            if c < 0.80:
                return "fd_set %d %d %d" % (o, r.randint(1, 3), r.choice([0, 0, 1, 2]))
            if c < 0.84:
                return "fd_cookie %d %d" % (o, r.randint(0, 1))
            if c < 0.88:
                return "%s %d" % (r.choice(["fd_newos", "fd_swapos"]), o)
            if c < 0.95:
                return "drain %d" % o
            return r.choice(["rd %d 1", "wr %d 3", "fill %d"]) % o
        if k == "tm":
            if r.random() < 0.6:
                m, s, ns = r.choice(EXPIRIES)
                return "tm_reg %d %d %d %d" % (o, m, s, ns)
            return "tm_unreg %d" % o
        if k == "tk":
            return ("tk_reg %d" if r.random() < 0.65 else "tk_unreg %d") % o
        if k == "ev":
            c = r.random()
            return ("ev_reg %d" if c < 0.3 else "ev_unreg %d" if c < 0.5 else "ev_post %d") % o
        c = r.random()
        return ("raw_reg %d" if c < 0.3 else "raw_unreg %d" if c < 0.5 else "raw_post %d") % o

    def misc_op(self):
        r = self.r
        c = r.random()
        if c < 0.15:
            return "quit"
        if c < 0.4:
            return "slow %d %d" % r.choice([(0, 1000000), (0, 1), (1, 0), (3, 0), (0, 2500000)])
        if c < 0.7:
            return "validate"
        return "invalidate"

    def victim_ops(self, kinds=("fd", "tm", "tk", "ev", "raw")):
        """ops that take an object away / change it while it may be queued"""
        r = self.r
        out = []
        for _ in range(r.randint(1, 3)):
            k = r.choice([k for k in kinds if self.n[k] > 0])
            o = self.pick_obj(k)
            if k == "fd":
                c = r.random()
                if c < 0.45:
                    out.append("fd_unreg %d" % o)
                    if r.random() < 0.5:
                        if r.random() < 0.3:
                            out.append("fd_newos %d" % o)
                        out.append("fd_reg %d %d %d %d" % (o, r.choice([0, 1, 2]), r.choice([0, 1, 2]), r.choice([0, 1, 2])))
                elif c < 0.85:
                    out.append("fd_set %d %d %d" % (o, r.randint(1, 3), r.choice([0, 0, 1, 2])))
                else:
                    out.append("fd_cookie %d %d" % (o, r.randint(0, 1)))
            elif k == "tm":
                out.append("tm_unreg %d" % o)
                if r.random() < 0.5:
                    out.append("tm_reg %d %d %d %d" % ((o,) + r.choice(EXPIRIES)))
            elif k == "tk":
                out.append(r.choice(["tk_unreg %d", "tk_reg %d", "tk_unreg %d"]) % o)
                if r.random() < 0.4:
                    out.append("tk_reg %d" % o)
            elif k == "ev":
                out.append(r.choice(["ev_unreg %d", "ev_post %d", "ev_unreg %d"]) % o)
                if r.random() < 0.3:
                    out.append("ev_reg %d" % o)
            else:
                out.append(r.choice(["raw_unreg %d", "raw_post %d"]) % o)
        return out

    def script(self, sid, method, faults=(), maxwait=14, mode=None):
        r = self.r
        if mode is None:
            mode = r.choice(self.modes or ["random", "random", "multiready", "multiready", "churn", "regchurn", "timers", "timers", "tasks", "events"])
        L = ["B %s method=%s seed=%d maxwait=%d reuse=%d keep=%d" % (sid, method, r.randint(1, 1 << 30), maxwait, r.randint(0, 1),
                                                                         1 if r.random() < 0.35 else 0)]
        ptypes = {}
        for k in ("fd", "tm", "tk", "ev", "raw"):
            for i in range(1, self.n[k] + 1):
                if k == "fd":
                    ptypes[i] = r.choice(PTYPES)
                L.append("O %s %d %s" % (k, i, ptypes.get(i, "")))
        R = []    # reaction lines
        if mode == "multiready" and self.n["fd"]:
            # several descriptors ready in the same iteration; the first
            # callbacks take the others away / change them
            for f in range(1, self.n["fd"] + 1):
                if r.random() < 0.85:
                    pt = ptypes[f]
                    hin = r.choice([1, 2]) if pt != "pw" or r.random() < 0.3 else 0
                    hout = r.choice([1, 2]) if pt != "pr" or r.random() < 0.3 else r.choice([0, 0, 1])
                    L.append("S fd_reg %d %d %d %d" % (f, hin, hout, r.choice([0, 0, 1])))
                    if pt != "pw" and r.random() < 0.8:
                        L.append("S pwrite %d %d" % (f, r.choice([1, 5])))
                    if r.random() < 0.15:
                        L.append("S pclose %d" % f)
            for f in range(1, self.n["fd"] + 1):
                for b in (1, 2, 3):
                    if r.random() < 0.6:
                        for op in self.victim_ops(("fd",) if r.random() < 0.7 else ("fd", "tm", "tk", "ev")):
                            R.append("R fd %d %d %d %s" % (f, b, r.choice([1, 1, 2, 0]), op))
        elif mode == "churn" and self.n["fd"]:
            for f in range(1, self.n["fd"] + 1):
                L.append("S fd_reg %d %d %d %d" % (f, r.choice([0, 0, 1]), r.choice([0, 0, 1]), r.choice([0, 0, 1])))
                for _ in range(r.randint(0, 4)):
                    L.append("S fd_set %d %d %d" % (f, r.randint(1, 3), r.choice([0, 1, 2])))
            if self.n["tk"]:
                L.append("S tk_reg 1")
                for _ in range(r.randint(1, 5)):
                    f = self.pick_obj("fd")
                    R.append("R tk 1 0 %d fd_set %d %d %d" % (r.choice([1, 1, 2]), f, r.randint(1, 3), r.choice([0, 1, 2])))
                if r.random() < 0.5:
                    R.append("R tk 1 0 1 tk_reg 1")
            for f in range(1, self.n["fd"] + 1):
                for b in (1, 2, 3):
                    for _ in range(r.randint(0, 3)):
                        g = self.pick_obj("fd")
                        R.append("R fd %d %d %d fd_set %d %d %d" % (f, b, r.choice([1, 2, 3, 0]), g, r.randint(1, 3), r.choice([0, 0, 1, 2])))
        elif mode == "erronly" and self.n["fd"] and self.n["tm"] >= 2:
            # descriptors watched for hang-up / error only (no input or output interest),
            # unregistered or re-purposed later, then the peer goes away
            maxwait = 20
            for f in range(1, self.n["fd"] + 1):
                c = r.random()
                if c < 0.5:
                    L.append("S fd_reg %d 0 0 %d" % (f, r.choice([1, 2])))
                elif c < 0.8:
                    L.append("S fd_reg %d %d 0 1" % (f, r.choice([1, 2])))
                    R.append("R tm 1 0 1 fd_set %d 1 0" % f)
                else:
                    L.append("S fd_reg %d 1 0 0" % f)
            L.append("S tm_reg 1 1 0 %d" % r.choice([1000, 1000000]))
            L.append("S tm_reg 2 1 %d 0" % r.choice([1, 2]))
            L.append("S tm_reg 3 1 %d 0" % r.choice([8, 9]))
            for f in range(1, self.n["fd"] + 1):
                c = r.random()
                if c < 0.6:
                    R.append("R tm 2 0 1 fd_unreg %d" % f)
                    if r.random() < 0.4:
                        R.append("R tm 2 0 1 fd_swapos %d" % f)
                        R.append("R tm 2 0 1 fd_reg %d 1 0 0" % f)
                elif c < 0.8:
                    R.append("R tm 2 0 1 fd_set %d 3 0" % f)
                R.append("R fd %d 3 0 fd_unreg %d" % (f, f))
                R.append("R fd %d 1 0 drain %d" % (f, f))
            for q in range(3, 7):
                if r.random() < 0.7:
                    L.append("E %d pclose %d" % (q, self.pick_obj("fd")))
        elif mode == "regchurn" and self.n["fd"] >= 2:
            # the back end's per-descriptor bookkeeping (poll array slots, epoll
            # notify list) under register / unregister / re-register churn, with
            # the descriptors readable so that every slot mix-up shows
            nf = self.n["fd"]
            for f in range(1, nf + 1):
                L.append("S fd_reg %d 1 0 0" % f)
            if r.random() < 0.4:
                # a slot is vacated in the middle (the last entry moves there), refilled at the end, and
                # then the entry that moved is changed or removed
                a = r.randint(1, nf - 1)
                L += ["S fd_unreg %d" % a, "S fd_reg %d 1 0 0" % a]
                if r.random() < 0.5:
                    L.append("S fd_set %d %d %d" % (nf, r.randint(1, 2), r.choice([0, 1])))
                if r.random() < 0.7:
                    L.append("S fd_unreg %d" % nf)
            for _ in range(r.randint(3, 9) if r.random() < 0.8 else 0):
                f = r.randint(1, nf)
                c = r.random()
                if c < 0.45:
                    L.append("S fd_unreg %d" % f)
                elif c < 0.8:
                    if r.random() < 0.4:
                        L.append("S fd_unreg %d" % f)
                        if r.random() < 0.6:
                            L.append("S %s %d" % (r.choice(["fd_newos", "fd_swapos", "fd_swapos"]), f))
                    L.append("S fd_reg %d %d %d 0" % (f, r.choice([1, 1, 2]), r.choice([0, 0, 1])))
                else:
                    L.append("S fd_set %d %d %d" % (f, r.randint(1, 2), r.choice([0, 1, 2])))
            for f in range(1, nf + 1):
                if ptypes[f] != "pw" and r.random() < 0.7:
                    L.append("%s pwrite %d 2" % (r.choice(["S", "E 1", "E 2"]), f))
                R.append("R fd %d 1 %d drain %d" % (f, r.choice([1, 2, 3]), f))
                if r.random() < 0.5:
                    g = r.randint(1, nf)
                    R.append("R fd %d 1 %d fd_unreg %d" % (f, r.choice([1, 2]), g))
                    if r.random() < 0.6:
                        R.append("R fd %d 1 %d fd_reg %d 1 0 0" % (f, r.choice([1, 2]), g))
        elif mode == "never" and self.n["tm"] >= 3:
            # a "never" timer (decades away) next to ordinary ones: it must not get in their way; the last
            # ordinary timer to run takes it away again
            n = self.n["tm"]
            far = r.randint(1, n)
            order = list(range(1, n + 1))
            r.shuffle(order)
            near = []
            for t in order:
                if t == far:
                    L.append("S tm_reg %d 1 %d 0" % (t, r.choice([3000000000, 2147483648, 4000000000])))
                elif r.random() < 0.8 or not near:
                    ms = r.randint(1, 400)
                    L.append("S tm_reg %d 1 0 %d" % (t, ms * 1000000))
                    near.append((ms, t))
            last = max(near)[1]
            R.append("R tm %d 0 1 tm_unreg %d" % (last, far))
            if r.random() < 0.5 and len(near) > 1:
                a = r.choice(near)[1]
                R.append("R tm %d 0 1 tm_reg %d 1 0 %d" % (a, a, r.randint(1, 50) * 1000000))
            maxwait = 30
        elif mode == "heap" and self.n["tm"] >= 6:
            # a populated timer heap: interior / last / root removals, then time passes
            n = self.n["tm"]
            exps = r.sample(range(1, 40), n)
            if r.random() < 0.3:
                exps[r.randrange(n)] = exps[r.randrange(n)]      # an equal pair
            for t in range(1, n + 1):
                L.append("S tm_reg %d 1 0 %d" % (t, exps[t - 1] * 5000000))
            for _ in range(r.randint(1, 3)):
                t = r.randint(1, n)
                L.append("S tm_unreg %d" % t)
                if r.random() < 0.4:
                    L.append("S tm_reg %d 1 0 %d" % (t, r.randint(1, 40) * 5000000))
            for t in range(1, n + 1):
                if r.random() < 0.3:
                    u = r.randint(1, n)
                    R.append("R tm %d 0 1 tm_unreg %d" % (t, u))
                    if r.random() < 0.5:
                        R.append("R tm %d 0 1 tm_reg %d 1 0 %d" % (t, u, r.randint(1, 30) * 5000000))
            maxwait = 30
        elif mode == "timers" and self.n["tm"] and self.n["fd"] and r.random() < 0.2:
            # the kernel timer is armed for the only timer, the timer is taken away, its (stale) expiry passes
            # while the loop is busy, then another timer is registered: the loop must still wake up for it
            f = self.pick_obj("fd")
            t1, t2 = 1, min(2, self.n["tm"])
            k = r.randint(6, 9)
            L += ["S tm_reg %d 1 0 %d" % (t1, r.choice([20, 40]) * 1000000), "S fd_newos %d" % f, "S fd_reg %d 1 0 0" % f]
            R += ["R fd %d 1 0 drain %d" % (f, f), "R fd %d 1 %d tm_unreg %d" % (f, k, t1),
                  "R fd %d 1 %d tm_reg %d 1 0 %d" % (f, k + 3, t2, r.choice([30, 50, 200]) * 1000000)]
            for q in range(1, 14):
                L.append("E %d pwrite %d 1" % (q, f))
            L.append("E %d advance 0 %d" % (k + 1, r.choice([45, 60]) * 1000000))
            maxwait = 30
        elif mode == "timers" and self.n["tm"]:
            base = r.choice(EXPIRIES)
            for t in range(1, self.n["tm"] + 1):
                e = base if r.random() < 0.4 else r.choice(EXPIRIES)
                L.append("S tm_reg %d %d %d %d" % ((t,) + e))
            for t in range(1, self.n["tm"] + 1):
                for occ in (1, 2, 3, 0):
                    if r.random() < 0.5:
                        for op in self.victim_ops(("tm",) if r.random() < 0.7 else ("tm", "fd", "tk")):
                            R.append("R tm %d 0 %d %s" % (t, occ, op))
            if self.n["fd"] and r.random() < 0.7:
                # descriptor traffic that leaves the soonest deadline unchanged
                f = self.pick_obj("fd")
                L.append("S fd_newos %d" % f)
                L.append("S fd_reg %d 1 0 0" % f)
                R.append("R fd %d 1 0 drain %d" % (f, f))
                maxwait = 30
                for q in range(1, 18):
                    L.append("E %d pwrite %d 1" % (q, f))
                # after the repeated-deadline optimisation engaged: an earlier timer
                # appears, an equal one, or the soonest one goes away
                for _ in range(r.randint(0, 2)):
                    t = self.pick_obj("tm")
                    k = r.randint(5, 10)
                    c = r.random()
                    if c < 0.6:
                        R.append("R fd %d 1 %d tm_reg %d 1 0 %d" % (f, k, t, r.choice([1, 1000000, 50000000, 1500000])))
                        R.append("R fd %d 1 %d tm_unreg %d" % (f, k - 1, t))
                    elif c < 0.8:
                        R.append("R fd %d 1 %d tm_unreg %d" % (f, k, t))
                    else:
                        R.append("R fd %d 1 %d tm_reg %d 1 %d 0" % (f, k, t, r.choice([2, 7])))
                if self.n["tk"] and r.random() < 0.5:
                    # ... or a task is registered (and re-registers itself): "do not block" must win
                    # over the armed kernel timer
                    k = self.pick_obj("tk")
                    R.append("R fd %d 1 %d tk_reg %d" % (f, r.randint(5, 10), k))
                    if r.random() < 0.7:
                        R.append("R tk %d 0 %d tk_reg %d" % (k, r.choice([1, 1, 0]), k))
        elif mode == "tasks" and self.n["tk"]:
            if r.random() < 0.35:
                # a loop that has been running for a long time (round counter near a 16 / 32 bit boundary)
                L.append("S warp_epoch %d" % r.choice([65530, 65534, 65536, 4294967290, 131070]))
                k = self.pick_obj("tk")
                L.append("S tk_reg %d" % k)
                R.append("R tk %d 0 0 tk_reg %d" % (k, k))      # keeps re-registering itself
                if self.n["tm"] and r.random() < 0.6:
                    # ... taking its time, while a timer comes due
                    R.append("R tk %d 0 0 tick 0 %d" % (k, r.choice([300000, 2000000, 40000000])))
                    t = self.pick_obj("tm")
                    L.append("S tm_reg %d 1 0 %d" % (t, r.choice([1000000, 5000000, 100000000])))
                    R.append("R tm %d 0 1 tk_unreg %d" % (t, k))
                if self.n["fd"]:
                    f = self.pick_obj("fd")
                    L += ["S fd_newos %d" % f, "S fd_reg %d 1 0 0" % f, "S pwrite %d 3" % f]
                    R.append("R fd %d 1 %d drain %d" % (f, r.randint(4, 12), f))
            for k in range(1, self.n["tk"] + 1):
                if r.random() < 0.8:
                    L.append("S tk_reg %d" % k)
            for k in range(1, self.n["tk"] + 1):
                for occ in (1, 2, 3, 0):
                    if r.random() < 0.6:
                        for op in self.victim_ops(("tk",) if r.random() < 0.7 else ("tk", "tm", "fd", "ev")):
                            R.append("R tk %d 0 %d %s" % (k, occ, op))
        elif mode == "events" and (self.n["ev"] or self.n["raw"]):
            for k in ("ev", "raw"):
                for o in range(1, self.n[k] + 1):
                    L.append("S %s_reg %d" % (k, o))
                    if r.random() < 0.6:
                        L.append("S %s_post %d" % (k, o))
            for k in ("ev", "raw"):
                for o in range(1, self.n[k] + 1):
                    for occ in (1, 2, 0):
                        if r.random() < 0.6:
                            for op in self.victim_ops(("ev", "raw") if self.n["raw"] and self.n["ev"] else ("ev",) if self.n["ev"] else ("raw",)):
                                R.append("R %s %d 0 %d %s" % (k, o, occ, op))
        if self.n["fd"] and r.random() < 0.2:
            # a registration attempt that fails (closed descriptor), then the same
            # object is registered on a fresh descriptor with the same handlers
            f = self.pick_obj("fd")
            hs = (r.choice([1, 2]), r.choice([0, 0, 1]), r.choice([0, 0, 1]))
            where = "S" if r.random() < 0.6 or not self.n["tk"] else None
            seq = ["fd_unreg %d" % f, "fd_closeos %d" % f, "fd_try %d %d %d %d" % ((f,) + hs), "fd_newos %d" % f,
                   "fd_reg %d %d %d %d" % ((f,) + hs)]
            if where:
                L += ["S " + x for x in seq]
                if ptypes.get(f) != "pw":
                    L.append("S pwrite %d 3" % f)
            else:
                L.append("S tk_reg 1")
                R += ["R tk 1 0 1 " + x for x in seq]
        for _ in range(r.randint(1, 7) if mode == "random" else r.randint(0, 3)):
            L.append("S " + self.api_op(setup=True))
        if r.random() < 0.15:
            L.append("S " + self.misc_op())
        L += R
        # random reactions
        dens = 1.0 if mode == "random" else 0.4
        for k in ("fd", "tm", "tk", "ev", "raw"):
            for o in range(1, self.n[k] + 1):
                for b in ((1, 2, 3) if k == "fd" else (0,)):
                    if k == "fd" and b == 1 and r.random() < 0.7:
                        # a typical reader: consume what made it readable
                        L.append("R fd %d 1 %d drain %d" % (o, r.choice([0, 0, 1, 2]), o))
                    for occ in (1, 2, 3, 0):
                        if r.random() < dens * (0.5 if occ == 1 else 0.25):
                            for _ in range(r.randint(1, 3)):
                                op = self.api_op() if r.random() < 0.9 else self.misc_op()
                                L.append("R %s %d %d %d %s" % (k, o, b, occ, op))
        # environment
        for q in range(1, 9):
            if r.random() < 0.6:
                for _ in range(r.randint(1, 3)):
                    f = self.pick_obj("fd") if self.n["fd"] else 0
                    c = r.random()
                    if c < 0.2 or not f:
                        s, ns = r.choice([(0, 1), (0, 500000), (0, 1000000), (1, 0), (2, 0), (10, 0), (0, 1200000)])
                        L.append("E %d advance %d %d" % (q, s, ns))
                    elif c < 0.6:
                        L.append("E %d pwrite %d %d" % (q, f, r.choice([1, 3, 100])))
                    elif c < 0.75:
                        L.append("E %d pdrain %d" % (q, f))
                    elif c < 0.9:
                        L.append("E %d pclose %d" % (q, f))
                    else:
                        L.append("E %d pshut %d" % (q, f))
        if r.random() < 0.25:
            # the wait is interrupted by a signal after some time has passed
            L[0] += " sigsim=1"
            for q in r.sample(range(1, 9), r.randint(1, 3)):
                sec, ns = r.choice([(0, 300000), (0, 500000000), (1, 0), (0, 1)])
                L.append("E %d advance %d %d" % (q, sec, ns))
                L.append("E %d intr 0" % q)
        for f in faults:
            L.append("F " + f)
        L[0] = L[0].replace("maxwait=14", "maxwait=%d" % maxwait)
        L.append("X")
        return "\n".join(L) + "\n"


def fixed_fd_scripts(prefix, methods=METHODS):
    """A small library of hand-written descriptor scenarios aimed at the per-descriptor bookkeeping of the
    back ends (poll array slots, epoll registrations): a slot is vacated in the middle, refilled, the entry
    that moved is then removed / changed / re-registered on another OS descriptor.  Every variant runs with
    the object memory reused as it is (keep=1) and poisoned and replaced (keep=0)."""
    out = []
    decl = ["O fd %d %s" % (f, t) for f, t in ((1, "pr"), (2, "pr"), (3, "pr"), (4, "sk"))]
    drain = ["R fd %d 1 0 drain %d" % (f, f) for f in (1, 2, 3, 4)]
    tail = ["E 2 pwrite 1 1", "E 3 pwrite 2 1", "E 4 pwrite 3 1", "E 5 pwrite 4 1", "E 6 pwrite 1 2"]
    n = 0
    for nf in (3, 4):
        regs = ["S fd_reg %d 1 0 0" % f for f in range(1, nf + 1)]
        for a in range(1, nf):
            for variant in ("unreg-last", "swap-last", "set-last", "unreg-swap-a"):
                body = list(regs) + ["S fd_unreg %d" % a, "S fd_reg %d 1 0 0" % a]
                if variant == "unreg-last":
                    body += ["S fd_unreg %d" % nf]
                elif variant == "swap-last":
                    body += ["S fd_unreg %d" % nf, "S fd_swapos %d" % nf, "S fd_reg %d 1 0 0" % nf]
                elif variant == "set-last":
                    body += ["S fd_set %d 2 1" % nf, "S fd_set %d 1 0" % nf, "S fd_set %d 1 1" % nf]
                else:
                    body += ["S fd_unreg %d" % a, "S fd_swapos %d" % a, "S fd_reg %d 1 0 0" % a, "S fd_unreg %d" % nf]
                for keep in (0, 1):
                    for m in methods:
                        n += 1
                        out.append("\n".join(["B %sf%d.%s.%s method=%s seed=%d maxwait=14 reuse=%d keep=%d" %
                                              (prefix, n, variant, m, m, n, keep, keep)] + decl[:nf] + body + drain[:nf] +
                                             [t for t in tail if int(t.split()[3]) <= nf] + ["X"]) + "\n")
    # a registration attempt on a closed descriptor fails and must leave nothing behind: the number is
    # handed out again, registered, used, unregistered, and becomes ready once more afterwards
    for keep in (0, 1):
        for tail_unreg in (0, 1):
            for m in methods:
                n += 1
                # tail_unreg = 0: the same object takes the new descriptor; 1: another object does
                who = 4 if tail_unreg else 3
                body = ["S fd_reg 1 1 0 0", "S fd_reg 2 1 0 0", "S fd_closeos 3", "S fd_try 3 1 0 0", "S fd_newos %d" % who,
                        "S fd_reg %d 1 0 0" % who]
                react = ["R fd 1 1 0 drain 1", "R fd 2 1 0 drain 2", "R fd 3 1 0 drain 3", "R fd 4 1 0 drain 4",
                         "R fd 1 1 2 fd_unreg %d" % who]
                env = ["E 1 pwrite %d 1" % who, "E 2 pwrite 1 1", "E 3 pwrite %d 1" % who, "E 4 pwrite 1 1", "E 5 pwrite %d 1" % who,
                       "E 6 pwrite 2 1"]
                out.append("\n".join(["B %sf%d.try-closed.%s method=%s seed=%d maxwait=14 reuse=%d keep=%d" % (prefix, n, m, m, n, keep, keep)]
                                     + decl[:4] + body + react + env + ["X"]) + "\n")
    return out


def fixed_tm_scripts(prefix, methods=METHODS):
    """hand-written timer scenarios around the kernel timer of the epoll-timerfd back end (they run on
    every method): the timer is armed after five wake-ups with the same soonest deadline"""
    out = []
    n = 0
    for k, later, t2 in ((7, 3, 50), (6, 2, 30), (9, 4, 200)):
        for m in methods:
            n += 1
            # the only timer is taken away, its stale expiry passes while the loop is busy, a new timer appears
            L = ["B %st%d.stale-kernel-timer.%s method=%s seed=%d maxwait=30" % (prefix, n, m, m, n), "O fd 1 pr", "O tm 1", "O tm 2",
                 "S tm_reg 1 1 0 20000000", "S fd_reg 1 1 0 0", "R fd 1 1 0 drain 1", "R fd 1 1 %d tm_unreg 1" % k,
                 "R fd 1 1 %d tm_reg 2 1 0 %d" % (k + later, t2 * 1000000)]
            L += ["E %d pwrite 1 1" % q for q in range(1, k + later + 2)]
            L.insert(9 + k, "E %d advance 0 45000000" % (k + 1))
            out.append("\n".join(L + ["X"]) + "\n")
            n += 1
            # an earlier timer (earlier by whole seconds, later within the second) appears once the kernel timer is armed
            L = ["B %st%d.earlier-timer.%s method=%s seed=%d maxwait=30" % (prefix, n, m, m, n), "O fd 1 pr", "O tm 1", "O tm 2",
                 "S tm_reg 1 1 6 100000000", "S fd_reg 1 1 0 0", "R fd 1 1 0 drain 1",
                 "R fd 1 1 %d tm_reg 2 1 1 900000000" % k]
            L += ["E %d pwrite 1 1" % q for q in range(1, k + 3)]
            out.append("\n".join(L + ["X"]) + "\n")
    # a slow handler registers a timer, takes longer than the timer's delay and tells the library
    # (iv_invalidate_now): the wait that follows is computed from a fresh clock reading, not the stale one.
    # No timer exists at the top of that iteration (the timer pass has not read the clock either).
    for who, sec, ns, slow in (("tk", 1, 0, (1, 500000000)), ("fd", 0, 30000000, (0, 45000000)), ("tk", 0, 2000000, (0, 2500000)),
                               ("fd", 2, 0, (1, 999000000))):
        for m in methods:
            n += 1
            L = ["B %st%d.slow-handler-%s.%s method=%s seed=%d maxwait=30" % (prefix, n, who, m, m, n), "O fd 1 pr", "O tk 1", "O tm 1"]
            if who == "tk":
                L += ["S tk_reg 1", "R tk 1 0 1 tm_reg 1 1 %d %d" % (sec, ns), "R tk 1 0 1 slow %d %d" % slow]
            else:
                L += ["S fd_reg 1 1 0 0", "R fd 1 1 0 drain 1", "R fd 1 1 2 tm_reg 1 1 %d %d" % (sec, ns), "R fd 1 1 2 slow %d %d" % slow,
                      "R tm 1 0 1 fd_unreg 1", "E 1 pwrite 1 1", "E 2 pwrite 1 1"]
            out.append("\n".join(L + ["X"]) + "\n")
    return out


def gen_scripts(seed, count, methods=METHODS, kinds=None, faultgen=None, prefix="r", modes=None, nfd=3):
    """count scripts, each instantiated for every method (same program)."""
    out = fixed_fd_scripts(prefix, methods) if (kinds is None or "fd" in kinds) else []
    if kinds is None or ("fd" in kinds and "tm" in kinds):
        out += fixed_tm_scripts(prefix, methods)
    for i in range(count):
        rs = random.Random((seed << 20) + i)
        g = Gen(rs, kinds=kinds, modes=modes, nfd=nfd)
        st = rs.getstate()
        for m in methods:
            rs.setstate(st)
            faults = faultgen(random.Random((seed << 20) + i + 7919), m) if faultgen else ()
            out.append(g.script("%s%d.%d.%s" % (prefix, seed, i, m), m, faults))
    return out
