/* ivh core -- script interpreter for the single-threaded loop core
 * (descriptors, timers, tasks, events, raw events).  DESIGN 3.2 / App. B.
 *
 * Input (stdin or file): a sequence of scripts in a line-oriented format
 *   B <id> key=val ...          begin script (method=, seed=, maxwait=, reuse=)
 *   O <kind> <id> [ptype]       declare object (kind fd|tm|tk|ev|raw; ptype pr|pw|sk)
 *   S <op> args...              setup operation (before iv_main)
 *   R <kind> <id> <band> <occ> <op> args...   reaction inside that callback
 *                               (band 1 in, 2 out, 3 err, 0 n/a; occ 0 = every)
 *   E <q> <envop> args...       environment op at the q-th quiescence
 *   F <call> <nth> <errno> <from>
 *   P <op> args...              operation after iv_main returned
 *   X                           run it
 * Output: ndjson trace on stdout (or -o file), one execution after another. */
#include "simk.h"
#include <fcntl.h>
#include <sys/socket.h>
#include <sys/wait.h>
#include <sys/resource.h>
#include <iv.h>
#include <iv_event.h>
#include <iv_event_raw.h>
#include <iv_work.h>
#include <iv_thread.h>
#include <iv_signal.h>
#include <iv_wait.h>
#include <iv_popen.h>

enum { K_FD, K_TM, K_TK, K_EV, K_RAW, K_POOL, K_WI, K_SIG, K_WAIT, K_POPEN, NKIND };
static const char *kname[NKIND] = { "fd", "tm", "tk", "ev", "raw", "pool", "wi", "sig", "wait", "popen" };
static const size_t ksize[NKIND] = { sizeof(struct iv_fd), sizeof(struct iv_timer),
	sizeof(struct iv_task), sizeof(struct iv_event), sizeof(struct iv_event_raw),
	sizeof(struct iv_work_pool), sizeof(struct iv_work_item), sizeof(struct iv_signal),
	sizeof(struct iv_wait_interest), sizeof(struct iv_popen_request) };
#define MAXO 8
#define COOKIE_MAGIC 0x1ccc00c1u

struct cookie { uint32_t magic; int kind, id, ck; };
struct obj {
	int declared;
	void *mem;
	int reg;		/* harness's own view: registered through the API */
	int osfd, peer, ptype;	/* fd kind */
	int ckidx;
	struct cookie ck[2];
	int occ[4];
	int inpost;		/* threads currently inside a post on this object */
	int osclosed;		/* the OS descriptor number is stale (closed): only register_try may see it */
};
static struct obj O[NKIND][MAXO + 1];

struct quar { void *mem; size_t size; int kind, id, reported; };
static struct quar Q[256];
static int nq;

#define MAXOPS 512
struct op { char ctx; int kind, id, band, occ, q; char name[20]; long a[5]; };
static struct op ops[MAXOPS];
static int nops;

static char script_id[64], method[32] = "epoll-timerfd";
static unsigned seed = 1;
static int maxwait = 14, reuse, maxcb = 120;
static int ncb, forced_quit, in_main;
static __thread int cbdepth, inapi;
#define MAXTH 6
static pthread_t thr[MAXTH];
static int thr_started[MAXTH], thr_joined[MAXTH];
static int schedbuf[1024], nsched, sched_det, sticky = -1, jump;
static int sigsim, pids[16], npids, chldthr;
static int memrec, cycles;	/* memrec: 1 region level, 2 word level; cycles of init/use/deinit */
static int keeptasks;		/* task objects are initialised once and re-registered as they are */

/* ---------------------------------------------------------------- helpers */
static int kind_of(const char *s)
{
	for (int k = 0; k < NKIND; k++)
		if (!strcmp(s, kname[k]))
			return k;
	return -1;
}

static void set_nonblock(int fd)
{
	fcntl(fd, F_SETFL, fcntl(fd, F_GETFL) | O_NONBLOCK);
}

static void make_osfd(struct obj *o)
{
	int p[2];

	if (o->ptype == 2) {
		socketpair(AF_UNIX, SOCK_STREAM, 0, p);
		o->osfd = p[0];
		o->peer = p[1];
	} else {
		__real_pipe(p);
		if (o->ptype == 0) {
			o->osfd = p[0];
			o->peer = p[1];
		} else {
			o->osfd = p[1];
			o->peer = p[0];
		}
	}
	set_nonblock(o->peer);
}

static void check_touch(void)
{
	for (int i = 0; i < nq; i++) {
		unsigned char *m = Q[i].mem;
		size_t j;

		for (j = 0; j < Q[i].size; j++)
			if (m[j] != 0xAA)
				break;
		if (j < Q[i].size) {
			if (!Q[i].reported)
				tr("\"e\":\"Touch\",\"k\":\"%s\",\"o\":%d,\"off\":%d}", kname[Q[i].kind], Q[i].id, (int)j);
			Q[i].reported = 1;
			memset(m, 0xAA, Q[i].size);
		}
	}
}

/* the object is no longer lent to the library: poison it and keep watching */
static int keepobjs;	/* objects are initialised once and re-registered as they are (no INIT, no poison) */

static void quarantine(int k, int id)
{
	struct obj *o = &O[k][id];

	if (o->mem == NULL)
		return;
	if (keepobjs && (k == K_FD || k == K_TM || k == K_TK || k == K_EV))
		return;
	memset(o->mem, 0xAA, ksize[k]);
	if (nq < 256) {
		Q[nq].mem = o->mem;
		Q[nq].size = ksize[k];
		Q[nq].kind = k;
		Q[nq].id = id;
		Q[nq].reported = 0;
		nq++;
	}
	o->mem = NULL;
}

static void *fresh(int k, int id)
{
	struct obj *o = &O[k][id];

	check_touch();
	if (o->mem != NULL)
		return o->mem;
	if (reuse) {
		for (int i = nq - 1; i >= 0; i--) {
			if (Q[i].kind == k && Q[i].id == id) {
				o->mem = Q[i].mem;
				Q[i] = Q[--nq];
				break;
			}
		}
	}
	if (o->mem == NULL)
		o->mem = __real_malloc(ksize[k]);
	memset(o->mem, 0xAA, ksize[k]);
	if (memrec_on)
		memrec_user_add(o->mem, ksize[k], k, id);
	return o->mem;
}

static void truth_json(char *buf, size_t len)
{
	size_t off = 0;

	buf[0] = 0;
	for (int i = 1; i <= hooks.nfid; i++) {
		struct obj *o = &O[K_FD][i];
		int bits = 0;

		if (o->declared && o->osfd >= 0 && !o->osclosed) {
			struct pollfd p = { .fd = o->osfd, .events = POLLIN | POLLOUT };
			if (__real_poll(&p, 1, 0) > 0)
				bits = ((p.revents & POLLIN) ? 1 : 0) | ((p.revents & POLLOUT) ? 2 : 0) |
				       ((p.revents & POLLERR) ? 4 : 0) | ((p.revents & POLLHUP) ? 8 : 0);
		}
		off += snprintf(buf + off, len - off, "%s%d", i > 1 ? "," : "", bits);
	}
}

static int fid_of_ptr(void *p)
{
	for (int i = 1; i <= MAXO; i++)
		if (O[K_FD][i].declared && O[K_FD][i].mem == p && p != NULL)
			return i;
	return 0;
}

static int fid_of_osfd(int fd)
{
	for (int i = 1; i <= MAXO; i++)
		if (O[K_FD][i].declared && O[K_FD][i].osfd == fd && !O[K_FD][i].osclosed)
			return i;
	return 0;
}

/* ------------------------------------------------------------ trampolines */
static void run_ops(char ctx, int kind, int id, int band, int occ, int q);
static __thread int wait_status;

static void cb_common(void *cookie, int kind, int band, int hid)
{
	struct cookie *c = cookie;
	int reg = -1;

	if (c == NULL || ((uintptr_t)c & 3) || c->magic != COOKIE_MAGIC) {
		tr("\"e\":\"BadCookie\",\"k\":\"%s\",\"h\":%d}", kname[kind], hid);
		simk_end("badcookie", 0);
	}
	struct obj *o = &O[c->kind][c->id];
	if (o->mem != NULL) {
		switch (c->kind) {
		case K_FD: reg = iv_fd_registered(o->mem); break;
		case K_TM: reg = iv_timer_registered(o->mem); break;
		case K_TK: reg = iv_task_registered(o->mem); break;
		default: reg = o->reg; break;
		}
	}
	tr("\"e\":\"CbB\",\"k\":\"%s\",\"o\":%d,\"b\":%d,\"h\":%d,\"ck\":%d,\"ko\":\"%s\",\"reg\":%d,\"d\":%d,\"api\":%d,\"st\":%d}",
	   kname[kind], c->id, band, hid, c->ck, kname[c->kind], reg, cbdepth, inapi, kind == K_WAIT ? wait_status : 0);
	if (++ncb > maxcb)
		simk_end("runaway", 0);
	cbdepth++;
	if (kind == c->kind && (kind == K_TM || kind == K_TK)) {
		/* one-shot: already unregistered on entry, may be freed here */
		o->reg = 0;
		if (!(kind == K_TK && keeptasks))
			quarantine(kind, c->id);
		if (memrec_words)
			sync_log("rel", 6000 + kind * 16 + c->id);
	}
	if (kind == K_WI && band == 2) {
		/* completion: the item is the caller's again (and the scenario
		 * program may hand it to another thread for re-submission) */
		o->reg = 0;
		quarantine(K_WI, c->id);
		if (memrec_words)
			sync_log("rel", 2000 + K_WI * 16 + c->id);
	}
	if (me == 0 && simk_wait_count() > maxwait && !forced_quit) {
		forced_quit = 1;
		iv_quit();
		tr("\"e\":\"A\",\"op\":\"quit\",\"o\":0,\"a\":1,\"b\":0,\"c\":0,\"ts\":[0,0],\"r\":0}");
	}
	int occ = 0;
	if (kind == c->kind)
		occ = ++o->occ[band];
	run_ops('R', kind, c->id, band, occ, 0);
	check_touch();
	cbdepth--;
	tr("\"e\":\"CbE\"}");
}

#define FDH(b, h) static void fdh_##b##_##h(void *c) { cb_common(c, K_FD, b, h); }
#define FDH8(b) FDH(b, 1) FDH(b, 2) FDH(b, 3) FDH(b, 4) FDH(b, 5) FDH(b, 6) FDH(b, 7) FDH(b, 8)
FDH8(1) FDH8(2) FDH8(3)
#define FDT(b) { NULL, fdh_##b##_1, fdh_##b##_2, fdh_##b##_3, fdh_##b##_4, fdh_##b##_5, fdh_##b##_6, fdh_##b##_7, fdh_##b##_8 }
static void (*fdhtab[4][9])(void *) = { { NULL }, FDT(1), FDT(2), FDT(3) };

#define OH(k, K, h) static void k##h_##h(void *c) { cb_common(c, K, 0, h); }
#define OH8(k, K) OH(k, K, 1) OH(k, K, 2) OH(k, K, 3) OH(k, K, 4) OH(k, K, 5) OH(k, K, 6) OH(k, K, 7) OH(k, K, 8)
OH8(tm, K_TM) OH8(tk, K_TK) OH8(ev, K_EV) OH8(raw, K_RAW)
#define OT(k) { NULL, k##h_1, k##h_2, k##h_3, k##h_4, k##h_5, k##h_6, k##h_7, k##h_8 }
static void (*ohtab[NKIND][9])(void *) = { { NULL }, OT(tm), OT(tk), OT(ev), OT(raw) };

static void wi_work(void *c) { cb_common(c, K_WI, 1, ((struct cookie *)c)->id); }
static void wi_completion(void *c) { cb_common(c, K_WI, 2, ((struct cookie *)c)->id); }

static void pool_hook(void *cookie, const char *what)
{
	struct cookie *c = cookie;

	tr("\"e\":\"Hook\",\"op\":\"%s\",\"o\":%d}", what, (c && c->magic == COOKIE_MAGIC) ? c->id : -1);
	if (c && c->magic == COOKIE_MAGIC) {
		/* reactions of the program's hook: R pool <id> <1 start | 2 stop> <occ> <op> */
		int band = what[2] == 'a' ? 1 : 2;
		int occ = ++O[K_POOL][c->id].occ[band];
		run_ops('R', K_POOL, c->id, band, occ, 0);
	}
}
static void pool_start(void *c) { pool_hook(c, "start"); }
static void pool_stop(void *c) { pool_hook(c, "stop"); }

static int bulk_left, bulk_id;
static void alog(const char *op, int o, long a, long b, long c, ns_t ts, long r);
static void bulk_cb(void *c)
{
	if (--bulk_left == 0) {
		O[K_TM][bulk_id].reg = 0;
		alog("tm_unreg", bulk_id, 0, 0, 0, 0, 0);
	}
}

static void ivthread_body(void *arg);

static int sigpost_target;
static void sigpost_handler(int sig)
{
	struct obj *o = &O[K_RAW][sigpost_target];

	if (!o->reg || o->mem == NULL)
		return;
	tr("\"e\":\"PostB\",\"k\":\"raw\",\"o\":%d,\"n\":1}", sigpost_target);
	if (memrec_words) sync_log("acq", 2000 + K_RAW * 16 + sigpost_target);
	o->inpost++;
	iv_event_raw_post(o->mem);
	o->inpost--;
	if (memrec_words) sync_log("rel", 3000 + K_RAW * 16 + sigpost_target);
}

static void sig_cb(void *c) { cb_common(c, K_SIG, 0, ((struct cookie *)c)->id); }
static void wait_cb(void *c, int status, const struct rusage *ru)
{
	wait_status = status;
	cb_common(c, K_WAIT, 0, ((struct cookie *)c)->id);
}

/* fd `f` handler variant v (0 none, 1, 2) -> handler id */
static int hid_of(int f, int v) { return v ? 2 * f - 2 + v : 0; }

/* -------------------------------------------------------------------- ops */
static void alog(const char *op, int o, long a, long b, long c, ns_t ts, long r)
{
	tr("\"e\":\"A\",\"op\":\"%s\",\"o\":%d,\"a\":%ld,\"b\":%ld,\"c\":%ld,\"ts\":[%lld,%lld],\"r\":%ld}",
	   op, o, a, b, c, TS(ts), r);
}

static void skip(const char *op, int o)
{
	tr("\"e\":\"Skip\",\"op\":\"%s\",\"o\":%d}", op, o);
}

static struct cookie *cookie_of(int k, int id)
{
	struct obj *o = &O[k][id];
	struct cookie *c = &o->ck[o->ckidx];

	c->magic = COOKIE_MAGIC;
	c->kind = k;
	c->id = id;
	c->ck = o->ckidx;
	return c;
}

static ssize_t io_rw(int fd, int wr, long n)
{
	char buf[4096];
	ssize_t tot = 0;
	int fl = fcntl(fd, F_GETFL);

	/* the harness never blocks; the descriptor's own mode is restored */
	if (fl >= 0 && !(fl & O_NONBLOCK))
		fcntl(fd, F_SETFL, fl | O_NONBLOCK);
	memset(buf, 'x', sizeof buf);
	while (n > 0) {
		size_t c = n > (long)sizeof buf ? sizeof buf : (size_t)n;
		ssize_t r = wr ? __real_write(fd, buf, c) : __real_read(fd, buf, c);
		if (r <= 0)
			break;
		tot += r;
		n -= r;
	}
	if (fl >= 0 && !(fl & O_NONBLOCK))
		fcntl(fd, F_SETFL, fl);
	return tot;
}

static int do_env(struct op *p);
static void *thread_body(void *arg);

static int kind_of_op(const char *n)
{
	static const struct { const char *pre; int k; } t[] = { {"fd_", K_FD}, {"tm_", K_TM}, {"tk_", K_TK}, {"ev_", K_EV},
		{"raw_", K_RAW}, {"sig_", K_SIG}, {"wait_", K_WAIT}, {"popen", K_POPEN}, {"pool_", K_POOL}, {NULL, 0} };
	for (int i = 0; t[i].pre; i++)
		if (!strncmp(n, t[i].pre, strlen(t[i].pre)))
			return t[i].k;
	return -1;
}
static int is_reg_op(const char *n)
{
	return strstr(n, "_reg") || !strcmp(n, "fd_try") || !strcmp(n, "wait_spawn") || !strcmp(n, "popen") || !strcmp(n, "pool_create");
}
static int is_unreg_op(const char *n)
{
	return strstr(n, "_unreg") || !strcmp(n, "popen_close") || !strcmp(n, "pool_put");
}

static void do_op(struct op *p)
{
	const char *n = p->name;
	int id = (int)p->a[0];
	long r = 0;

#define OBJ(K) if (id < 1 || id > MAXO || !O[K][id].declared) { skip(n, id); return; } struct obj *o = &O[K][id]
	inapi++;
	if (memrec_on)
		tr("\"e\":\"AB\",\"op\":\"%s\",\"o\":%d}", n, id);
	/* the scenario program hands objects between its threads with proper
	 * synchronisation: registration happens-before use by another thread,
	 * use happens-before unregistration */
	int hk = -1, hreg = 0, huse = 0, hunreg = 0, gk = -1;
	if (memrec_words) {
		if (!strncmp(n, "ev_", 3)) hk = K_EV; else if (!strncmp(n, "raw_", 4) || !strcmp(n, "childpost")) hk = K_RAW;
		else if (!strncmp(n, "pool_", 5)) hk = K_POOL;
		else if (!strncmp(n, "submit", 6)) { hk = K_POOL; }
		hreg = !strcmp(n, "ev_reg") || !strcmp(n, "raw_reg") || !strcmp(n, "pool_create");
		hunreg = !strcmp(n, "ev_unreg") || !strcmp(n, "raw_unreg") || !strcmp(n, "pool_put");
		huse = hk >= 0 && !hreg && !hunreg;
		int hid = !strncmp(n, "submit", 6) ? (int)p->a[1] : id;
		if (hk >= 0 && huse) sync_log("acq", 2000 + hk * 16 + hid);
		if (hk >= 0 && hunreg) sync_log("acq", 3000 + hk * 16 + hid);
		/* an object's memory is the program's between uses: whoever registers it next
		 * does so after the previous unregistration (possibly in another thread) returned */
		gk = kind_of_op(n);
		if (gk >= 0 && is_reg_op(n))
			sync_log("acq", 6000 + gk * 16 + id);
	}
	if (!strcmp(n, "fd_reg") || !strcmp(n, "fd_try")) {
		OBJ(K_FD);
		if (o->reg || o->osfd < 0 || (o->osclosed && strcmp(n, "fd_try"))) { skip(n, id); goto out; }
		int hadfd = keepobjs && o->mem != NULL;
		struct iv_fd *fd = hadfd ? o->mem : fresh(K_FD, id);
		if (!hadfd)
			IV_FD_INIT(fd);
		fd->fd = o->osfd;
		fd->cookie = cookie_of(K_FD, id);
		fd->handler_in = fdhtab[1][hid_of(id, p->a[1])];
		fd->handler_out = fdhtab[2][hid_of(id, p->a[2])];
		fd->handler_err = fdhtab[3][hid_of(id, p->a[3])];
		if (!strcmp(n, "fd_try")) {
			simk_in_probe = 1;
			r = iv_fd_register_try(fd);
			simk_in_probe = 0;
		} else
			iv_fd_register(fd);
		if (r == 0)
			o->reg = 1;
		alog(n, id, hid_of(id, p->a[1]), hid_of(id, p->a[2]), hid_of(id, p->a[3]), o->ckidx, r);
		if (r == 0) {
			int fl = fcntl(o->osfd, F_GETFL), fdfl = fcntl(o->osfd, F_GETFD);
			tr("\"e\":\"Flags\",\"o\":%d,\"nb\":%d,\"ce\":%d}", id, (fl & O_NONBLOCK) ? 1 : 0, (fdfl & FD_CLOEXEC) ? 1 : 0);
		}
		if (r != 0)
			quarantine(K_FD, id);
	} else if (!strcmp(n, "fd_unreg")) {
		OBJ(K_FD);
		if (!o->reg) { skip(n, id); goto out; }
		iv_fd_unregister(o->mem);
		o->reg = 0;
		alog(n, id, 0, 0, 0, 0, 0);
		quarantine(K_FD, id);
	} else if (!strcmp(n, "fd_set")) {
		OBJ(K_FD);
		if (!o->reg) { skip(n, id); goto out; }
		int b = (int)p->a[1], h = hid_of(id, p->a[2]);
		if (b == 1) iv_fd_set_handler_in(o->mem, fdhtab[1][h]);
		else if (b == 2) iv_fd_set_handler_out(o->mem, fdhtab[2][h]);
		else iv_fd_set_handler_err(o->mem, fdhtab[3][h]);
		alog(n, id, b, h, 0, 0, 0);
	} else if (!strcmp(n, "fd_cookie")) {
		OBJ(K_FD);
		if (!o->reg) { skip(n, id); goto out; }
		o->ckidx = (int)p->a[1] & 1;
		((struct iv_fd *)o->mem)->cookie = cookie_of(K_FD, id);
		alog(n, id, o->ckidx, 0, 0, 0, 0);
	} else if (!strcmp(n, "fd_newos")) {
		OBJ(K_FD);
		if (o->reg) { skip(n, id); goto out; }
		if (o->osfd >= 0 && !o->osclosed) __real_close(o->osfd);
		if (o->peer >= 0) __real_close(o->peer);
		o->osclosed = 0;
		make_osfd(o);
		alog(n, id, 0, 0, 0, 0, 0);
	} else if (!strcmp(n, "fd_swapos")) {
		/* the object moves to a fresh OS descriptor while the old one stays
		 * open (and readable) elsewhere in the program */
		OBJ(K_FD);
		if (o->reg || o->osclosed) { skip(n, id); goto out; }
		if (o->peer >= 0 && o->ptype != 1)
			io_rw(o->peer, 1, 1);
		make_osfd(o);
		alog("fd_newos", id, 1, 0, 0, 0, 0);
	} else if (!strcmp(n, "fd_closeos")) {
		/* valid only while unregistered: closes the OS descriptor */
		OBJ(K_FD);
		if (o->reg || o->osclosed) { skip(n, id); goto out; }
		if (o->osfd >= 0) __real_close(o->osfd);
		o->osclosed = 1;	/* the number stays in the object, as in a program that lost track */
		alog(n, id, 0, 0, 0, 0, 0);
	} else if (!strcmp(n, "drain") || !strcmp(n, "rd")) {
		OBJ(K_FD);
		if (o->osfd < 0 || o->osclosed) { skip(n, id); goto out; }
		r = io_rw(o->osfd, 0, !strcmp(n, "drain") ? 1 << 22 : p->a[1]);
		tr("\"e\":\"Io\",\"op\":\"%s\",\"o\":%d,\"n\":%ld}", n, id, r);
	} else if (!strcmp(n, "wr") || !strcmp(n, "fill")) {
		OBJ(K_FD);
		if (o->osfd < 0 || o->osclosed) { skip(n, id); goto out; }
		r = io_rw(o->osfd, 1, !strcmp(n, "fill") ? 1 << 22 : p->a[1]);
		tr("\"e\":\"Io\",\"op\":\"%s\",\"o\":%d,\"n\":%ld}", n, id, r);
	} else if (!strcmp(n, "tm_reg")) {
		OBJ(K_TM);
		if (o->reg) { skip(n, id); goto out; }
		int hadtm = keepobjs && o->mem != NULL;
		struct iv_timer *t = hadtm ? o->mem : fresh(K_TM, id);
		if (!hadtm) {
			IV_TIMER_INIT(t);
			t->cookie = cookie_of(K_TM, id);
			t->handler = ohtab[K_TM][id];
		}
		/* mode 0: absolute VBASE+offset, 1: relative to iv_now, 2: zero */
		ns_t x = (ns_t)p->a[2] * NSEC + p->a[3];
		if (p->a[1] == 0) {
			x += VBASE;
		} else if (p->a[1] == 1) {
			struct timespec now = iv_now;
			x += now.tv_sec * NSEC + now.tv_nsec;
		} else {
			x = 0;
		}
		if (x < 0) x = 0;
		t->expires.tv_sec = x / NSEC;
		t->expires.tv_nsec = x % NSEC;
		iv_timer_register(t);
		o->reg = 1;
		alog(n, id, id, 0, 0, x, 0);
	} else if (!strcmp(n, "tm_bulk")) {
		/* a[1] = count, a[2] = seconds from now: a block of timers that stay registered
		 * (far in the future); object id stands for the whole block */
		OBJ(K_TM);
		static struct iv_timer *bulk;
		int cnt = (int)p->a[1];
		if (o->reg || o->mem != NULL || bulk != NULL || cnt < 1 || cnt > 100000) { skip(n, id); goto out; }
		bulk = __real_malloc(cnt * sizeof(*bulk));
		memset(bulk, 0xAA, cnt * sizeof(*bulk));
		if (memrec_on)
			memrec_user_add(bulk, cnt * sizeof(*bulk), K_TM, id);
		struct timespec now = iv_now;
		ns_t x = now.tv_sec * NSEC + now.tv_nsec + (ns_t)p->a[2] * NSEC;
		bulk_left = cnt;
		bulk_id = id;
		for (int i = 0; i < cnt; i++) {
			IV_TIMER_INIT(&bulk[i]);
			bulk[i].cookie = cookie_of(K_TM, id);
			/* a[2] = 0: they all come due at once and are counted silently; the block is the
			 * program's again when the last one has fired */
			bulk[i].handler = p->a[2] ? ohtab[K_TM][id] : bulk_cb;
			bulk[i].expires.tv_sec = (x + i) / NSEC;
			bulk[i].expires.tv_nsec = (x + i) % NSEC;
			iv_timer_register(&bulk[i]);
		}
		o->reg = 1;
		alog("tm_reg", id, id, 0, 0, x, 0);
	} else if (!strcmp(n, "tm_unreg")) {
		OBJ(K_TM);
		if (!o->reg || o->mem == NULL) { skip(n, id); goto out; }
		iv_timer_unregister(o->mem);
		o->reg = 0;
		alog(n, id, 0, 0, 0, 0, 0);
		quarantine(K_TM, id);
	} else if (!strcmp(n, "tk_reg")) {
		OBJ(K_TK);
		if (o->reg) { skip(n, id); goto out; }
		int had = (keeptasks || keepobjs) && o->mem != NULL;
		struct iv_task *t = fresh(K_TK, id);
		if (!had) {
			IV_TASK_INIT(t);
			t->cookie = cookie_of(K_TK, id);
			t->handler = ohtab[K_TK][id];
		}
		iv_task_register(t);
		o->reg = 1;
		alog(n, id, id, 0, 0, 0, 0);
	} else if (!strcmp(n, "tk_unreg") || !strcmp(n, "tk_unreg_keep")) {
		OBJ(K_TK);
		if (!o->reg || o->mem == NULL) { skip(n, id); goto out; }
		iv_task_unregister(o->mem);
		o->reg = 0;
		alog("tk_unreg", id, 0, 0, 0, 0, 0);
		if (!(keeptasks && !strcmp(n, "tk_unreg_keep")))
			quarantine(K_TK, id);
	} else if (!strcmp(n, "ev_reg")) {
		OBJ(K_EV);
		if (o->reg) { skip(n, id); goto out; }
		struct iv_event *e = fresh(K_EV, id);
		IV_EVENT_INIT(e);
		e->cookie = cookie_of(K_EV, id);
		e->handler = ohtab[K_EV][id];
		r = iv_event_register(e);
		if (r == 0) o->reg = 1;
		alog(n, id, id, 0, 0, 0, r);
		if (r != 0) quarantine(K_EV, id);
	} else if (!strcmp(n, "ev_unreg")) {
		OBJ(K_EV);
		if (!o->reg || o->inpost) { skip(n, id); goto out; }
		o->reg = 0;	/* from now on no thread of the program posts this event */
		iv_event_unregister(o->mem);
		alog(n, id, 0, 0, 0, 0, 0);
		quarantine(K_EV, id);
	} else if (!strcmp(n, "ev_post")) {
		OBJ(K_EV);
		if (!o->reg) { skip(n, id); goto out; }
		tr("\"e\":\"PostB\",\"k\":\"ev\",\"o\":%d,\"n\":1}", id);
		o->inpost++;
		iv_event_post(o->mem);
		o->inpost--;
		alog(n, id, 0, 0, 0, 0, 0);
	} else if (!strcmp(n, "raw_reg")) {
		OBJ(K_RAW);
		if (o->reg) { skip(n, id); goto out; }
		struct iv_event_raw *e = fresh(K_RAW, id);
		IV_EVENT_RAW_INIT(e);
		e->cookie = cookie_of(K_RAW, id);
		e->handler = ohtab[K_RAW][id];
		r = iv_event_raw_register(e);
		if (r == 0) o->reg = 1;
		alog(n, id, id, 0, 0, 0, r);
		if (r != 0) quarantine(K_RAW, id);
	} else if (!strcmp(n, "raw_unreg")) {
		OBJ(K_RAW);
		if (!o->reg || o->inpost) { skip(n, id); goto out; }
		o->reg = 0;
		iv_event_raw_unregister(o->mem);
		alog(n, id, 0, 0, 0, 0, 0);
		quarantine(K_RAW, id);
	} else if (!strcmp(n, "raw_post")) {
		OBJ(K_RAW);
		if (!o->reg) { skip(n, id); goto out; }
		tr("\"e\":\"PostB\",\"k\":\"raw\",\"o\":%d,\"n\":1}", id);
		o->inpost++;
		iv_event_raw_post(o->mem);
		o->inpost--;
		alog(n, id, 0, 0, 0, 0, 0);
	} else if (!strcmp(n, "sig_reg")) {
		/* a[1] = signal number, a[2] = flags (1 exclusive, 2 this-thread) */
		OBJ(K_SIG);
		if (o->reg) { skip(n, id); goto out; }
		struct iv_signal *is = fresh(K_SIG, id);
		IV_SIGNAL_INIT(is);
		is->signum = (int)p->a[1];
		is->flags = (unsigned)p->a[2];
		is->cookie = cookie_of(K_SIG, id);
		is->handler = sig_cb;
		tr("\"e\":\"SigApiB\",\"op\":\"reg\",\"o\":%d}", id);
		r = iv_signal_register(is);
		if (r == 0) o->reg = 1;
		o->osfd = me;	/* registering thread */
		alog(n, id, p->a[1], p->a[2], 0, 0, r);
		tr("\"e\":\"DispNow\",\"sig\":%d,\"h\":\"%s\"}", (int)p->a[1], simk_disposition((int)p->a[1]));
		if (r != 0) quarantine(K_SIG, id);
	} else if (!strcmp(n, "sig_unreg")) {
		OBJ(K_SIG);
		if (!o->reg || o->osfd != me) { skip(n, id); goto out; }
		int signum = ((struct iv_signal *)o->mem)->signum;
		tr("\"e\":\"SigApiB\",\"op\":\"unreg\",\"o\":%d}", id);
		iv_signal_unregister(o->mem);
		o->reg = 0;
		alog(n, id, signum, 0, 0, 0, 0);
		tr("\"e\":\"DispNow\",\"sig\":%d,\"h\":\"%s\"}", signum, simk_disposition(signum));
		quarantine(K_SIG, id);
	} else if (!strcmp(n, "raise")) {
		/* a[0] = signal, a[1] = receiving thread (scheduler index) */
		simk_raise((int)p->a[0], (int)p->a[1]);
		simk_yield();
	} else if (!strcmp(n, "sigpost")) {
		/* a[0] = signal, a[1] = raw event, a[2] = receiving thread: the post is made
		 * from inside a signal handler of the program (async-signal context) */
		int rid = (int)p->a[1];
		if (rid < 1 || rid > MAXO || !O[K_RAW][rid].reg) { skip(n, rid); goto out; }
		struct sigaction sa;
		memset(&sa, 0, sizeof sa);
		sa.sa_handler = sigpost_handler;
		sigfillset(&sa.sa_mask);
		sigpost_target = rid;
		sigaction((int)p->a[0], &sa, NULL);
		simk_raise((int)p->a[0], (int)p->a[2]);
		simk_yield();
	} else if (!strcmp(n, "childpost")) {
		/* the post is made by a forked child on the inherited descriptor */
		OBJ(K_RAW);
		if (!o->reg) { skip(n, id); goto out; }
		tr("\"e\":\"PostB\",\"k\":\"raw\",\"o\":%d,\"n\":1}", id);
		o->inpost++;
		simk_set_pid(2000);
		iv_event_raw_post(o->mem);
		simk_set_pid(1000);
		o->inpost--;
		alog("raw_post", id, 0, 0, 0, 0, 0);
	} else if (!strcmp(n, "childraise")) {
		/* the signal is delivered in a forked child: same descriptors, other
		 * pid.  A child has one thread, so nothing else runs meanwhile. */
		simk_set_pid(2000);
		simk_raise((int)p->a[0], me);
		simk_sigpoint();
		simk_set_pid(1000);
	} else if (!strcmp(n, "wait_reg") || !strcmp(n, "wait_spawn")) {
		/* a[1] = pid (wait_reg) */
		OBJ(K_WAIT);
		if (o->reg) { skip(n, id); goto out; }
		struct iv_wait_interest *w = fresh(K_WAIT, id);
		IV_WAIT_INTEREST_INIT(w);
		w->cookie = cookie_of(K_WAIT, id);
		w->handler = wait_cb;
		if (!strcmp(n, "wait_reg")) {
			w->pid = (pid_t)p->a[1];
			iv_wait_interest_register(w);
		} else {
			tr("\"e\":\"SpawnB\",\"o\":%d}", id);
			r = iv_wait_interest_register_spawn(w, NULL, NULL);
		}
		if (r == 0) o->reg = 1;
		o->osfd = me;
		alog(n, id, (long)w->pid, 0, 0, 0, r);
		if (r != 0) quarantine(K_WAIT, id);
	} else if (!strcmp(n, "wait_unreg")) {
		OBJ(K_WAIT);
		if (!o->reg || o->osfd != me) { skip(n, id); goto out; }
		iv_wait_interest_unregister(o->mem);
		o->reg = 0;
		alog(n, id, 0, 0, 0, 0, 0);
		quarantine(K_WAIT, id);
	} else if (!strcmp(n, "wait_kill")) {
		OBJ(K_WAIT);
		if (!o->reg) { skip(n, id); goto out; }
		r = iv_wait_interest_kill(o->mem, (int)p->a[1]);
		alog(n, id, p->a[1], 0, 0, 0, r);
	} else if (!strcmp(n, "child")) {
		/* environment: a[0] pid, a[1] what (0 exit 1 killed 2 stop 3 cont), a[2] arg */
		simk_child_event((pid_t)p->a[0], (int)p->a[1], (int)p->a[2]);
		if (!p->a[3])		/* a[3] = 1: carry on without giving the other threads a turn */
			simk_yield();
	} else if (!strcmp(n, "childof")) {
		/* as "child" for the process of wait interest a[0] (whatever pid it got) */
		OBJ(K_WAIT);
		if (!o->reg) { skip(n, id); goto out; }
		simk_child_event(((struct iv_wait_interest *)o->mem)->pid, (int)p->a[1], (int)p->a[2]);
		if (!p->a[3])
			simk_yield();
	} else if (!strcmp(n, "forkexit")) {
		simk_fork_exit = (int)p->a[0];
	} else if (!strcmp(n, "stranger")) {
		simk_add_child((pid_t)p->a[0]);
	} else if (!strcmp(n, "childpol")) {
		simk_child_policy((pid_t)p->a[0], (int)p->a[1], (int)p->a[2]);
	} else if (!strcmp(n, "popen")) {
		/* a[1] = 0 "r", 1 "w" */
		OBJ(K_POPEN);
		if (o->reg) { skip(n, id); goto out; }
		static char *argv_[] = { "true", NULL };
		struct iv_popen_request *pr = fresh(K_POPEN, id);
		IV_POPEN_REQUEST_INIT(pr);
		pr->file = "true";
		pr->argv = argv_;
		pr->type = p->a[1] ? "w" : "r";
		r = iv_popen_request_submit(pr);
		if (r >= 0) { o->reg = 1; o->peer = (int)r; }
		alog(n, id, p->a[1], 0, 0, 0, r >= 0 ? 0 : r);
		if (r < 0) quarantine(K_POPEN, id);
	} else if (!strcmp(n, "popen_close")) {
		OBJ(K_POPEN);
		if (!o->reg) { skip(n, id); goto out; }
		iv_popen_request_close(o->mem);
		if (o->peer >= 0) close(o->peer);	/* wrapped: the descriptor came from the library */
		o->peer = -1;
		o->reg = 0;
		alog(n, id, 0, 0, 0, 0, 0);
		quarantine(K_POPEN, id);
	} else if (!strcmp(n, "pool_create")) {
		OBJ(K_POOL);
		if (o->reg) { skip(n, id); goto out; }
		struct iv_work_pool *pl = fresh(K_POOL, id);
		IV_WORK_POOL_INIT(pl);
		pl->max_threads = (int)p->a[1];
		pl->cookie = cookie_of(K_POOL, id);
		pl->thread_start = pool_start;
		pl->thread_stop = pool_stop;
		r = iv_work_pool_create(pl);
		if (r == 0) o->reg = 1;
		alog(n, id, p->a[1], 0, 0, 0, r);
	} else if (!strcmp(n, "pool_put")) {
		OBJ(K_POOL);
		/* putting a pool while another thread is inside a submit call on
		 * the same structure would be a race in the user program */
		if (!o->reg || o->inpost) { skip(n, id); goto out; }
		o->reg = 0;
		iv_work_pool_put(o->mem);
		alog(n, id, 0, 0, 0, 0, 0);
		quarantine(K_POOL, id);
	} else if (!strcmp(n, "submit") || !strcmp(n, "submit_cont")) {
		/* a[0] = item, a[1] = pool (0: NULL pool) */
		OBJ(K_WI);
		int pid_ = (int)p->a[1];
		struct obj *po = (pid_ >= 1 && pid_ <= MAXO) ? &O[K_POOL][pid_] : NULL;
		if (o->reg || (pid_ && (po == NULL || !po->reg))) { skip(n, id); goto out; }
		struct iv_work_item *w = fresh(K_WI, id);
		IV_WORK_ITEM_INIT(w);
		w->cookie = cookie_of(K_WI, id);
		w->work = wi_work;
		w->completion = wi_completion;
		o->reg = 1;
		if (memrec_words)
			sync_log("acq", 2000 + K_WI * 16 + id);
		tr("\"e\":\"SubB\",\"o\":%d,\"p\":%d}", id, pid_);
		if (po) po->inpost++;
		if (!strcmp(n, "submit"))
			iv_work_pool_submit_work(pid_ ? po->mem : NULL, w);
		else
			iv_work_pool_submit_continuation(pid_ ? po->mem : NULL, w);
		if (po) po->inpost--;
		alog(n, id, pid_, 0, 0, 0, 0);
	} else if (!strcmp(n, "thr_create")) {
		/* a[0] = thread program id (its 'T' lines), created through iv_thread */
		if (id < 1 || id >= MAXTH || thr_started[id]) { skip(n, id); goto out; }
		char nm[32];
		snprintf(nm, sizeof nm, "ivh thread %d", id);
		thr_started[id] = 2;
		r = iv_thread_create(nm, ivthread_body, (void *)(long)id);
		alog(n, id, 0, 0, 0, 0, r);
	} else if (!strcmp(n, "iv_init")) {
		iv_init();
		alog(n, 0, 0, 0, 0, 0, 0);
	} else if (!strcmp(n, "iv_main")) {
		tr("\"e\":\"MainB\"}");
		inapi--;
		iv_main();
		inapi++;
		tr("\"e\":\"MainE\"}");
	} else if (!strcmp(n, "iv_deinit")) {
		iv_deinit();
		alog(n, 0, 0, 0, 0, 0, 0);
	} else if (!strcmp(n, "pthread_exit")) {
		tr("\"e\":\"ThE\"}");
		inapi--;
		pthread_exit(NULL);
	} else if (!strcmp(n, "raw_burst")) {
		OBJ(K_RAW);
		if (!o->reg) { skip(n, id); goto out; }
		tr("\"e\":\"PostB\",\"k\":\"raw\",\"o\":%d,\"n\":%ld}", id, p->a[1]);
		o->inpost++;
		simk_quiet_io = 1;	/* one scheduling point for the whole burst */
		for (long i = 0; i < p->a[1]; i++)
			iv_event_raw_post(o->mem);
		simk_quiet_io = 0;
		simk_yield();
		o->inpost--;
		alog(n, id, p->a[1], 0, 0, 0, 0);
	} else if (!strcmp(n, "spawn")) {
		if (id < 1 || id >= MAXTH || thr_started[id]) { skip(n, id); goto out; }
		thr_started[id] = 1;
		tr("\"e\":\"Spawn\",\"x\":%d}", id);
		pthread_create(&thr[id], NULL, thread_body, (void *)(long)id);
	} else if (!strcmp(n, "yield")) {
		simk_yield();
	} else if (!strcmp(n, "wait_flag")) {
		/* flag 1 is set by timers of the main thread, which therefore never waits for it */
		if (me == 0 && id < 2) { skip(n, id); goto out; }
		tr("\"e\":\"FlagW\",\"n\":%d}", id);
		simk_flag_wait(id);
	} else if (!strcmp(n, "set_flag")) {
		tr("\"e\":\"FlagS\",\"n\":%d}", id);
		simk_flag_set(id);
	} else if (!strcmp(n, "quit")) {
		iv_quit();
		alog(n, 0, 0, 0, 0, 0, 0);
	} else if (!strcmp(n, "validate")) {
		struct timespec now = iv_now;
		alog(n, 0, 0, 0, 0, now.tv_sec * NSEC + now.tv_nsec, 0);
	} else if (!strcmp(n, "tick")) {
		/* the callback takes a[0] s + a[1] ns of (virtual) time; unlike "slow" it does not tell the library */
		simk_advance((ns_t)p->a[0] * NSEC + p->a[1]);
		tr("\"e\":\"Env\",\"op\":\"advance\",\"o\":0,\"n\":0,\"now\":[%lld,%lld]}", TS(vnow));
	} else if (!strcmp(n, "warp_epoch")) {
		/* this loop has been round a[0] more times already (see ivh_priv.c) */
		extern void ivh_warp_epoch(unsigned int);
		ivh_warp_epoch((unsigned int)p->a[0]);
	} else if (!strcmp(n, "invalidate")) {
		iv_invalidate_now();
		alog(n, 0, 0, 0, 0, vnow, 0);
	} else if (!strcmp(n, "slow")) {
		/* a slow callback: time passes, and the user tells the library */
		simk_advance((ns_t)p->a[0] * NSEC + p->a[1]);
		iv_invalidate_now();
		alog("invalidate", 0, 0, 0, 0, vnow, 0);
	} else if (!do_env(p)) {
		skip(n, -1);
	}
out:
	if (memrec_words && hk >= 0) {
		int hid = !strncmp(n, "submit", 6) ? (int)p->a[1] : id;
		if (hreg) sync_log("rel", 2000 + hk * 16 + hid);
		if (huse) sync_log("rel", 3000 + hk * 16 + hid);
	}
	if (memrec_words && gk >= 0 && is_unreg_op(n))
		sync_log("rel", 6000 + gk * 16 + id);
	inapi--;
#undef OBJ
}

static void empty_sig_handler(int sig) { }

static int do_env(struct op *p)
{
	const char *n = p->name;
	int id = (int)p->a[0];
	struct obj *o = (id >= 1 && id <= MAXO) ? &O[K_FD][id] : NULL;
	long r = 0;

	if (!strcmp(n, "child")) {
		simk_child_event((pid_t)p->a[0], (int)p->a[1], (int)p->a[2]);
		return 1;
	}
	if (!strcmp(n, "childof")) {
		struct obj *w = (id >= 1 && id <= MAXO) ? &O[K_WAIT][id] : NULL;
		if (w == NULL || !w->declared || !w->reg)
			return 0;
		simk_child_event(((struct iv_wait_interest *)w->mem)->pid, (int)p->a[1], (int)p->a[2]);
		return 1;
	}
	if (!strcmp(n, "raise")) {
		simk_raise((int)p->a[0], (int)p->a[1]);
		return 1;
	}
	if (!strcmp(n, "intr")) {
		/* a signal with an (empty) handler of the program interrupts the wait */
		struct sigaction sa;
		memset(&sa, 0, sizeof sa);
		sa.sa_handler = empty_sig_handler;
		sigaction(SIGUSR2, &sa, NULL);
		simk_raise(SIGUSR2, (int)p->a[0]);
		return 1;
	}
	if (!strcmp(n, "advance")) {
		simk_advance_clamped((ns_t)p->a[0] * NSEC + p->a[1]);
		tr("\"e\":\"Env\",\"op\":\"advance\",\"o\":0,\"n\":0,\"now\":[%lld,%lld]}", TS(vnow));
		return 1;
	}
	if (o == NULL || !o->declared)
		return 0;
	if (!strcmp(n, "pwrite")) {
		if (o->peer < 0) return 0;
		r = io_rw(o->peer, 1, p->a[1]);
	} else if (!strcmp(n, "pread")) {
		if (o->peer < 0) return 0;
		r = io_rw(o->peer, 0, p->a[1]);
	} else if (!strcmp(n, "pdrain")) {
		if (o->peer < 0) return 0;
		r = io_rw(o->peer, 0, 1 << 22);
	} else if (!strcmp(n, "pclose")) {
		if (o->peer < 0) return 0;
		__real_close(o->peer);
		o->peer = -1;
	} else if (!strcmp(n, "pshut")) {
		if (o->peer < 0) return 0;
		shutdown(o->peer, SHUT_WR);
	} else {
		return 0;
	}
	tr("\"e\":\"Env\",\"op\":\"%s\",\"o\":%d,\"n\":%ld,\"now\":[%lld,%lld]}", n, id, r, TS(vnow));
	return 1;
}

static void run_ops(char ctx, int kind, int id, int band, int occ, int q)
{
	for (int i = 0; i < nops; i++) {
		struct op *p = &ops[i];

		if (p->ctx != ctx)
			continue;
		if (ctx == 'R' && !(p->kind == kind && p->id == id && p->band == band &&
				    (p->occ == 0 || p->occ == occ)))
			continue;
		do_op(p);
	}
}

static int wound_down, last_env_q;

/* a plain (loop-less) thread running its 'T' operations in order */
static void *thread_body(void *arg)
{
	int tid = (int)(long)arg;

	tr("\"e\":\"ThB\",\"x\":%d}", tid);
	for (int i = 0; i < nops; i++)
		if (ops[i].ctx == 'T' && ops[i].kind == tid)
			do_op(&ops[i]);
	tr("\"e\":\"ThE\"}");
	return NULL;
}

static void ivthread_body(void *arg)
{
	thread_body(arg);
}

static void join_threads(void)
{
	for (int i = 1; i < MAXTH; i++) {
		if (thr_started[i] == 1 && !thr_joined[i]) {
			thr_joined[i] = 1;
			pthread_join(thr[i], NULL);
		}
	}
}

static int env_at_quiescence(int q)
{
	int n = 0;

	for (int i = 0; i < nops; i++)
		if (ops[i].ctx == 'E' && ops[i].q == q)
			n += do_env(&ops[i]);
	return n;
}

/* nothing can happen any more: hang up every peer once, which makes every
 * still-registered descriptor ready and lets the script wind down */
static int env_at_hang(void)
{
	int n = 0;

	if (wound_down)
		return 0;
	wound_down = 1;
	for (int i = 1; i <= MAXO; i++) {
		struct obj *o = &O[K_FD][i];
		if (o->declared && o->peer >= 0) {
			__real_close(o->peer);
			o->peer = -1;
			tr("\"e\":\"Env\",\"op\":\"pclose\",\"o\":%d,\"n\":0,\"now\":[%lld,%lld]}", i, TS(vnow));
			n++;
		}
	}
	return n;
}

/* the harness's own per-thread state user: observes the tls hook pairing */
#include <iv_tls.h>
static struct iv_tls_user harness_tls_user;
static void tls_init_hook(void *p)
{
	memcpy(p, "ivh-tls-magic-ok", 16);
	tr("\"e\":\"Tls\",\"op\":\"init\",\"ok\":1}");
}
/* the tear-down hook of a module may use the API (iv_tls(3)): the thread's state is still there */
static void tls_deinit_hook(void *p)
{
	void *q = iv_tls_user_ptr(&harness_tls_user);
	int ok = q == p && !memcmp(p, "ivh-tls-magic-ok", 16);
	tr("\"e\":\"Tls\",\"op\":\"deinit\",\"ok\":%d}", ok);
}
static struct iv_tls_user harness_tls_user = {
	.sizeof_state = 16,
	.init_thread = tls_init_hook,
	.deinit_thread = tls_deinit_hook,
};

/* ----------------------------------------------------------------- driver */
static void fatal_msg(const char *msg)
{
	char b[200];
	size_t j = 0;

	for (size_t i = 0; msg[i] && j < sizeof b - 1; i++)
		b[j++] = (msg[i] == '"' || msg[i] == '\\' || msg[i] < 32) ? ' ' : msg[i];
	b[j] = 0;
	tr("\"e\":\"Fatal\",\"msg\":\"%s\"}", b);
}

/* build an exclusion list that leaves `m` as the first acceptable method;
 * the order and the white space of the list vary with the script seed, and
 * methods after `m` may be excluded as well */
static void exclude_for(const char *m)
{
	const char *all[] = { "epoll-timerfd", "epoll", "ppoll", "poll" };
	const char *pick[8];
	char buf[160] = "";
	int n = 0, mi = 0;
	unsigned r = seed * 2654435761u;

	for (int i = 0; i < 4; i++)
		if (!strcmp(all[i], m))
			mi = i;
	for (int i = 0; i < mi; i++)
		pick[n++] = all[i];
	for (int i = mi + 1; i < 4; i++)
		if ((r >> (8 + i)) & 1)
			pick[n++] = all[i];
	if (n > 1 && (r & 1)) {		/* reverse the order */
		for (int i = 0; i < n / 2; i++) {
			const char *t = pick[i];
			pick[i] = pick[n - 1 - i];
			pick[n - 1 - i] = t;
		}
	}
	if (r & 2)
		strcat(buf, " ");
	for (int i = 0; i < n; i++) {
		strcat(buf, pick[i]);
		strcat(buf, (r & 4) && i + 1 < n ? "  " : " ");
	}
	if (n == 0 && (r & 8))
		unsetenv("IV_EXCLUDE_POLL_METHOD");
	else
		setenv("IV_EXCLUDE_POLL_METHOD", buf, 1);
	tr("\"e\":\"Want\",\"m\":\"%s\",\"x\":\"%s\"}", m, buf);
}

static void run_script(void)
{
	simk_init(seed);
	simk_wait_limit = maxwait + 40;
	simk_log_dec = 1;
	simk_sched_det = sched_det;
	if (nsched)
		simk_set_schedule(schedbuf, nsched);
	if (sticky >= 0)
		simk_set_sticky(sticky);
	simk_jump_prob = jump;
	if (sigsim) {
		simk_sig_init();
		if (npids)
			simk_set_next_pids(pids, npids);
		simk_set_sigchld_thread(chldthr);
	}
	hooks.truth_json = truth_json;
	hooks.fid_of_ptr = fid_of_ptr;
	hooks.fid_of_osfd = fid_of_osfd;
	hooks.env_at_quiescence = env_at_quiescence;
	hooks.env_at_hang = env_at_hang;
	hooks.check_touch = check_touch;
	hooks.nfid = 0;
	for (int i = 1; i <= MAXO; i++) {
		if (O[K_FD][i].declared) {
			make_osfd(&O[K_FD][i]);
			hooks.nfid = i;
		}
	}
	iv_set_fatal_msg_handler(fatal_msg);
	tr("\"e\":\"Reset\",\"id\":\"%s\",\"m\":\"%s\",\"nf\":%d}", script_id, method, hooks.nfid);
	exclude_for(method);
	if (memrec)
		memrec_init(memrec > 1);
	iv_tls_user_register(&harness_tls_user);
	for (int cyc = 0; cyc < (cycles > 0 ? cycles : 1); cyc++) {
		if (cyc) {
			/* a further init / use / deinit cycle of the same program */
			tr("\"e\":\"Cycle\",\"n\":%d}", cyc);
			for (int k = 0; k < NKIND; k++)
				for (int i = 0; i <= MAXO; i++) {
					memset(O[k][i].occ, 0, sizeof O[k][i].occ);
					if (O[k][i].reg) {
						/* still registered when the loop was torn down: the
						 * program starts over with a fresh object (also in
						 * keep mode -- the library's state for it is gone) */
						int ko = keepobjs;
						keepobjs = 0;
						O[k][i].reg = 0;
						quarantine(k, i);
						keepobjs = ko;
					}
				}
			forced_quit = 0;
			ncb = 0;
		}
		iv_init();
		tr("\"e\":\"Init\",\"m\":\"%s\"}", iv_poll_method_name());
		run_ops('S', 0, 0, 0, 0, 0);
		tr("\"e\":\"MainB\"}");
		in_main = 1;
		iv_main();
		in_main = 0;
		tr("\"e\":\"MainE\"}");
		run_ops('P', 0, 0, 0, 0, 0);
		join_threads();
		check_touch();
		tr("\"e\":\"Deinit\"}");
		iv_deinit();
		tr("\"e\":\"DeinitE\"}");
		check_touch();
	}
	simk_end("ok", 0);
}

static void reset_script(void)
{
	memset(O, 0, sizeof O);
	nops = 0;
	nq = 0;
	strcpy(method, "epoll-timerfd");
	seed = 1;
	maxwait = 14;
	reuse = 0;
	nsched = 0;
	sched_det = 0;
	sticky = -1;
	jump = 0;
	maxcb = 120;
	sigsim = 0;
	keeptasks = 0;
	keepobjs = 0;
	memrec = 0;
	cycles = 0;
	npids = 0;
	chldthr = 0;
	memset(thr_started, 0, sizeof thr_started);
	memset(thr_joined, 0, sizeof thr_joined);
	for (int k = 0; k < NKIND; k++)
		for (int i = 0; i <= MAXO; i++)
			O[k][i].osfd = O[k][i].peer = -1;
}

static void parse_op(struct op *p, char **tok, int nt)
{
	snprintf(p->name, sizeof p->name, "%s", nt > 0 ? tok[0] : "");
	for (int i = 0; i < 5; i++)
		p->a[i] = (i + 1 < nt) ? atol(tok[i + 1]) : 0;
}

int main(int argc, char **argv)
{
	FILE *in = stdin;
	int outfd = 1, timeout_s = 3, ntimeouts = 0;
	char line[4096];

	for (int i = 1; i < argc; i++) {
		if (!strcmp(argv[i], "-i") && i + 1 < argc)
			in = fopen(argv[++i], "r");
		else if (!strcmp(argv[i], "-o") && i + 1 < argc)
			outfd = open(argv[++i], O_WRONLY | O_CREAT | O_APPEND, 0644);
		else if (!strcmp(argv[i], "-T") && i + 1 < argc)
			timeout_s = atoi(argv[++i]);
	}
	if (in == NULL || outfd < 0) {
		fprintf(stderr, "ivh_core: cannot open input/output\n");
		return 2;
	}
	tr_open(outfd);
	reset_script();
	while (fgets(line, sizeof line, in)) {
		char *tok[16];
		int nt = 0;

		for (char *s = strtok(line, " \t\r\n"); s && nt < 16; s = strtok(NULL, " \t\r\n"))
			tok[nt++] = s;
		if (nt == 0 || tok[0][0] == '#')
			continue;
		switch (tok[0][0]) {
		case 'B':
			reset_script();
			snprintf(script_id, sizeof script_id, "%s", nt > 1 ? tok[1] : "?");
			for (int i = 2; i < nt; i++) {
				if (!strncmp(tok[i], "method=", 7)) snprintf(method, sizeof method, "%s", tok[i] + 7);
				else if (!strncmp(tok[i], "seed=", 5)) seed = atoi(tok[i] + 5);
				else if (!strncmp(tok[i], "maxwait=", 8)) maxwait = atoi(tok[i] + 8);
				else if (!strncmp(tok[i], "reuse=", 6)) reuse = atoi(tok[i] + 6);
				else if (!strncmp(tok[i], "det=", 4)) sched_det = atoi(tok[i] + 4);
				else if (!strncmp(tok[i], "jump=", 5)) jump = atoi(tok[i] + 5);
				else if (!strncmp(tok[i], "sigsim=", 7)) sigsim = atoi(tok[i] + 7);
				else if (!strncmp(tok[i], "keeptasks=", 10)) keeptasks = atoi(tok[i] + 10);
				else if (!strncmp(tok[i], "keep=", 5)) keepobjs = atoi(tok[i] + 5);
				else if (!strncmp(tok[i], "memrec=", 7)) memrec = atoi(tok[i] + 7);
				else if (!strncmp(tok[i], "cycles=", 7)) cycles = atoi(tok[i] + 7);
				else if (!strncmp(tok[i], "chldthr=", 8)) chldthr = atoi(tok[i] + 8);
				else if (!strncmp(tok[i], "pids=", 5)) {
					npids = 0;
					for (char *q = strtok(tok[i] + 5, ","); q && npids < 16; q = strtok(NULL, ","))
						pids[npids++] = atoi(q);
				}
				else if (!strncmp(tok[i], "maxcb=", 6)) maxcb = atoi(tok[i] + 6);
				else if (!strncmp(tok[i], "sticky=", 7)) sticky = atoi(tok[i] + 7);
				else if (!strncmp(tok[i], "sched=", 6)) {
					nsched = 0;
					for (char *q = tok[i] + 6; *q && nsched < 1024; q++)
						if (*q >= '0' && *q <= '9')
							schedbuf[nsched++] = *q - '0';
				}
			}
			break;
		case 'O': {
			int k = nt > 2 ? kind_of(tok[1]) : -1, id = nt > 2 ? atoi(tok[2]) : 0;
			if (k < 0 || id < 1 || id > MAXO)
				break;
			O[k][id].declared = 1;
			O[k][id].ptype = nt > 3 ? (!strcmp(tok[3], "pw") ? 1 : !strcmp(tok[3], "sk") ? 2 : 0) : 0;
			break;
		}
		case 'S': case 'P':
			if (nops < MAXOPS) {
				ops[nops].ctx = tok[0][0];
				parse_op(&ops[nops++], tok + 1, nt - 1);
			}
			break;
		case 'R':
			if (nops < MAXOPS && nt >= 6) {
				struct op *p = &ops[nops++];
				p->ctx = 'R';
				p->kind = kind_of(tok[1]);
				p->id = atoi(tok[2]);
				p->band = atoi(tok[3]);
				p->occ = atoi(tok[4]);
				parse_op(p, tok + 5, nt - 5);
			}
			break;
		case 'T':
			if (nops < MAXOPS && nt >= 3) {
				struct op *p = &ops[nops++];
				p->ctx = 'T';
				p->kind = atoi(tok[1]);
				parse_op(p, tok + 2, nt - 2);
			}
			break;
		case 'E':
			if (nops < MAXOPS && nt >= 3) {
				struct op *p = &ops[nops++];
				p->ctx = 'E';
				p->q = atoi(tok[1]);
				parse_op(p, tok + 2, nt - 2);
			}
			break;
		case 'F':
			/* remembered as ops so that each child starts clean */
			if (nops < MAXOPS && nt >= 4) {
				struct op *p = &ops[nops++];
				p->ctx = 'F';
				snprintf(p->name, sizeof p->name, "%s", tok[1]);
				p->a[0] = atoi(tok[2]);
				p->a[1] = errno_by_name(tok[3]);
				p->a[2] = nt > 4 ? atoi(tok[4]) : 0;
			}
			break;
		case 'X': {
			if (ntimeouts >= 3) {
				/* the tree under test hangs: do not spend the budget */
				tr("\"e\":\"Reset\",\"id\":\"%s\",\"m\":\"%s\",\"nf\":0}", script_id, method);
				tr("\"e\":\"End\",\"why\":\"skipped\",\"sig\":0,\"now\":[0,0]}");
				tr_flush();
				break;
			}
			pid_t pid = fork();
			if (pid == 0) {
				for (int i = 0; i < nops; i++)
					if (ops[i].ctx == 'F')
						fault_add(ops[i].name, ops[i].a[0], ops[i].a[1], ops[i].a[2]);
				alarm(timeout_s);
				run_script();
				_exit(0);
			}
			int st = 0;
			struct timespec t0, t1;
			__real_clock_gettime(CLOCK_MONOTONIC, &t0);
			waitpid(pid, &st, 0);
			__real_clock_gettime(CLOCK_MONOTONIC, &t1);
			if (t1.tv_sec - t0.tv_sec >= timeout_s)
				ntimeouts++;
			if (WIFSIGNALED(st)) {
				/* the child could not write its own records (its buffer is lost) */
				me = 0;
				tr("\"e\":\"Reset\",\"id\":\"%s\",\"m\":\"%s\",\"nf\":0}", script_id, method);
				tr("\"e\":\"End\",\"why\":\"%s\",\"sig\":%d,\"now\":[0,0]}",
				   WTERMSIG(st) == SIGALRM ? "timeout" : "killed", WTERMSIG(st));
				tr_flush();
			} else if (WEXITSTATUS(st) != 0) {
				tr("\"e\":\"Reset\",\"id\":\"%s\",\"m\":\"%s\",\"nf\":0}", script_id, method);
				tr("\"e\":\"End\",\"why\":\"exit\",\"sig\":%d,\"now\":[0,0]}", WEXITSTATUS(st));
				tr_flush();
			}
			break;
		}
		default:
			break;
		}
	}
	return 0;
}
