SPECIFICATION Spec
CONSTANTS
  H = 4
  SampleMod = 1
  Mode = "ops"
CHECK_DEADLOCK FALSE
INVARIANTS
  InvBuilt
  InvParent
  InvSet
  InvOrder
  InvHeight
  InvBalance
  InvTraversal
  InvDup
  InvJudge
  InvFastJudge
  InvFastSame
  Emit
