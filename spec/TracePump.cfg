SPECIFICATION TSpec
CONSTANTS
  BufSize = 4096
  MaxStream = 0
  MaxCached = 20
  Modes = {"rw", "sp"}
  Relays = {0, 1}
CHECK_DEADLOCK FALSE
