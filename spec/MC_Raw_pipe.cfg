SPECIFICATION FairSpec
CONSTANTS Mode = "pipe" Cap = 3 ReadMax = 2 Posters = {p1, p2} MaxPosts = 3
INVARIANTS NoLostPost DropOnlyWhenReadable
PROPERTY Delivered
CHECK_DEADLOCK FALSE
