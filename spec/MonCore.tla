--------------------------- MODULE MonCore ---------------------------
(* Property monitors C01-C07 (and the single-threaded clauses of C08/C09) over
   the observable event alphabet of the loop core (DESIGN 3.1, App. A, C).

   MonStep(m, e) consumes one observable event e (a record, as logged by the
   harness or as emitted by the IvCore system model) and returns the new
   monitor state.  Property-violating events are not disabled: they are
   accepted and their rule name is added to m.viols, so that a whole execution
   is attributed.  m.seen collects the rules whose antecedent held at least
   once (vacuity accounting).

   Conventions: object ids 1..MaxO per kind; bands 1 = in, 2 = out, 3 = err;
   readiness bit sets are integers (1 IN, 2 OUT, 4 ERR, 8 HUP), -1 = unknown;
   times are pairs <<seconds, nanoseconds>>, <<-1,0>> = none/infinite. *)
EXTENDS Naturals, Integers, Sequences, FiniteSets, TLC

MaxO == 8
Obj == 1..MaxO
Band == 1..3

Has(x, bit) == x >= 0 /\ (x \div bit) % 2 = 1
Cond(b, x) == CASE b = 1 -> Has(x, 1) \/ Has(x, 4) \/ Has(x, 8)
                [] b = 2 -> Has(x, 2) \/ Has(x, 4) \/ Has(x, 8)
                [] OTHER -> Has(x, 4) \/ Has(x, 8)

TsLt(a, b) == a[1] < b[1] \/ (a[1] = b[1] /\ a[2] < b[2])
TsLeq(a, b) == ~TsLt(b, a)
TsMax(a, b) == IF TsLt(a, b) THEN b ELSE a
TsAdd(a, b) == LET n == a[2] + b[2] IN
               IF n >= 1000000000 THEN <<a[1] + b[1] + 1, n - 1000000000>>
                                  ELSE <<a[1] + b[1], n>>
None == <<-1, 0>>
IsNone(a) == a[1] < 0

FdInit == [reg |-> FALSE, h |-> <<0, 0, 0>>, ck |-> 0, truth |-> -1,
           called |-> {}, miss |-> <<0, 0, 0>>]
TmInit == [st |-> "idle", exp |-> <<0, 0>>, seq |-> 0]
TkInit == [st |-> "idle", ran |-> FALSE]
EvInit == [reg |-> FALSE, needs |-> FALSE, posts |-> 0, calls |-> 0, owner |-> 0]

MonInit ==
  [ inMain |-> FALSE, quit |-> FALSE, everMain |-> FALSE,
    fd  |-> [o \in Obj |-> FdInit],
    tm  |-> [o \in Obj |-> TmInit],
    tk  |-> [o \in Obj |-> TkInit],
    ev  |-> [o \in Obj |-> EvInit],
    raw |-> [o \in Obj |-> EvInit],
    due |-> {},            \* <<f, b>> reported by the kernel, to be dispatched
    libNow |-> <<0, 0>>,   \* last clock value the library read
    seq |-> 0, roundSeq |-> 0,
    idle |-> 0,            \* consecutive progress-free, non-blocking iterations
    cbSince |-> FALSE,     \* a callback ran since the last wait entry
    lastWR |-> <<0, 0>>,   \* clock when the last wait returned (the library must know at least that much)
    inval |-> <<0, 0>>,    \* clock when the program last told the library that time has passed (iv_invalidate_now)
    prevW |-> <<FALSE, <<0, 0>>, 0>>,   \* previous wait entry of this iv_main: <<valid, clock, registration seq>>
    ctx |-> "loop",        \* kind of the last callback / API object
    fatal |-> "",
    blocked |-> FALSE,     \* the loop thread sits in a wait that found nothing
    wantMethod |-> "",     \* poll method the configuration (exclusion list) must select
    opaque |-> FALSE,      \* objects of other subsystems hold loop references
                           \* whose release is not observable here
    viols |-> {}, seen |-> {} ]

V(m, rule) == [m EXCEPT !.viols = @ \cup {rule}]
S(m, rule) == [m EXCEPT !.seen = @ \cup {rule}]
(* Check(m, antecedent, ok, rule): count the antecedent, flag if not ok *)
Chk(m, ante, ok, rule) ==
  IF ante THEN (IF ok THEN S(m, rule) ELSE V(S(m, rule), rule)) ELSE m

UserObjs(m) ==
  Cardinality({o \in Obj : m.fd[o].reg}) + Cardinality({o \in Obj : m.tm[o].st = "reg"}) +
  Cardinality({o \in Obj : m.tk[o].st = "reg"}) + Cardinality({o \in Obj : m.ev[o].reg}) +
  Cardinality({o \in Obj : m.raw[o].reg})

RegTimers(m) == {o \in Obj : m.tm[o].st = "reg"}
MinExp(m) == LET R == RegTimers(m) IN
             CHOOSE x \in {m.tm[o].exp : o \in R} : \A o \in R : TsLeq(x, m.tm[o].exp)

Wanted(m, f, b) == m.fd[f].reg /\ m.fd[f].h[b] # 0

KindProp(k) == CASE k = "fd" -> "C03" [] k = "tm" -> "C04" [] k = "tk" -> "C06"
                 [] k = "ev" -> "C08" [] k = "raw" -> "C09" [] k = "sig" -> "C10" [] k = "wait" -> "C11"
                 [] k = "popen" -> "C19" [] k = "wi" -> "C12" [] k = "pool" -> "C13" [] OTHER -> "C07"

DropDue(m, f) == [m EXCEPT !.due = {d \in @ : d[1] # f}]

-----------------------------------------------------------------------------
(* API calls, logged at their return *)
ApiStep(m0, e) ==
  LET o == e.o
      m == [m0 EXCEPT !.ctx = IF e.op \in {"fd_reg", "fd_try", "fd_unreg", "fd_set", "fd_cookie"} THEN "fd"
                              ELSE IF e.op \in {"tm_reg", "tm_unreg"} THEN "tm"
                              ELSE IF e.op \in {"tk_reg", "tk_unreg"} THEN "tk"
                              ELSE IF e.op \in {"ev_reg", "ev_unreg", "ev_post"} THEN "ev"
                              ELSE IF e.op \in {"raw_reg", "raw_unreg", "raw_post"} THEN "raw"
                              ELSE IF e.op \in {"sig_reg", "sig_unreg"} THEN "sig"
                              ELSE IF e.op \in {"wait_reg", "wait_spawn", "wait_unreg", "wait_kill"} THEN "wait"
                              ELSE IF e.op \in {"popen", "popen_close"} THEN "popen"
                              ELSE @]
  IN
  CASE e.op \in {"fd_reg", "fd_try"} ->
         IF e.r = 0
         THEN DropDue([m EXCEPT !.fd[o] = [FdInit EXCEPT !.reg = TRUE, !.h = <<e.a, e.b, e.c>>,
                                                          !.ck = e.ts[2]]], o)
         ELSE S(m, "C07:failed-reg")
    [] e.op = "fd_unreg" -> DropDue([m EXCEPT !.fd[o].reg = FALSE], o)
    [] e.op = "fd_set" ->
         LET m1 == [m EXCEPT !.fd[o].h[e.a] = e.b] IN
         IF e.b = 0 THEN [m1 EXCEPT !.due = @ \ {<<o, e.a>>}] ELSE m1
    [] e.op = "fd_cookie" -> [m EXCEPT !.fd[o].ck = e.a]
    [] e.op = "tm_reg" -> [m EXCEPT !.tm[o] = [st |-> "reg", exp |-> e.ts, seq |-> m.seq + 1],
                                    !.seq = @ + 1]
    [] e.op = "tm_unreg" -> [m EXCEPT !.tm[o].st = "unreg"]
    [] e.op = "tk_reg" -> [m EXCEPT !.tk[o].st = "reg"]
    [] e.op = "tk_unreg" -> [m EXCEPT !.tk[o].st = "unreg"]
    [] e.op = "ev_reg" -> IF e.r = 0 THEN [m EXCEPT !.ev[o] = [EvInit EXCEPT !.reg = TRUE, !.owner = e.t]]
                          ELSE S(m, "C07:failed-reg")
    [] e.op = "ev_unreg" -> [m EXCEPT !.ev[o].reg = FALSE, !.ev[o].needs = FALSE]
    [] e.op = "ev_post" -> m     \* counted at PostB (the moment the post began)
    [] e.op = "raw_reg" -> IF e.r = 0 THEN [m EXCEPT !.raw[o] = [EvInit EXCEPT !.reg = TRUE, !.owner = e.t]]
                           ELSE S(m, "C07:failed-reg")
    [] e.op = "raw_unreg" -> [m EXCEPT !.raw[o].reg = FALSE, !.raw[o].needs = FALSE]
    [] e.op = "raw_post" -> m
    [] e.op = "quit" -> IF m.inMain /\ e.t = 0 THEN [m EXCEPT !.quit = TRUE] ELSE m
    [] e.op \in {"pool_create", "submit", "submit_cont", "thr_create", "sig_reg", "wait_reg", "wait_spawn", "popen", "ino_reg"} ->
         [m EXCEPT !.opaque = TRUE]
    [] e.op = "invalidate" -> [m EXCEPT !.inval = e.ts]
    [] OTHER -> m

-----------------------------------------------------------------------------
(* callback entry *)
CbFd(m, e) ==
  LET f == e.o  b == e.b  r == m.fd[f] IN
  IF ~r.reg
  THEN V(V(m, "C01:cb-after-unreg"), "C03:not-registered")
  ELSE
    LET m1 == Chk(S(m, "C01:cb-after-unreg"), TRUE, r.h[b] = e.h,
                  IF r.h[b] = 0 THEN "C03:null-handler" ELSE "C03:stale-handler")
        m2 == Chk(m1, TRUE, r.ck = e.ck /\ e.ko = "fd", "C03:wrong-cookie")
        m3 == Chk(m2, TRUE, Cond(b, r.truth), "C03:not-ready")
        m4 == Chk(m3, TRUE, b \notin r.called, "C03:twice")
    IN [m4 EXCEPT !.fd[f].called = @ \cup {b}, !.due = @ \ {<<f, b>>},
                  !.fd[f].miss[b] = 0]

CbTm(m, e) ==
  LET t == e.o  r == m.tm[t] IN
  IF r.st # "reg"
  THEN IF r.st = "fired" THEN V(S(m, "C04:twice"), "C04:twice")
                         ELSE V(S(m, "C01:cb-after-unreg"), "C01:cb-after-unreg")
  ELSE
    LET m1 == Chk(S(S(m, "C04:twice"), "C01:cb-after-unreg"), TRUE, e.reg = 0, "C01:oneshot-still-registered")
        m2 == Chk(m1, TRUE, TsLeq(r.exp, m.libNow), "C04:early")
        m3 == Chk(m2, TRUE, e.h = t /\ e.ko = "tm", "C04:wrong-cookie")
        older == {u \in Obj : u # t /\ m.tm[u].st = "reg" /\ m.tm[u].seq <= m.roundSeq}
        m4 == Chk(m3, older # {}, \A u \in older : ~TsLt(m.tm[u].exp, r.exp), "C05:order")
    IN [m4 EXCEPT !.tm[t].st = "fired"]

CbTk(m, e) ==
  LET k == e.o  r == m.tk[k] IN
  IF r.st # "reg"
  THEN IF r.st = "fired" THEN V(S(m, "C06:twice"), "C06:twice")
                         ELSE V(S(m, "C01:cb-after-unreg"), "C01:cb-after-unreg")
  ELSE
    LET m1 == Chk(S(S(m, "C06:twice"), "C01:cb-after-unreg"), TRUE, e.reg = 0, "C06:registered-at-entry")
        m2 == Chk(m1, TRUE, ~r.ran, "C06:starve")
        m3 == Chk(m2, TRUE, e.h = k /\ e.ko = "tk", "C06:wrong-cookie")
    IN [m3 EXCEPT !.tk[k].st = "fired", !.tk[k].ran = TRUE]

CbEv(m, e, fld, P) ==
  LET o == e.o  r == m[fld][o] IN
  IF ~r.reg
  THEN V(S(m, "C01:cb-after-unreg"), "C01:cb-after-unreg")
  ELSE
    LET m1 == Chk(S(m, "C01:cb-after-unreg"), P = "C08", r.calls + 1 <= r.posts, "C08:over")
        m2 == Chk(m1, TRUE, e.h = o /\ e.ko = e.k, P \o ":wrong-cookie")
        m3 == Chk(m2, TRUE, e.t = r.owner, P \o ":wrong-thread")
    IN [m3 EXCEPT ![fld][o].needs = FALSE, ![fld][o].calls = @ + 1]

CbStep(m0, e) ==
  LET m1 == Chk(m0, TRUE, m0.inMain, "C07:cb-outside-main")
      m2 == Chk(m1, TRUE, e.d = 0 /\ e.api = 0, "C07:nested")
      m  == [m2 EXCEPT !.idle = 0, !.cbSince = TRUE, !.ctx = e.k]
  IN CASE e.k = "fd" -> CbFd(m, e)
       [] e.k = "tm" -> CbTm(m, e)
       [] e.k = "tk" -> CbTk(m, e)
       [] e.k = "ev" -> CbEv(m, e, "ev", "C08")
       [] e.k = "raw" -> CbEv(m, e, "raw", "C09")
       [] OTHER -> m

-----------------------------------------------------------------------------
(* end of the dispatch phase: everything the kernel reported for a wanted band
   must have been dispatched, cleared or unregistered *)
DueCheck(m) ==
  LET left == {d \in m.due : Wanted(m, d[1], d[2])} IN
  [Chk(m, TRUE, left = {}, "C02:due-not-dispatched") EXCEPT !.due = {}]

MsGranular(p) == p \in {"epoll_wait", "poll"}

(* effective deadline the thread asks the kernel for: the relative timeout
   counted from now, or the armed / already expired kernel timer *)
EffDeadline(e) ==
  LET a == IF IsNone(e.to) THEN None ELSE TsAdd(e.now, e.to) IN
  IF IsNone(a) THEN e.tfd ELSE IF IsNone(e.tfd) THEN a ELSE IF TsLt(e.tfd, a) THEN e.tfd ELSE a

WaitEnter(m0, e) ==
  LET m1 == DueCheck(m0)
      eff == EffDeadline(e)
      (* with nothing of the program's registered any more, the loop may still make one
         non-blocking pass directly after the callback that removed the last object (an
         internal task of the library, e.g. the local event delivery task, may be queued);
         it must not block, and must not come round again *)
      lastPass == ~IsNone(eff) /\ TsLeq(eff, e.now) /\ m1.cbSince
      m2 == Chk(m1, m1.inMain /\ ~m1.opaque,
                ~m1.quit /\ (UserObjs(m1) = 0 => lastPass), "C07:poll-without-objs")
      tasks == \E k \in Obj : m2.tk[k].st = "reg"
      m3 == Chk(m2, tasks, ~IsNone(eff) /\ TsLeq(eff, e.now), "C06:nonzero-timeout")
      hasT == RegTimers(m3) # {}
      mx == IF hasT THEN MinExp(m3) ELSE None
      slack == IF MsGranular(e.p) /\ ~IsNone(e.to) THEN <<0, 999999>> ELSE <<0, 1>>
      (* the loop measures its timeout from the clock it knows: the last value it read, at least the
         moment the last wait returned.  Time that passes inside callbacks without the program saying so
         (iv_invalidate_now) is the program's business, time that passes in a wait is the library's *)
      (* ... unless the program said so: after iv_invalidate_now every clock value the library uses is a
         fresh reading, so the moment of that call is known to it as well *)
      kn0 == TsMax(TsMax(m3.libNow, m3.lastWR), m3.inval)
      known == IF TsLt(e.now, kn0) THEN e.now ELSE kn0
      aK == IF IsNone(e.to) THEN None ELSE TsAdd(known, e.to)
      effK == IF IsNone(aK) THEN e.tfd ELSE IF IsNone(e.tfd) THEN aK ELSE IF TsLt(e.tfd, aK) THEN e.tfd ELSE aK
      m4 == Chk(m3, hasT, ~IsNone(effK) /\ TsLeq(effK, TsAdd(TsMax(known, mx), slack)), "C04:oversleep")
      (* a timer that was registered and due when the previous wait was entered has been through
         a timer pass since (the wait returned, the loop came round): it cannot still be waiting *)
      starved == {t \in RegTimers(m4) : m4.tm[t].seq <= m4.prevW[3] /\ TsLeq(m4.tm[t].exp, m4.prevW[2])}
      m4b == Chk(m4, m4.prevW[1] /\ m4.inMain, starved = {}, "C04:starved")
      (* spin: consecutive iterations that neither blocked nor ran a callback *)
      m5 == [m4b EXCEPT !.idle = IF m4b.cbSince THEN 0 ELSE @ + 1, !.cbSince = FALSE,
                        !.prevW = <<TRUE, e.now, m4b.seq>>]
  IN Chk(m5, m5.idle >= 2, m5.idle < 6, "C07:spin")

Block(m, e) ==
  LET N == Len(e.tr)
      ready == {fb \in (1..N) \X Band : Wanted(m, fb[1], fb[2]) /\ Cond(fb[2], e.tr[fb[1]])}
      wantedAny == \E f \in 1..N : \E b \in Band : Wanted(m, f, b)
      m1 == Chk(m, wantedAny, ready = {}, "C02:sleep-on-ready")
      m2 == Chk(m1, \E k \in Obj : m1.tk[k].st \in {"reg", "fired"},
                ~(\E k \in Obj : m1.tk[k].st = "reg"), "C06:sleep-with-task")
  IN [m2 EXCEPT !.idle = 0, !.blocked = TRUE]

(* global quiescence: every thread is blocked or gone, nothing is in flight.
   An undelivered post to a registered event of a sleeping loop is lost. *)
Quiesce(m) ==
  LET m3 == Chk(m, m.blocked /\ \E o \in Obj : m.ev[o].reg /\ m.ev[o].posts > 0,
                ~(\E o \in Obj : m.ev[o].reg /\ m.ev[o].needs), "C08:lost")
  IN Chk(m3, m3.blocked /\ \E o \in Obj : m3.raw[o].reg /\ m3.raw[o].posts > 0,
         ~(\E o \in Obj : m3.raw[o].reg /\ m3.raw[o].needs), "C09:lost")

PostBegin(m, e) ==
  IF e.k = "ev" THEN [m EXCEPT !.ev[e.o].needs = TRUE, !.ev[e.o].posts = @ + e.n]
  ELSE [m EXCEPT !.raw[e.o].needs = TRUE, !.raw[e.o].posts = @ + e.n]

WaitRet(m, e) ==
  LET N == Len(e.tr)
      ok == e.r >= 0
      newdue == IF ok THEN {fb \in (1..N) \X Band : Wanted(m, fb[1], fb[2]) /\ e.ev[fb[1]] > 0 /\ Cond(fb[2], e.ev[fb[1]])}
                ELSE {}
      Miss(f, b) == IF ok /\ f <= N /\ Wanted(m, f, b) /\ Cond(b, e.tr[f]) /\ ~(e.ev[f] > 0 /\ Cond(b, e.ev[f]))
                    THEN m.fd[f].miss[b] + 1 ELSE IF ok THEN 0 ELSE m.fd[f].miss[b]
      m1 == [m EXCEPT !.fd = [f \in Obj |-> [@[f] EXCEPT !.called = {},
                                                         !.truth = IF f <= N /\ ok THEN e.tr[f] ELSE IF ok THEN -1 ELSE @,
                                                         !.miss = <<Miss(f, 1), Miss(f, 2), Miss(f, 3)>>]],
                      !.tk = [k \in Obj |-> [@[k] EXCEPT !.ran = FALSE]],
                      !.due = newdue, !.roundSeq = m.seq, !.blocked = FALSE,
                      !.idle = IF ok THEN @ ELSE 0,
                      (* an interrupted wait is not a timer pass (with the kernel timer armed the loop
                         simply waits again and is woken by it) *)
                      !.prevW = IF ok THEN @ ELSE <<FALSE, <<0, 0>>, 0>>,
                      !.lastWR = e.now]
      anyW == \E f \in 1..N : \E b \in Band : Wanted(m, f, b) /\ Cond(b, e.tr[f])
  IN Chk(m1, ok /\ anyW, \A f \in Obj : \A b \in Band : m1.fd[f].miss[b] < 3, "C02:not-reported")

MainBegin(m) ==
  [Chk(m, TRUE, ~m.inMain, "C07:nested") EXCEPT !.inMain = TRUE, !.quit = FALSE, !.everMain = TRUE,
                                                !.roundSeq = m.seq, !.idle = 0, !.cbSince = FALSE,
                                                !.prevW = <<FALSE, <<0, 0>>, 0>>]

MainEnd(m0) ==
  LET m == DueCheck(m0) IN
  [Chk(m, ~m.opaque, m.quit \/ UserObjs(m) = 0, "C07:return-with-objs") EXCEPT !.inMain = FALSE]

EndStep(m, e) ==
  CASE e.why \in {"ok", "hang", "runaway", "skipped", "toomanythreads", "toomanylocks"} -> m
    [] e.why = "timeout" -> V(V(m, "C07:hang-real"), KindProp(m.ctx) \o ":hang-real")
    [] OTHER ->  \* crash, abort, killed, exit, badcookie
       LET heap == m.fatal = "timer"
           m1 == V(m, "C18:crash")
           m2 == IF e.why = "crash-poison" THEN V(m1, "C01:acc-after-unreg") ELSE m1
       IN IF heap THEN V(m2, "C05:fatal") ELSE V(m2, KindProp(m.ctx) \o ":crash")

TimerFatal(msg) ==
  \E i \in 1..(Len(msg) - 4) : SubSeq(msg, i, i + 4) = "timer"

(* events of the loop thread (thread 0 runs the only loop in these scenarios) *)
LoopStep(m, e) ==
  CASE e.e = "CbB" -> CbStep(m, e)
    [] e.e = "WE" -> WaitEnter(m, e)
    [] e.e = "Blk" -> Block(m, e)
    [] e.e = "WR" -> WaitRet(m, e)
    [] e.e = "Clk" -> [m EXCEPT !.libNow = e.v]
    [] e.e = "MainB" -> MainBegin(m)
    [] e.e = "MainE" -> MainEnd(m)
    [] OTHER -> m

MonStep(m, e) ==
  CASE e.e = "A" -> IF e.t = 0 THEN ApiStep(m, e) ELSE m   \* other threads: only posts matter (PostB)
    [] e.e = "PostB" -> PostBegin(m, e)
    [] e.e \in {"CbB", "WE", "Blk", "WR", "Clk", "MainB", "MainE"} ->
         IF e.t = 0 THEN LoopStep(m, e)
         ELSE IF e.e = "CbB" /\ e.k \in {"ev", "raw"} THEN CbStep(m, e) ELSE m
    [] e.e = "Want" -> [m EXCEPT !.wantMethod = e.m]
    [] e.e = "Init" -> (* C15: the method chosen honours the exclusion list *)
         Chk(m, m.wantMethod # "", e.m = m.wantMethod, "C15:method-selection")
    [] e.e = "Qui" -> Quiesce(m)
    [] e.e = "Flt" ->
         (* a failed (interrupted, unsupported) wait call is still "the kernel
            poll" of this iteration: per-iteration bookkeeping starts over *)
         IF e.c \in {"epoll_wait", "epoll_pwait2", "poll", "ppoll"}
         THEN [m EXCEPT !.idle = 0, !.seen = @ \cup {"C15:fault"},
                        !.tk = [k \in Obj |-> [@[k] EXCEPT !.ran = FALSE]],
                        !.fd = [f \in Obj |-> [@[f] EXCEPT !.called = {}]],
                        !.roundSeq = m.seq]
         ELSE [m EXCEPT !.idle = 0, !.seen = @ \cup {"C15:fault"}]
    [] e.e = "Touch" -> V(V(m, "C01:acc-after-unreg"), "C18:not-lent")
    [] e.e = "Fatal" -> [m EXCEPT !.fatal = IF TimerFatal(e.msg) THEN "timer" ELSE "other"]
    [] e.e = "BadCookie" -> V(m, KindProp(e.k) \o ":wrong-cookie")
    [] e.e = "End" -> EndStep(m, e)
    [] OTHER -> m
=============================================================================
