SPECIFICATION GSpec
CONSTANTS
  BufSize = 4
  MaxStream = 7
  MaxCached = 2
  Modes = {"rw", "sp"}
  Relays = {0, 1}
  MaxCalls = 8
  MaxIntr = 2
  MaxAgain = 6
INVARIANT Emit
CHECK_DEADLOCK FALSE
