CONSTANTS
  SplitBits = 2
  MaxNodes = 28
  MaxT = 18
  NExp = 2
  MaxLevel = 100000
  CovPrint = FALSE
CONSTANT Timers <- TimerSet
INIT Init
NEXT Next
CONSTRAINT LevelBound
CHECK_DEADLOCK FALSE
INVARIANTS IBackIndex IMultiset IHeapOrder IRootIsMin INoStale IDepthMinimal INoDangling INoLeak IDeinit
