SPECIFICATION Spec
CONSTANTS
  H = 5
  SampleMod = 250
  Mode = "ops"
CHECK_DEADLOCK FALSE
INVARIANTS
  InvFastJudge
  InvDup
  Emit
