SPECIFICATION Spec
CONSTANTS
  FD = {1}
  TM = {1, 2}
  TK = {}
  EVS = {}
  Method = "ept"
  Hids = {1}
  Expiries = {0, 2, 3}
  MaxTime = 4
  MaxOps = 4
  MaxSetup = 3
  MaxCbOps = 1
  MaxWaits = 7
  MaxKern = 1
  AllowTry = FALSE
  KeepTasks = FALSE
  KernMode = "free"
  GenMode = FALSE
  MaxIntr = 1
  InitBits = {0, 1}
INVARIANTS NoViolation NumObjsOK ActiveRegistered HandledRegistered EpollSync PollArrayOK ExpiredOK TasksOK EventsOK TimerFdOK
VIEW View
CHECK_DEADLOCK FALSE
