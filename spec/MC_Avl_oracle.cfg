SPECIFICATION Spec
CONSTANTS
  H = 3
  SampleMod = 1
  Mode = "corrupt"
CHECK_DEADLOCK FALSE
INVARIANTS
  InvBuilt
  InvOracle
