----------------------------- MODULE TraceAvl -----------------------------
(* C16 -- trace validation: TLC reads an ndjson trace written by
   harness/ivh_avl.c (IOEnv.TRACE), one line per command executed on the REAL
   iv_avl.c, each line carrying every field of every node object after the
   command plus the forward and backward walks made with the real
   min/next/max/prev.  One TLC state per line.

   VERDICT.  For every "ins"/"del" line the real result is judged with the
   property predicates of IvAvl (FastJudge = Judge, see IvAvl PART 3) against
   the structure of the previous line and the set of nodes that must be in
   the tree: a non-empty verdict is printed as  VIOL {"line":..,"sigs":[..]}.
   After a STRUCTURAL violation nothing is judged until the next "set" line
   (the structure is then not a legal starting point any more); after a wrong
   return value or a wrong walk over a correct structure judging goes on.

   LOCK-STEP.  Independently, the model (IvAvl PART 1) is applied to the
   previous REAL structure and must produce the logged structure, return
   value and walks exactly, field by field, stale fields of unlinked nodes
   included.  A mismatch on a line whose verdict is empty is DRIFT: the code
   is still correct but no longer the algorithm that was model-checked; it is
   printed as a warning and never fails the check.

   "set" lines (direct pointer construction by the harness) restart from the
   logged structure; it must itself be a correct tree (else BADSET: a bug in
   the driver, not in the code) and the real walks over it are judged.  A script that deletes an absent node or
   inserts a linked one is BADOP (also a driver bug).

   TLC note: everything a step computes is a pure operator of (st, line) and
   is assigned with a single  st' = ...  -- LET bindings placed directly in an
   action are re-evaluated by TLC at every use (measured 6x in MC_Avl).

   The last step prints  DONE {...counters...}.  The driver accepts a run only
   if the number of distinct states is lines + 1 and DONE was printed. *)
EXTENDS IvAvl, TLC, Json, IOUtils

VARIABLES l,        \* next line to consume
          st        \* [cur, members, judging, cnt, msg]:
                    \*   cur      the real structure after line l-1
                    \*   members  the nodes that must be linked in cur
                    \*   judging  FALSE after a structural violation, until the next "set"
                    \*   cnt      counters
                    \*   msg      what this step has to report ("" = nothing)
tvars == <<l, st>>

Log == ndJsonDeserialize(IOEnv.TRACE)
N == Len(Log)

Struct(e, keys) == [root |-> e.root, left |-> e.left, right |-> e.right,
                    parent |-> e.parent, height |-> e.height, key |-> keys]

Cnt0 == [ops |-> 0, viol |-> 0, drift |-> 0, nontriv |-> 0, dup |-> 0, bad |-> 0]
Blank == [root |-> 0, left |-> <<>>, right |-> <<>>, parent |-> <<>>,
          height |-> <<>>, key |-> <<>>]

TInit == /\ l = 1
         /\ st = [cur |-> Blank, members |-> {}, judging |-> FALSE, cnt |-> Cnt0, msg |-> ""]

OpOf(e) == [kind |-> e.op, n |-> e.n, key |-> e.key]
Bump(c, dup, chg) == [c EXCEPT !.ops = @ + 1,
                               !.dup = @ + (IF dup THEN 1 ELSE 0),
                               !.nontriv = @ + (IF dup \/ chg > 2 THEN 1 ELSE 0)]

SetLine(s, e, ln) ==
  LET t  == Struct(e, e.keys)
      sc == Scan(t, t.root, NULL)
      S  == Range(sc.seq)
      ok == ViolsOfScan(t, S, sc) = {}
      tv == ok /\ ~(e.fwd = sc.seq /\ e.bwd = Reverse(sc.seq))   \* the real walks
  IN [cur |-> t, members |-> S, judging |-> ok,
      cnt |-> [s.cnt EXCEPT !.bad = @ + (IF ok THEN 0 ELSE 1),
                            !.viol = @ + (IF tv THEN 1 ELSE 0)],
      msg |-> IF ~ok THEN "BADSET " \o ToJson([line |-> ln])
              ELSE IF tv THEN "VIOL " \o ToJson([line |-> ln, sigs |-> {"traversal"}])
              ELSE ""]

OpLine(s, e, ln) ==
  LET op    == OpOf(e)
      pre   == SetKey(s.cur, op)
      post  == Struct(e, pre.key)
      (* inserting a node object that is already a member with its own key ("register again") is a
         duplicate insert like any other: it fails and changes nothing *)
      legal == IF op.kind = "ins" THEN op.n \in Ids(s.cur) /\ (op.n \notin s.members \/ s.cur.key[op.n] = op.key)
                                  ELSE op.n \in s.members
      sc    == Scan(post, post.root, NULL)
      S1    == SetAfter(pre, s.members, op)
      v     == FastJudgeScan(pre, s.members, op, e.ret, post, e.fwd, e.bwd, sc)
      go    == ViolsOfScan(post, S1, sc) = {}     \* still a legal starting point
      model == Apply(s.cur, op)
      same  == /\ model.t = post /\ model.ret = e.ret
               /\ Forward(post) = e.fwd /\ Backward(post) = e.bwd
      dup   == IsDup(pre, s.members, op)
  IN IF ~legal
     THEN [cur |-> post, members |-> s.members, judging |-> FALSE,
           cnt |-> [s.cnt EXCEPT !.bad = @ + 1],
           msg |-> "BADOP " \o ToJson([line |-> ln])]
     ELSE IF v # {}
     THEN [cur |-> post, members |-> S1, judging |-> go,
           cnt |-> [Bump(s.cnt, dup, e.chg) EXCEPT !.viol = @ + 1],
           msg |-> "VIOL " \o ToJson([line |-> ln, sigs |-> v])]
     ELSE IF ~same
     THEN [cur |-> post, members |-> S1, judging |-> TRUE,
           cnt |-> [Bump(s.cnt, dup, e.chg) EXCEPT !.drift = @ + 1],
           msg |-> IF s.cnt.drift < 3 THEN "DRIFT " \o ToJson([line |-> ln]) ELSE ""]
     ELSE [cur |-> post, members |-> S1, judging |-> TRUE,
           cnt |-> Bump(s.cnt, dup, e.chg), msg |-> ""]

SkipLine(s, e) ==   \* after a violation: consume, keep the structure current
  [s EXCEPT !.cur = Struct(e, IF e.op = "ins" /\ e.n \in Ids(s.cur)
                              THEN SetKey(s.cur, OpOf(e)).key ELSE s.cur.key),
            !.cnt.ops = @ + 1, !.msg = ""]

Consume(s, e, ln) == IF e.op = "set" THEN SetLine(s, e, ln)
                     ELSE IF s.judging THEN OpLine(s, e, ln)
                     ELSE SkipLine(s, e)

TNext ==
  /\ l <= N
  /\ l' = l + 1
  /\ st' = Consume(st, Log[l], l)
  /\ (st'.msg # "" => PrintT(st'.msg))
  /\ (l = N => PrintT("DONE " \o ToJson([lines |-> N, cnt |-> st'.cnt])))

TSpec == TInit /\ [][TNext]_tvars
=============================================================================
