--------------------------- MODULE MC_Inotify ---------------------------
(* IvInotify composed with the MonInotify monitor: every system step feeds
   its observable event to MonStep.  INVARIANT NoViolation (+ TypeOK,
   Structure, MonType) on Variant = "code"; the deviating variants and
   TermInit = "garbage" must each violate NoViolation (driver: self-test and
   the model-level demonstration of the uninitialised this->term). *)
EXTENDS IvInotify, MonInotify

VARIABLE mon
mvars == <<p, ev, mon>>

Feed == mon' = MonStep(mon, ev')

MCInit == Init /\ mon = MonInit

(* one disjunct per system action so that -coverage reports each of them *)
MCNext ==
  \/ (InstRegister /\ Feed)
  \/ (RegOutside /\ Feed)
  \/ (UnregOutside /\ Feed)
  \/ (InstUnregOutside /\ Feed)
  \/ (ReactRegNew /\ Feed)
  \/ (ReactUnregSelf /\ Feed)
  \/ (ReactUnregOther /\ Feed)
  \/ (ReactUnregInst /\ Feed)
  \/ (ReactNothing /\ Feed)
  \/ (ApiEnd /\ Feed)
  \/ (KernelEvent /\ Feed)
  \/ (ReadBatch /\ Feed)
  \/ (Deliver /\ Feed)
  \/ (Finish /\ Feed)
  \/ (Crash /\ Feed)

MCSpec == MCInit /\ [][MCNext]_mvars

(* vacuity bookkeeping and the last event do not influence behaviour *)
MCView == <<p, [mon EXCEPT !.seen = {}]>>

NoViolation == mon.viols = {}
(* with TermInit = "garbage": the only thing that goes wrong is the wild store *)
OnlyTermViolation == mon.viols \subseteq {"C20:crash-unregister-term"}

(* the monitor's ghost state agrees with the model *)
MonType ==
  /\ p.pc # "api" => mon.inst = p.inst
  /\ (Variant = "code" /\ p.inst = "reg" /\ p.pc # "api") => mon.reg = p.set
  /\ Live => (mon.depth = (IF InHandlerCtx(p) THEN 1 ELSE 0))
  /\ (Variant = "code" /\ p.pc \in {"deliver", "handler"}) => (mon.open /\ mon.batch = p.recs)
  /\ Os(mon.reg) \cap Os(mon.dropped) = {} /\ Os(mon.reg) \cap Os(mon.unreg) = {}
=============================================================================
