#!/usr/bin/env python3
"""Checks for the loop-core properties C01-C07 and C15: model checking of the
IvCore system model against the MonCore monitors, spec-driven and random script
generation, execution on the real library under the virtual kernel on every
poll method, TLC trace validation of every execution (DESIGN 4)."""
import collections
import json
import os
import random
import sys

sys.path.insert(0, os.path.dirname(os.path.abspath(__file__)))
import vlib
import coregen
import corerun

# which generator profile and how many programs per tier
PROFILE = {
    "C01": dict(kinds=None, quick=260, thorough=1500,
                modes=["random", "random", "multiready", "multiready", "churn", "regchurn", "erronly", "timers", "tasks", "events"]),
    "C02": dict(kinds=("fd", "tk", "tm"), quick=300, thorough=2000,
                modes=["random", "multiready", "multiready", "churn", "churn", "regchurn", "regchurn", "erronly"], nfd=4),
    "C03": dict(kinds=("fd", "tk", "ev"), quick=300, thorough=2000,
                modes=["random", "multiready", "multiready", "churn", "regchurn", "regchurn", "regchurn", "erronly"], nfd=4),
    "C04": dict(kinds=("tm", "fd", "tk"), quick=300, thorough=2000,
                modes=["random", "timers", "timers", "timers", "heap", "heap", "tasks", "never"]),
    "C05": dict(kinds=("tm", "tk", "fd"), quick=300, thorough=2000, modes=["random", "timers", "timers", "heap", "heap", "heap", "never"]),
    "C06": dict(kinds=("tk", "fd", "tm", "ev"), quick=300, thorough=2000),
    "C07": dict(kinds=None, quick=260, thorough=1500,
                modes=["random", "random", "multiready", "churn", "regchurn", "timers", "timers", "tasks", "events", "heap", "never"]),
    "C15": dict(kinds=None, quick=220, thorough=1200),
}

CORE_PROPS = ("C01", "C02", "C03", "C04", "C05", "C06", "C07", "C08", "C09")


def fault_plans(rnd, method):
    """C15: one fault plan per script (DESIGN C15)."""
    waitprim = {"epoll-timerfd": "epoll_pwait2", "epoll": "epoll_pwait2", "ppoll": "ppoll", "poll": "poll"}[method]
    plans = []
    c = rnd.random()
    if c < 0.35:
        k = rnd.randint(1, 8)
        plans.append("%s %d EINTR 0" % (waitprim, k))
        if rnd.random() < 0.5:
            plans.append("%s %d EINTR 0" % (waitprim, k + rnd.randint(1, 3)))
    elif c < 0.5:
        if method.startswith("epoll"):
            plans.append("epoll_pwait2 %d %s 1" % (rnd.choice([1, 1, 2, 4]), rnd.choice(["ENOSYS", "EPERM"])))
            if rnd.random() < 0.5:
                plans.append("epoll_wait %d EINTR 0" % rnd.randint(1, 5))
        elif method == "ppoll":
            plans.append("ppoll %d ENOSYS 1" % rnd.choice([1, 1, 2, 4]))
            if rnd.random() < 0.5:
                plans.append("poll %d EINTR 0" % rnd.randint(1, 5))
    elif c < 0.6:
        plans.append("timerfd_create 1 ENOSYS 1")
    elif c < 0.7:
        plans.append("eventfd2 1 %s 1" % rnd.choice(["ENOSYS", "EINVAL"]))
        if rnd.random() < 0.5:
            plans.append("eventfd 1 ENOSYS 1")
    elif c < 0.75:
        plans.append("epoll_create1 1 ENOSYS 1")
    elif c < 0.85:
        plans.append("epoll_ctl %d EINTR 0" % rnd.randint(1, 10))
    return plans


def c07_faults(rnd, method):
    """C07: registrations that report failure."""
    c = rnd.random()
    if c < 0.3:
        # event registration fails when the raw-event transport is in use
        # (poll/ppoll); with epoll the kick descriptor creation would be fatal
        if method in ("poll", "ppoll"):
            return ["eventfd2 %d EMFILE 1" % rnd.choice([1, 1, 2])]
        return []
    if c < 0.5:
        return ["epoll_ctl %d EBADF 0" % rnd.randint(1, 6)]
    return []


def run(pid, tier, seed, replay=None):
    rep = vlib.Report(pid, tier, seed, level="fault_enumeration" if pid == "C15" else "model_checking")
    prof = PROFILE[pid]
    exe = corerun.build_core("plain")
    with vlib.Scratch("verif-" + pid) as sc:
        # ---- model checking of the system model against the monitors (in the
        # background while the real executions run)
        import coremc
        mch = coremc.start(pid, tier, sc) if not replay else None
        # ---- scripts
        if replay:
            scripts = [vlib.read(replay)]
        else:
            n = prof[tier]
            fg = fault_plans if pid == "C15" else (c07_faults if pid == "C07" else None)
            scripts = coregen.gen_scripts(seed, n, kinds=prof["kinds"], faultgen=fg, prefix=pid + "r",
                                          modes=prof.get("modes"), nfd=prof.get("nfd", 3))
            gs, gen_total, gen_all = coremc.gen_scripts(mch, pid, tier, seed, coregen.METHODS)
            scripts += gs
            if pid == "C01":
                # the other object kinds of C01: signal and child-wait interests,
                # events and raw events posted from other threads
                import random as _r
                import sigcheck
                import mtcheck
                rr = _r.Random(seed + 17)
                k = 120 if tier == "quick" else 500
                for i in range(k):
                    m = rr.choice(coregen.METHODS)
                    scripts.append(sigcheck.gen_c10(rr, "C01s%d.%d" % (seed, i), m))
                    scripts.append(sigcheck.gen_c11(rr, "C01w%d.%d" % (seed, i), m))
                    scripts.append(mtcheck.random_mt_script(rr, "C01e%d.%d" % (seed, i), "C08", m, []))
                    scripts.append(mtcheck.random_mt_script(rr, "C01r%d.%d" % (seed, i), "C09", m, []))
                for prop, scen in sorted(sigcheck.SMALL.items()):
                    for name, (opts, body) in sorted(scen.items()):
                        for j in range(6 if tier == "quick" else 60):
                            scripts.append(mtcheck.mk("C01x%d.%s.%d" % (seed, name, j), body, "epoll " + opts, det=0,
                                                      seed=rr.randint(1, 1 << 30), sticky=rr.choice([0, 1, 3])))
            if pid in ("C01", "C03"):
                import mtcheck
                scripts += mtcheck.mt_fd_scripts(pid, seed, 6 if tier == "quick" else 60)
            if pid == "C06":
                # iv_quit from a task with other tasks queued behind it: they stay registered and run when the
                # program enters the loop again
                for m in coregen.METHODS:
                    scripts.append("\n".join(["B C06q.%s method=%s seed=1 maxwait=14 keep=1" % (m, m), "O tk 1", "O tk 2", "O tk 3", "O tm 1",
                                              "S tk_reg 1", "S tk_reg 2", "S tk_reg 3", "R tk 2 0 1 quit", "P tm_reg 1 1 0 300000000",
                                              "P iv_main", "X"]) + "\n")
            if pid == "C07":
                # a quit request made while the loop is not running is stale: the next iv_main runs normally
                for m in coregen.METHODS:
                    scripts.append("\n".join(["B C07q.%s method=%s seed=1 maxwait=14" % (m, m), "O tm 1", "O tk 1", "S tm_reg 1 1 0 1000",
                                              "S tk_reg 1", "S quit", "R tm 1 0 1 validate", "X"]) + "\n")
                    scripts.append("\n".join(["B C07q2.%s method=%s seed=1 maxwait=14 cycles=2" % (m, m), "O tm 1", "O tm 2",
                                              "S tm_reg 1 1 0 1000", "S tm_reg 2 1 0 2000", "R tm 1 0 1 quit", "P quit", "X"]) + "\n")
                # a failed event registration in a threaded program, then a successful one that another
                # thread posts to ("registration calls that report failure leave the loop exactly as it was")
                import random as _r
                import mtcheck
                rr = _r.Random(seed + 29)
                for fs in (mtcheck.EV_FAULT_SCEN, mtcheck.RAW_FAULT_SCEN):
                    for name, (body, faults, methods) in sorted(fs.items()):
                        for m in methods:
                            for j in range(4 if tier == "quick" else 40):
                                scripts.append(mtcheck.mk("C07x%d.%s.%s.%d" % (seed, name, m, j), body, m, det=0,
                                                          seed=rr.randint(1, 1 << 30), faults=faults, sticky=rr.choice([0, 1, 3])))
                # ... and the TLC-generated registration programs (spec/GenEventReg.tla) that contain a failure
                gs = [x for x in mtcheck.eventreg_scripts(sc, "thorough", seed, "C07") if "\nF " in x]
                scripts += gs[seed % 4::4] if tier == "quick" else gs
        idx = corerun.script_index(scripts)
        tfs = corerun.run_scripts(exe, scripts, sc, tag="run")
        verdicts, nev = vlib.validate_traces(tfs, sc)
        if replay:
            mc = {"states": 0, "transitions": 0, "runs": [], "coverage": {}}
            gen_total, gen_all = 0, False
        else:
            mc = coremc.collect(mch)
        if len(verdicts) != len(scripts):
            raise vlib.MachineryError("%d scripts but %d verdicts" % (len(scripts), len(verdicts)))
        mine = [pid] if pid != "C15" else list(CORE_PROPS) + ["C15"]
        # clauses shared with a neighbouring property, decided by the same monitor rule
        also = ALSO.get(pid, ())
        bad = collections.OrderedDict()
        nontrivial = set()
        seen_rules = collections.Counter()
        for v in verdicts:
            for s in v["seen"]:
                if s.split(":")[0] in mine:
                    seen_rules[s] += 1
                    nontrivial.add(vlib.sha(idx[v["id"]])[:16])
            for r in v["viols"]:
                if r.split(":")[0] in mine or r in also:
                    bad.setdefault(v["id"], []).append(r)
        # confirm violating scripts (at most 12, at least one per rule) by
        # re-running them once, in one batch
        pick, rules_seen = [], set()
        for sid, rules in bad.items():
            if len(pick) < 12 or any(r not in rules_seen for r in rules):
                pick.append(sid)
                rules_seen.update(rules)
            if len(pick) >= 40:
                break
        if pick:
            tf2 = corerun.run_scripts(exe, [idx[s] for s in pick], sc, tag="confirm")
            v2, _ = vlib.validate_traces(tf2, sc)
            again = {v["id"]: set(v["viols"]) for v in v2}
            for sid in pick:
                for r in bad[sid]:
                    if r in again.get(sid, ()):
                        p = vlib.save_replay_text(pid, idx[sid])
                        rep.violation(r, p, "script %s" % sid)
        rep.add(evaluations=len(scripts), distinct_nontrivial=len(nontrivial),
                traces_validated_against_impl=len(verdicts), trace_events=nev,
                states=mc["states"] + nev + len(tfs), transitions=mc["transitions"] + nev,
                rule="programs = seeded random API programs (x4 poll methods%s) plus TLC-generated ones; "
                     "non-trivial = distinct program in which at least one monitor rule of this property "
                     "had its antecedent satisfied" % (", with fault plans" if pid in ("C15", "C07") else ""),
                rules_exercised=dict(seen_rules), ends=dict(collections.Counter(v["why"] for v in verdicts)),
                model_checks=mc["runs"], spec_generated_programs=gen_total,
                spec_generated_all_executed=gen_all, exhaustive=False)
        if scripts:
            rep.sample({"script": scripts[0].splitlines()[:25]})
        if verdicts:
            rep.sample({"verdict": {k: verdicts[0][k] for k in ("id", "why", "viols")}})
        if pid == "C01" and not replay:
            # the inotify objects of C01
            import check_c20
            check_c20.run_subset(tier, seed, sc, rep)
        if pid == "C15" and not replay:
            # the pipe fallback of iv_event_raw (eventfd missing) under bursts, and splice missing
            import mtcheck
            import random as _r
            rr = _r.Random(seed + 41)
            extra = []
            for name in ("burst", "burst-owner", "in-handler"):
                body = mtcheck.raw_scenarios()[name]
                for mode in ("pipe", "efd"):
                    for m in ("epoll", "poll"):
                        for j in range(2 if tier == "quick" else 20):
                            extra.append(mtcheck.mk("C15p.%s.%s.%s.%d" % (name, mode, m, j), body, m, det=0,
                                                    seed=rr.randint(1, 1 << 30), faults=mtcheck.RAW_MODES[mode]))
            tf3 = corerun.run_scripts(exe, extra, sc, tag="rawfb")
            v3, nev3 = vlib.validate_traces(tf3, sc)
            i3 = corerun.script_index(extra)
            for v in v3:
                for r in sorted(set(v["viols"])):
                    if r.split(":")[0] in ("C09", "C07") or r.endswith(":crash"):
                        rep.violation("C15:fallback-eventfd/" + r, vlib.save_replay_text(pid, i3[v["id"]]), "script %s" % v["id"])
            rep.add(raw_fallback_scripts=len(extra), raw_fallback_events=nev3)
            # splice missing: the read/write fallback of iv_fd_pump
            import check_c17
            check_c17.run_fallback(tier, seed, sc, rep)
        if pid in ("C04", "C07") and not replay:
            # "never oversleeps / fires exactly once" presupposes an intact timer store: the
            # lock-step and order runs of the store itself (shared with C05)
            import check_c05heap
            check_c05heap.run_heap("quick", seed, sc, rep)
        if pid == "C05" and not replay:
            # the timer store itself: IvTimerHeap model, lock-step and scale runs
            import check_c05heap
            check_c05heap.run_heap(tier, seed, sc, rep)
        vac = [r for r in RULES.get(pid, []) if seen_rules[r] == 0]
        if vac and not replay and not rep.viol:
            raise vlib.MachineryError("vacuous run: rules never exercised: %s" % vac)
    rep.assumptions += [
        "virtual kernel (harness/simk.c) over real descriptors: readiness is measured with poll(2), time is virtual",
        "callbacks are observed through trampolines; object memory is poisoned at unregister and re-checked (writes only)",
        "TLC evaluates spec/MonCore.tla on every event of every recorded execution"]
    return rep.finish()


# C05 "registering or unregistering any timer never changes whether or when any other timer fires":
# the "when" is decided by the timing rules of C04 on the (multi-timer) programs of the C05 profile
# C07 "failed registrations leave the loop exactly as it was": what a failed registration must not
# disturb includes the delivery of later posts (rules of C08 / C09 on the programs of the C07 profile)
# C07 "it blocks in the kernel only when nothing is due, and every wake-up makes progress": blocking with a
# descriptor ready, a timer due or a task queued is decided by the rules of C02 / C04 / C06 on C07's programs
# C06 "tasks that keep re-registering do not prevent ... timers ... from being serviced": timer rules of C04
ALSO = {"C05": ("C04:oversleep", "C04:early", "C04:starved"), "C06": ("C04:starved", "C04:oversleep"),
        "C07": ("C08:lost", "C09:lost", "C04:oversleep", "C04:starved", "C06:nonzero-timeout", "C06:sleep-with-task",
                "C02:sleep-on-ready")}

# rules whose antecedent must have held at least once in a (non-replay) run
RULES = {
    "C01": ["C01:cb-after-unreg", "C01:oneshot-still-registered"],
    "C02": ["C02:sleep-on-ready", "C02:due-not-dispatched", "C02:not-reported"],
    "C03": ["C03:not-ready", "C03:stale-handler", "C03:wrong-cookie", "C03:twice"],
    "C04": ["C04:early", "C04:twice", "C04:oversleep", "C04:starved"],
    "C05": ["C05:order"],
    "C06": ["C06:twice", "C06:registered-at-entry", "C06:starve", "C06:nonzero-timeout", "C06:sleep-with-task"],
    "C07": ["C07:return-with-objs", "C07:poll-without-objs", "C07:cb-outside-main", "C07:nested"],
    "C15": ["C15:fault", "C15:method-selection"],
}


def run_model_checks(pid, tier, sc, rep):
    """TLC on the IvCore system model composed with the monitors."""
    try:
        import coremc
    except ImportError:
        return {"states": 0, "transitions": 0, "runs": []}
    return coremc.run(pid, tier, sc, rep)


def gen_from_spec(pid, tier, seed, sc, rep):
    try:
        import coremc
    except ImportError:
        return []
    return coremc.gen(pid, tier, seed, sc, rep)
