SPECIFICATION GSpec
CONSTANTS
  BufSize = 4
  MaxStream = 4
  MaxCached = 2
  Modes = {"rw", "sp"}
  Relays = {0, 1}
  MaxCalls = 3
  MaxIntr = 0
  MaxAgain = 2
INVARIANT Emit
CHECK_DEADLOCK FALSE
