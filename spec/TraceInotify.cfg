SPECIFICATION TSpec
CONSTANTS
  MaxWd = 1000000
  MaxObj = 1000000
  MaxBatch = 1000000
  MaxReads = 1000000
  MaxLen = 16
  Aliases = {0}
  TermInit = "null"
  Variant = "code"
CHECK_DEADLOCK FALSE
