--------------------------- MODULE IvWork ---------------------------
(* System model of iv_work (src/iv_work.c) with the thread life cycle of
   iv_thread (src/iv_thread_posix.c) as far as the pool needs it.

   Cross-thread events (pool->ev, pool->thread_needed, thr->kick, thr->dead)
   are the iv_event primitive abstracted to its contract, which is property
   C08's obligation and is model-checked separately in IvEvent.tla:
     post  => the flag is set;  the owner of the event eventually runs the
     handler once for one or more posts (the flag is consumed at handler entry).

   One action per critical section of the code (pool lock = `lock`):
     Submit (owner) / SubmitCont (from a work function):
        lock; tail++; append; idle thread ? (kicked := 1; post its kick)
        : started < max ? (owner: start thread | other: post thread_needed); unlock
     worker W0: iv_init, register kick, start hook, post own kick
     worker kick handler (iv_work_thread_got_event):
        G1 lock; kicked := 0; leave idle list (+ idle timer off); last := tail
        G3 [locked] while last - head > 0: head++; pop item; unlock
        G4 work(item)
        G5 lock; done list empty ? post pool event; append to done; goto G3
        G6 [locked] head = tail ? (shutting ? die : go idle + arm 10 s timer)
                                : post own kick (more work arrived);  unlock
     idle timeout (iv_work_thread_idle_timeout), the 10 s timer as an
        environment-enabled step:  T1 lock; kicked ? re-arm : leave idle list, die; unlock
     die (__iv_work_thread_die) [locked]: unregister kick, started--, stop hook,
        shutting /\ started = 0 ? post pool event
     then the worker's loop has nothing registered: iv_main returns, iv_deinit,
        thread exit => destructor posts `dead` to the creator => creator joins
     owner, pool event (iv_work_event): E1 lock; steal done list; unlock;
        E2 completions (each may submit again or put the pool);
        E3 shutting ? lock; started = 0 /\ done empty ? unlock, destroy, unregister
           both pool events, free : unlock
     owner, thread_needed: N1 lock; no idle thread /\ started < max ? start; unlock
     Put: lock; shutting := 1; started = 0 ? (unlock; post pool event)
          : (kick every idle thread; unlock) *)
EXTENDS Naturals, Sequences, FiniteSets, TLC

CONSTANTS Workers,     \* worker thread ids available (|Workers| >= MaxThreads)
          MaxThreads,
          Items,       \* work item ids
          ContItems,   \* subset of Items submitted as continuations from work functions
          LateItems,   \* subset of Items submitted from completions
          StartMayFail \* BOOLEAN: iv_thread_create may fail (the code ignores the error)

Owner == "owner"
NoItem == "none"
InitialItems == Items \ (ContItems \cup LateItems)

VARIABLES
  lock, shutting, started, head, tail, items, done, idle,
  kicked, wst, timer, wpc, wlast, wcur,
  evPool, evNeeded, evKick, evDead, joined,
  opc, olocal, ocur, tosubmit, putReq, putDone, freed,
  workN, compN, running, workDone, hookStart, hookStop

vars == <<lock, shutting, started, head, tail, items, done, idle, kicked, wst, timer, wpc, wlast, wcur,
          evPool, evNeeded, evKick, evDead, joined, opc, olocal, ocur, tosubmit, putReq, putDone, freed,
          workN, compN, running, workDone, hookStart, hookStop>>

Init ==
  /\ lock = "free" /\ shutting = FALSE /\ started = 0 /\ head = 0 /\ tail = 0
  /\ items = <<>> /\ done = <<>> /\ idle = <<>>
  /\ kicked = [w \in Workers |-> FALSE]
  /\ wst = [w \in Workers |-> "none"]      \* none | starting | loop | handler | exiting | exited
  /\ timer = [w \in Workers |-> FALSE]
  /\ wpc = [w \in Workers |-> "-"] /\ wlast = [w \in Workers |-> 0] /\ wcur = [w \in Workers |-> NoItem]
  /\ evPool = FALSE /\ evNeeded = FALSE /\ evKick = [w \in Workers |-> FALSE]
  /\ evDead = [w \in Workers |-> FALSE] /\ joined = [w \in Workers |-> FALSE]
  /\ opc = "idle" /\ olocal = <<>> /\ ocur = NoItem
  /\ tosubmit = Items /\ putReq = FALSE /\ putDone = FALSE /\ freed = FALSE
  /\ workN = [i \in Items |-> 0] /\ compN = [i \in Items |-> 0] /\ running = {} /\ workDone = {}
  /\ hookStart = [w \in Workers |-> 0] /\ hookStop = [w \in Workers |-> 0]

RemoveW(s, w) == SelectSeq(s, LAMBDA x : x # w)
InIdle(w) == \E k \in 1..Len(idle) : idle[k] = w
FreeWorker == CHOOSE w \in Workers : wst[w] = "none"
CanStart == \E w \in Workers : wst[w] = "none"

(* iv_work_start_thread fails (malloc or iv_thread_create): nothing changes, the
   error is dropped.  With no worker at all the item then waits for the next
   submission -- the code's behaviour, outside C12/C13 -- so the model lets a
   creation fail only while another worker exists to pick the item up. *)
StartFails ==
  /\ StartMayFail /\ started >= 1
  /\ UNCHANGED <<started, wst, wpc, kicked, evKick, evNeeded>>

(* the body of iv_work_submit_pool under the lock; by = Owner or a worker *)
SubmitEffect(i, by) ==
  /\ tail' = tail + 1 /\ items' = Append(items, i)
  /\ IF idle # <<>>
     THEN /\ kicked' = [kicked EXCEPT ![Head(idle)] = TRUE]
          /\ evKick' = [evKick EXCEPT ![Head(idle)] = TRUE]
          /\ UNCHANGED <<started, wst, wpc, evNeeded>>
     ELSE IF started < MaxThreads
          THEN IF by = Owner
               THEN \/ /\ started' = started + 1
                       /\ wst' = [wst EXCEPT ![FreeWorker] = "starting"]
                       /\ wpc' = [wpc EXCEPT ![FreeWorker] = "W0"]
                       /\ UNCHANGED <<kicked, evKick, evNeeded>>
                    \/ StartFails
               ELSE /\ evNeeded' = TRUE /\ UNCHANGED <<kicked, evKick, started, wst, wpc>>
          ELSE UNCHANGED <<kicked, evKick, started, wst, wpc, evNeeded>>

-----------------------------------------------------------------------------
(* owner: submissions outside handlers (set-up phase) and Put *)
OSubmit(i) ==
  /\ opc = "idle" /\ i \in tosubmit /\ i \in InitialItems /\ ~shutting /\ lock = "free"
  /\ CanStart \/ started >= MaxThreads \/ idle # <<>>
  /\ SubmitEffect(i, Owner)
  /\ tosubmit' = tosubmit \ {i}
  /\ UNCHANGED <<lock, shutting, head, done, idle, timer, wlast, wcur, evPool, evDead, joined, opc, olocal, ocur,
                 putReq, putDone, freed, workN, compN, running, workDone, hookStart, hookStop>>

PutEffect ==
  /\ shutting' = TRUE /\ putDone' = TRUE
  /\ IF started = 0 THEN evPool' = TRUE /\ UNCHANGED evKick
     ELSE evKick' = [w \in Workers |-> evKick[w] \/ InIdle(w)] /\ UNCHANGED evPool

OPut ==      \* iv_work_pool_put from the owner, any time after set-up
  /\ opc = "idle" /\ ~putDone /\ (tosubmit \cap InitialItems) = {} /\ lock = "free"
  /\ PutEffect
  /\ UNCHANGED <<lock, started, head, tail, items, done, idle, kicked, wst, timer, wpc, wlast, wcur, evNeeded,
                 evDead, joined, opc, olocal, ocur, tosubmit, putReq, freed, workN, compN, running, workDone, hookStart, hookStop>>

-----------------------------------------------------------------------------
(* worker thread *)
W0(w) ==     \* thread start-up until iv_main: register kick, start hook, post kick
  /\ wst[w] = "starting"
  /\ wst' = [wst EXCEPT ![w] = "loop"] /\ wpc' = [wpc EXCEPT ![w] = "-"]
  /\ hookStart' = [hookStart EXCEPT ![w] = @ + 1]
  /\ evKick' = [evKick EXCEPT ![w] = TRUE]
  /\ UNCHANGED <<lock, shutting, started, head, tail, items, done, idle, kicked, timer, wlast, wcur, evPool, evNeeded,
                 evDead, joined, opc, olocal, ocur, tosubmit, putReq, putDone, freed, workN, compN, running, workDone, hookStop>>

G1(w) ==     \* kick handler entry
  /\ wst[w] = "loop" /\ evKick[w] /\ lock = "free"
  /\ evKick' = [evKick EXCEPT ![w] = FALSE]
  /\ lock' = w /\ wst' = [wst EXCEPT ![w] = "handler"] /\ wpc' = [wpc EXCEPT ![w] = "G3"]
  /\ kicked' = [kicked EXCEPT ![w] = FALSE]
  /\ idle' = RemoveW(idle, w) /\ timer' = [timer EXCEPT ![w] = IF InIdle(w) THEN FALSE ELSE @]
  /\ wlast' = [wlast EXCEPT ![w] = tail]
  /\ UNCHANGED <<shutting, started, head, tail, items, done, wcur, evPool, evNeeded, evDead, joined, opc, olocal, ocur,
                 tosubmit, putReq, putDone, freed, workN, compN, running, workDone, hookStart, hookStop>>

DieEffect(w) ==   \* __iv_work_thread_die, lock held
  /\ started' = started - 1
  /\ hookStop' = [hookStop EXCEPT ![w] = @ + 1]
  /\ evPool' = (evPool \/ (shutting /\ started - 1 = 0))
  /\ wst' = [wst EXCEPT ![w] = "exiting"] /\ wpc' = [wpc EXCEPT ![w] = "-"]

G3(w) ==     \* locked: more work for me?
  /\ wst[w] = "handler" /\ wpc[w] = "G3" /\ lock = w
  /\ IF wlast[w] > head
     THEN /\ head' = head + 1 /\ wcur' = [wcur EXCEPT ![w] = Head(items)] /\ items' = Tail(items)
          /\ lock' = "free" /\ wpc' = [wpc EXCEPT ![w] = "G4"]
          /\ UNCHANGED <<idle, timer, evKick, started, hookStop, evPool, wst>>
     ELSE /\ IF head = tail
             THEN IF ~shutting
                  THEN /\ idle' = <<w>> \o idle /\ timer' = [timer EXCEPT ![w] = TRUE]
                       /\ wst' = [wst EXCEPT ![w] = "loop"] /\ wpc' = [wpc EXCEPT ![w] = "-"]
                       /\ UNCHANGED <<evKick, started, hookStop, evPool>>
                  ELSE DieEffect(w) /\ UNCHANGED <<idle, timer, evKick>>
             ELSE /\ evKick' = [evKick EXCEPT ![w] = TRUE]
                  /\ wst' = [wst EXCEPT ![w] = "loop"] /\ wpc' = [wpc EXCEPT ![w] = "-"]
                  /\ UNCHANGED <<idle, timer, started, hookStop, evPool>>
          /\ lock' = "free" /\ UNCHANGED <<head, wcur, items>>
  /\ UNCHANGED <<shutting, tail, done, kicked, wlast, evNeeded, evDead, joined, opc, olocal, ocur, tosubmit,
                 putReq, putDone, freed, workN, compN, running, workDone, hookStart>>

G4(w) ==     \* the work function runs (outside the lock)
  /\ wst[w] = "handler" /\ wpc[w] = "G4"
  /\ workN' = [workN EXCEPT ![wcur[w]] = @ + 1] /\ running' = running \cup {wcur[w]}
  /\ wpc' = [wpc EXCEPT ![w] = "G4c"]
  /\ UNCHANGED <<lock, shutting, started, head, tail, items, done, idle, kicked, wst, timer, wlast, wcur, evPool, evNeeded,
                 evKick, evDead, joined, opc, olocal, ocur, tosubmit, putReq, putDone, freed, compN, workDone, hookStart, hookStop>>

G4cont(w, i) ==   \* a continuation submitted from inside the work function
  /\ wst[w] = "handler" /\ wpc[w] = "G4c" /\ i \in tosubmit /\ i \in ContItems /\ lock = "free" /\ ~freed
  /\ SubmitEffect(i, w)
  /\ tosubmit' = tosubmit \ {i}
  /\ UNCHANGED <<lock, shutting, head, done, idle, timer, wlast, wcur, evPool, evDead, joined, opc, olocal, ocur,
                 putReq, putDone, freed, workN, compN, running, workDone, hookStart, hookStop>>

G4ret(w) ==  \* work function returns
  /\ wst[w] = "handler" /\ wpc[w] = "G4c"
  /\ running' = running \ {wcur[w]} /\ workDone' = workDone \cup {wcur[w]}
  /\ wpc' = [wpc EXCEPT ![w] = "G5"]
  /\ UNCHANGED <<lock, shutting, started, head, tail, items, done, idle, kicked, wst, timer, wlast, wcur, evPool, evNeeded,
                 evKick, evDead, joined, opc, olocal, ocur, tosubmit, putReq, putDone, freed, workN, compN, hookStart, hookStop>>

G5(w) ==     \* re-take the lock, queue the completion
  /\ wst[w] = "handler" /\ wpc[w] = "G5" /\ lock = "free"
  /\ lock' = w
  /\ evPool' = (evPool \/ done = <<>>)
  /\ done' = Append(done, wcur[w]) /\ wcur' = [wcur EXCEPT ![w] = NoItem]
  /\ wpc' = [wpc EXCEPT ![w] = "G3"]
  /\ UNCHANGED <<shutting, started, head, tail, items, idle, kicked, wst, timer, wlast, evNeeded, evKick, evDead, joined,
                 opc, olocal, ocur, tosubmit, putReq, putDone, freed, workN, compN, running, workDone, hookStart, hookStop>>

T1(w) ==     \* the 10 s idle timer fires (virtual time passes)
  /\ wst[w] = "loop" /\ timer[w] /\ lock = "free"
  /\ IF kicked[w]
     THEN UNCHANGED <<idle, timer, started, hookStop, evPool, wst, wpc>>
     ELSE /\ idle' = RemoveW(idle, w) /\ timer' = [timer EXCEPT ![w] = FALSE]
          /\ DieEffect(w)
  /\ UNCHANGED <<lock, shutting, head, tail, items, done, kicked, wlast, wcur, evNeeded, evKick, evDead, joined, opc, olocal, ocur,
                 tosubmit, putReq, putDone, freed, workN, compN, running, workDone, hookStart>>

WExit(w) ==  \* loop empty: iv_main returns, iv_deinit, thread exit, destructor posts `dead`
  /\ wst[w] = "exiting"
  /\ wst' = [wst EXCEPT ![w] = "exited"] /\ evDead' = [evDead EXCEPT ![w] = TRUE]
  /\ evKick' = [evKick EXCEPT ![w] = FALSE]
  /\ UNCHANGED <<lock, shutting, started, head, tail, items, done, idle, kicked, timer, wpc, wlast, wcur, evPool, evNeeded,
                 joined, opc, olocal, ocur, tosubmit, putReq, putDone, freed, workN, compN, running, workDone, hookStart, hookStop>>

-----------------------------------------------------------------------------
(* owner event handlers *)
OJoin(w) ==  \* iv_thread_died: pthread_join
  /\ opc = "idle" /\ evDead[w]
  /\ evDead' = [evDead EXCEPT ![w] = FALSE] /\ joined' = [joined EXCEPT ![w] = TRUE]
  /\ UNCHANGED <<lock, shutting, started, head, tail, items, done, idle, kicked, wst, timer, wpc, wlast, wcur, evPool, evNeeded,
                 evKick, opc, olocal, ocur, tosubmit, putReq, putDone, freed, workN, compN, running, workDone, hookStart, hookStop>>

N1 ==        \* iv_work_thread_needed
  /\ opc = "idle" /\ evNeeded /\ lock = "free" /\ ~freed
  /\ evNeeded' = FALSE
  /\ IF idle = <<>> /\ started < MaxThreads /\ CanStart
     THEN \/ /\ started' = started + 1 /\ wst' = [wst EXCEPT ![FreeWorker] = "starting"]
             /\ wpc' = [wpc EXCEPT ![FreeWorker] = "W0"]
          \/ (StartMayFail /\ started >= 1 /\ UNCHANGED <<started, wst, wpc>>)
     ELSE UNCHANGED <<started, wst, wpc>>
  /\ UNCHANGED <<lock, shutting, head, tail, items, done, idle, kicked, timer, wlast, wcur, evPool, evKick, evDead, joined,
                 opc, olocal, ocur, tosubmit, putReq, putDone, freed, workN, compN, running, workDone, hookStart, hookStop>>

E1 ==        \* iv_work_event: steal the done list
  /\ opc = "idle" /\ evPool /\ lock = "free" /\ ~freed
  /\ evPool' = FALSE /\ olocal' = done /\ done' = <<>> /\ opc' = "E2"
  /\ UNCHANGED <<lock, shutting, started, head, tail, items, idle, kicked, wst, timer, wpc, wlast, wcur, evNeeded, evKick, evDead,
                 joined, ocur, tosubmit, putReq, putDone, freed, workN, compN, running, workDone, hookStart, hookStop>>

E2 ==        \* next completion
  /\ opc = "E2"
  /\ IF olocal = <<>> THEN opc' = "E3" /\ UNCHANGED <<olocal, ocur, compN>>
     ELSE /\ ocur' = Head(olocal) /\ olocal' = Tail(olocal) /\ compN' = [compN EXCEPT ![Head(olocal)] = @ + 1]
          /\ opc' = "E2c"
  /\ UNCHANGED <<lock, shutting, started, head, tail, items, done, idle, kicked, wst, timer, wpc, wlast, wcur, evPool, evNeeded,
                 evKick, evDead, joined, tosubmit, putReq, putDone, freed, workN, running, workDone, hookStart, hookStop>>

E2submit(i) ==   \* the completion submits another item
  /\ opc = "E2c" /\ i \in tosubmit /\ i \in LateItems /\ ~shutting /\ lock = "free"
  /\ CanStart \/ started >= MaxThreads \/ idle # <<>>
  /\ SubmitEffect(i, Owner) /\ tosubmit' = tosubmit \ {i}
  /\ UNCHANGED <<lock, shutting, head, done, idle, timer, wlast, wcur, evPool, evDead, joined, opc, olocal, ocur,
                 putReq, putDone, freed, workN, compN, running, workDone, hookStart, hookStop>>

E2put ==     \* the completion puts the pool
  /\ opc = "E2c" /\ ~putDone /\ (tosubmit \cap (InitialItems \cup LateItems)) = {} /\ lock = "free"
  /\ PutEffect
  /\ UNCHANGED <<lock, started, head, tail, items, done, idle, kicked, wst, timer, wpc, wlast, wcur, evNeeded,
                 evDead, joined, opc, olocal, ocur, tosubmit, putReq, freed, workN, compN, running, workDone, hookStart, hookStop>>

E2ret ==
  /\ opc = "E2c" /\ opc' = "E2" /\ ocur' = NoItem
  /\ UNCHANGED <<lock, shutting, started, head, tail, items, done, idle, kicked, wst, timer, wpc, wlast, wcur, evPool, evNeeded,
                 evKick, evDead, joined, olocal, tosubmit, putReq, putDone, freed, workN, compN, running, workDone, hookStart, hookStop>>

E3 ==        \* shutdown check
  /\ opc = "E3" /\ lock = "free"
  /\ freed' = (shutting /\ started = 0 /\ done = <<>>)
  /\ opc' = "idle"
  /\ UNCHANGED <<lock, shutting, started, head, tail, items, done, idle, kicked, wst, timer, wpc, wlast, wcur, evPool, evNeeded,
                 evKick, evDead, joined, olocal, ocur, tosubmit, putReq, putDone, workN, compN, running, workDone, hookStart, hookStop>>

Next ==
  \/ \E i \in Items : OSubmit(i) \/ E2submit(i)
  \/ OPut \/ N1 \/ E1 \/ E2 \/ E2put \/ E2ret \/ E3
  \/ \E w \in Workers : W0(w) \/ G1(w) \/ G3(w) \/ G4(w) \/ G4ret(w) \/ G5(w) \/ T1(w) \/ WExit(w) \/ OJoin(w)
                        \/ \E i \in Items : G4cont(w, i)

Spec == Init /\ [][Next]_vars

(* fairness: threads keep running, handlers of posted events eventually run;
   the idle timer (T1) and Put are environment steps; Put must eventually come
   for the pool to be released *)
Prog ==
  \/ N1 \/ E1 \/ E2 \/ E2ret \/ E3
  \/ \E w \in Workers : W0(w) \/ G1(w) \/ G3(w) \/ G4(w) \/ G4ret(w) \/ G5(w) \/ WExit(w) \/ OJoin(w)
FairSpec == Spec /\ WF_vars(Prog) /\ WF_vars(OPut \/ E2put)
                 /\ \A i \in Items : WF_vars(OSubmit(i) \/ E2submit(i) \/ \E w \in Workers : G4cont(w, i))
                 /\ \A w \in Workers : WF_vars(T1(w))

-----------------------------------------------------------------------------
Submitted == Items \ tosubmit
TypeOK == started \in 0..MaxThreads /\ head <= tail /\ tail - head = Len(items)

(* C12 *)
WorkOnce == \A i \in Items : workN[i] <= 1
CompOnce == \A i \in Items : compN[i] <= 1
CompAfterWork == \A i \in Items : compN[i] = 1 => i \in workDone
MaxRunning == Cardinality(running) <= MaxThreads
StartedCount == started = Cardinality({w \in Workers : wst[w] \in {"starting", "loop", "handler"}})
(* an item is never stranded: if work is queued, someone will look at it *)
NoStrandedWork ==
  (items # <<>> /\ lock = "free" /\ opc = "idle") =>
     \/ \E w \in Workers : wst[w] \in {"starting", "handler"} \/ (wst[w] = "loop" /\ evKick[w])
     \/ evNeeded
(* C13 *)
HooksPaired == \A w \in Workers : hookStop[w] <= hookStart[w] /\ hookStart[w] <= 1
FreedOnlyWhenDone == freed => (started = 0 /\ done = <<>> /\ olocal = <<>> /\ \A i \in Submitted : compN[i] = 1)
NoSubmitLost == freed => items = <<>>

AllComplete == \A i \in Items : (i \notin tosubmit) ~> (compN[i] = 1)
Released == <>(freed /\ \A w \in Workers : wst[w] = "none" \/ joined[w])
=============================================================================
