SPECIFICATION Spec
CONSTANTS
  Posters = {p1, p2}
  SharedEv = {e1, e2}
  LocalEv = {e3}
  Transport = "kick"
  PostBudget = 2
  OwnerBudget = 2
INVARIANTS TypeOK NoDup UnregNotQueued NoOverDelivery NoLostWakeup PendingImpliesWake
CHECK_DEADLOCK FALSE
