--------------------------- MODULE TraceTimerHeap ---------------------------
(* Trace validation for the timer store (property C05), two kinds of trace
   recorded from the real library by harness/ivh_theap.c (IOEnv.TRACE, ndjson,
   one state per consumed line; executions are separated by Reset records; all
   executions of one file have the same mode and the same id range):

   mode "mon"  - only observable events: Reg(id, x) / Unreg(id) / RB(T) (a
     dispatch round begins at virtual time T) / Fire(id) (handler entry) / RE
     (round over) / Fatal / End(why).  The monitor keeps, per timer id, its
     expiry and the epoch of its registration in fixed-domain functions and
     decides the property:
       C05:phantom  a handler ran for a timer that is not registered
       C04:twice    a handler ran twice for one registration
       C04:early    a handler ran for a timer whose expiry is after T
       C05:order    a handler ran (or the round ended) while a timer with a
                    strictly earlier expiry, registered before the round
                    began, was still waiting: fires of such timers within a
                    round are in non-decreasing expiry order, and one that is
                    unregistered inside the round was not overtaken
       C05:missed   at the end of a round a timer registered before the round
                    with expiry <= T has neither fired nor been unregistered
       C05:independent  umbrella for phantom/missed: registering or
                    unregistering other timers changed whether this one fires
       C05:fatal    iv_fatal(), a crash or a hang
   mode "lock" - additionally every event carries the projection of the real
     store (n, d, sl = ids in slot order, ix = index field of every timer,
     st = non-NULL slots beyond n).  Two things are done with it:
       (1) the real structure must itself satisfy heap order, back-index =
           slot, no stale slot, stored set = registered set: else C05:heap;
       (2) LOCK-STEP: the IvTimerHeap model (SplitBits = 7) is run on the
           same operation and must produce exactly the logged projection.  A
           mismatch while (1) holds is DRIFT - reported, never a violation. *)
EXTENDS IvTimerHeap, Json, IOUtils

VARIABLES l, st, sid
tvars == <<l, st, sid>>

Log == ndJsonDeserialize(IOEnv.TRACE)
N == Len(Log)
LockMode == Log[1].mode = "lock"
(* the id range of the file: all executions of one file use the same range,
   which TNext asserts at every Reset.  (Keep this a cheap expression: TLC
   re-evaluates it at every use.) *)
MaxId == Log[1].maxid
Ids == 1..MaxId
TraceTimers == IF LockMode THEN Ids ELSE {1}

Idle == -1
Fired == -2

MonInit ==
  [ ex |-> [i \in Ids |-> Idle],     \* >= 0: registered with this expiry
    sq |-> [i \in Ids |-> 0],        \* epoch of the registration
    ep |-> 0,                        \* odd while a round is running
    T |-> 0, lastX |-> -1,
    nreg |-> 0, ops |-> 0, fires |-> 0,
    viols |-> {}, seen |-> {} ]

V(m, rule) == [m EXCEPT !.viols = @ \cup {rule}]
S(m, rule) == [m EXCEPT !.seen = @ \cup {rule}]
Chk(m, ante, ok, rule) ==
  IF ante THEN (IF ok THEN S(m, rule) ELSE V(S(m, rule), rule)) ELSE m

InRound(m) == m.ep % 2 = 1
Pre(m, id) == m.sq[id] < m.ep
Max2(a, b) == IF a < b THEN b ELSE a

MReg(m, e) ==
  LET m1 == IF m.nreg > 0 THEN S(m, "C05:independent") ELSE m
  IN [m1 EXCEPT !.ex[e.id] = e.x, !.sq[e.id] = m.ep, !.nreg = @ + 1, !.ops = @ + 1]

MUnreg(m, e) ==
  LET x  == m.ex[e.id]
      m1 == IF m.nreg > 1 THEN S(m, "C05:independent") ELSE m
      m2 == Chk(m1, InRound(m) /\ x >= 0 /\ Pre(m, e.id) /\ x <= m.T, x >= m.lastX, "C05:order")
  IN IF x < 0 THEN m ELSE [m2 EXCEPT !.ex[e.id] = Idle, !.nreg = @ - 1, !.ops = @ + 1]

MFire(m, e) ==
  LET x  == m.ex[e.id]
      m0 == S(S([m EXCEPT !.fires = @ + 1], "C05:phantom"), "C04:twice")
  IN IF x = Fired THEN V(m0, "C04:twice")
     ELSE IF x = Idle \/ ~InRound(m) THEN V(V(m0, "C05:phantom"), "C05:independent")
     ELSE LET pre == Pre(m, e.id)
              m1  == Chk(m0, TRUE, x <= m.T, "C04:early")
              m2  == Chk(m1, pre /\ m.lastX >= 0, x >= m.lastX, "C05:order")
          IN [m2 EXCEPT !.ex[e.id] = Fired, !.nreg = @ - 1,
                        !.lastX = IF pre THEN Max2(@, x) ELSE @]

MRB(m, e) == [m EXCEPT !.ep = @ + 1, !.T = e.T, !.lastX = -1]

MRE(m, e) ==
  LET missed == \E id \in Ids : m.ex[id] >= 0 /\ m.sq[id] < m.ep /\ m.ex[id] <= m.T
      m1 == Chk(m, TRUE, ~missed, "C05:missed")
      m2 == IF missed THEN V(m1, "C05:independent") ELSE m1
  IN [m2 EXCEPT !.ep = @ + 1]

MonStep(m, e) ==
  CASE e.e = "Reg"   -> MReg(m, e)
    [] e.e = "Unreg" -> MUnreg(m, e)
    [] e.e = "Fire"  -> MFire(m, e)
    [] e.e = "RB"    -> MRB(m, e)
    [] e.e = "RE"    -> MRE(m, e)
    [] e.e = "Fatal" -> V(m, "C05:fatal")
    [] e.e = "End"   -> Chk(m, TRUE, e.why = "ok", "C05:fatal")
    [] OTHER         -> m

-----------------------------------------------------------------------------
(* (1) invariants of the REAL structure, from the logged projection; m is the
   monitor state after the event *)
HasProj(e) == e.e \in {"Reg", "Unreg", "Fire", "RE"}

RealOK(m, e) ==
  IF ~(e.n = Len(e.sl) /\ e.st = 0 /\ Len(e.ix) = MaxId /\ \A i \in 1..e.n : e.sl[i] \in Ids)
  THEN FALSE
  ELSE /\ \A i \in 1..e.n : e.ix[e.sl[i]] = i /\ m.ex[e.sl[i]] >= 0              \* back-index, registered
       /\ \A id \in Ids :
            /\ e.ix[id] >= 1 => (e.ix[id] <= e.n /\ e.sl[e.ix[id]] = id)
            /\ (e.ix[id] = -1) <=> (m.ex[id] < 0)
            /\ e.ix[id] = 0 => (InRound(m) /\ m.sq[id] < m.ep /\ m.ex[id] <= m.T)  \* on the expired list
            /\ e.ix[id] >= -1
       /\ \A i \in 2..e.n : m.ex[e.sl[i \div 2]] <= m.ex[e.sl[i]]                   \* heap order

(* (2) lock-step with the model *)
HpInit == [h |-> Init0, q |-> <<>>, sync |-> LockMode, dl |-> 0, steps |-> 0]

Without(q, id) == SelectSeq(q, LAMBDA t : t # id)

Agrees(h, e) == h.n = e.n /\ h.depth = e.d /\ SlotSeq(h) = e.sl /\ h.ix = e.ix

Cmp(p, e, ln) == IF Agrees(p.h, e) THEN [p EXCEPT !.steps = @ + 1]
                 ELSE [p EXCEPT !.sync = FALSE, !.dl = ln]
Lost(p, ln) == IF p.sync THEN [p EXCEPT !.sync = FALSE, !.dl = ln] ELSE p

LStep(p, e, ln) ==
  IF ~p.sync THEN p
  ELSE CASE e.e = "Reg" ->
              IF p.h.ix[e.id] = -1 THEN Cmp([p EXCEPT !.h = Register(p.h, e.id, e.x)], e, ln)
              ELSE Lost(p, ln)
         [] e.e = "Unreg" ->
              IF p.h.ix[e.id] # -1
              THEN Cmp([p EXCEPT !.h = Unregister(p.h, e.id), !.q = Without(@, e.id)], e, ln)
              ELSE Lost(p, ln)
         [] e.e = "RB" ->
              LET r == RunTimers(p.h, e.T, <<>>) IN [p EXCEPT !.h = r.h, !.q = r.q]
         [] e.e = "Fire" ->
              IF p.q # <<>> /\ Head(p.q) = e.id
              THEN Cmp([p EXCEPT !.h = HandlerEntry(p.h, e.id), !.q = Tail(@)], e, ln)
              ELSE Lost(p, ln)
         [] e.e = "RE" -> IF p.q = <<>> THEN Cmp(p, e, ln) ELSE Lost(p, ln)
         [] OTHER -> p

-----------------------------------------------------------------------------
(* one consumed line.  A state-level operator on purpose: TLC caches the LET
   definitions of operators but re-evaluates those of an action at every
   reference. *)
Step(s, e, ln, id) ==
  LET m1 == MonStep(s.m, e)
      lp == LockMode /\ HasProj(e)
      ok == ~lp \/ RealOK(m1, e)
      m2 == IF lp THEN Chk(m1, TRUE, ok, "C05:heap") ELSE m1
      p1 == IF LockMode THEN (IF ok THEN LStep(s.p, e, ln) ELSE Lost(s.p, ln)) ELSE s.p
      r  == [m |-> m2, p |-> p1]
  IN IF e.e = "End" /\ PrintT("VERDICT " \o ToJson([id |-> id, why |-> e.why, viols |-> m2.viols,
                                                     seen |-> m2.seen, drift |-> p1.dl,
                                                     steps |-> p1.steps, ops |-> m2.ops,
                                                     fires |-> m2.fires]))
     THEN r ELSE r

StInit == [m |-> MonInit, p |-> HpInit]

TInit == l = 1 /\ st = StInit /\ sid = "none"

TNext ==
  /\ l <= N
  /\ l' = l + 1
  /\ IF Log[l].e = "Reset"
     THEN /\ Assert(Log[l].maxid = MaxId /\ Log[l].mode = Log[1].mode, "trace file mixes id ranges or modes")
          /\ st' = StInit /\ sid' = Log[l].id
     ELSE st' = Step(st, Log[l], l, sid) /\ sid' = sid

TSpec == TInit /\ [][TNext]_tvars
(* the line counter identifies a state: TLC fingerprints only this (the
   monitor functions have up to 20 000 entries) *)
ViewL == l
(* violated <=> the whole trace was consumed *)
NotDone == l <= N
=============================================================================
