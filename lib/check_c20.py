#!/usr/bin/env python3
"""C20 -- iv_inotify routes events to their watch; unregistering in handlers
is safe.

model checking of spec/IvInotify.tla against the spec/MonInotify.tla monitor
(MC_Inotify; plus the model-level demonstration of the uninitialised
this->term and, in the thorough tier, the deviating model variants that must
all be rejected) -> script generation from the same model (GenInotify: every
environment program within the bound by BFS, random deep ones by -simulate)
-> translation to file-system programs + seeded random programs -> execution
of the real iv_inotify code by harness/ivh_inotify.c (real inotify on a
scratch directory, multi-record reads, handler reactions, 0xAA-filled
individually allocated objects) -> TLC trace validation (TraceInotify:
MonInotify on every event, IvInotify in lock-step).

Scenario families: `in` (the instance is unregistered only from inside a
handler, or never) and `out` (the instance is unregistered outside any
handler: the family in which the known defect "this->term is never
initialised" lives; it is reported with the signature
C20:crash-unregister-term and keeps the other family explorable on the
unfixed tree)."""
import collections
import concurrent.futures as cf
import os
import random
import re
import subprocess
import sys
import threading

sys.path.insert(0, os.path.dirname(os.path.abspath(__file__)))
import vlib

PID = "C20"
WRAPS = ["read", "inotify_init", "inotify_add_watch", "inotify_rm_watch"]
TERM_SIG = "C20:crash-unregister-term"

MC_ACTIONS = ["InstRegister", "RegOutside", "UnregOutside", "InstUnregOutside", "ReactRegNew",
              "ReactUnregSelf", "ReactUnregOther", "ReactUnregInst", "ReactNothing", "ApiEnd",
              "KernelEvent", "ReadBatch", "Deliver", "Finish", "Crash"]
VARIANTS = {"stride-fixed": "C20:order", "oneshot-stays": "C20:stale-watch",
            "ignored-stays": "C20:stale-watch", "no-break": "C20:uaf-instance",
            "no-term": "C20:uaf-instance"}

# monitor tags whose antecedent must have held at least once in a full run
REQUIRED = ["C20:order:multi", "C20:route", "C20:route:named", "C20:read:multi",
            "C20:skip:unregistered", "C20:skip:dropped", "C20:skip:inst-gone",
            "C20:drop:ignored", "C20:drop:oneshot",
            "C20:wreg:outside", "C20:wreg:in-handler", "C20:wunreg:outside", "C20:wunreg:in-handler",
            "C20:iunreg:in-handler"]

IN_ONESHOT = 0x80000000
M_FILE = 0x002            # IN_MODIFY: a write is one record, an unlink is IN_IGNORED alone
M_DIR = 0x304             # IN_ATTRIB | IN_CREATE | IN_DELETE: rmdir is IN_IGNORED alone


class SubScratch:
    """A private corner of the run's scratch directory for one concurrent TLC job
    (vlib.tlc numbers its -metadir directories with an unlocked counter)."""
    _n = [0]
    _lock = threading.Lock()

    def __init__(self, sc):
        with self._lock:
            self._n[0] += 1
            self.dir = sc.sub("job%d" % self._n[0])

    def sub(self, name):
        p = os.path.join(self.dir, name)
        os.makedirs(p, exist_ok=True)
        return p


# ------------------------------------------------------------------ build
def build(kind="plain"):
    return vlib.build_harness("ivh_inotify", ["ivh_inotify.c"], kind, wraps=WRAPS)


# ------------------------------------------------------------ model checking
def mc_coverage(out):
    """{action: (distinct, generated)} from -coverage 1 (last report); the
    disjuncts of MCNext are identified by their line in MC_Inotify.tla."""
    src = vlib.read(os.path.join(vlib.SPEC, "MC_Inotify.tla")).splitlines()
    cov = {}
    for m in re.finditer(r"<MCNext line \d+, col \d+ to line \d+, col \d+ of module MC_Inotify "
                         r"\((\d+) \d+ \d+ \d+\)>: (\d+):(\d+)", out):
        ln = int(m.group(1))
        mm = re.search(r"\\/ \((\w+) /\\ Feed\)", src[ln - 1]) if 0 < ln <= len(src) else None
        if mm:
            cov[mm.group(1)] = (int(m.group(2)), int(m.group(3)))
    return cov


def model_check(tier, sc):
    """Returns a summary dict.  Any unexpected outcome is a MachineryError
    (the specification is wrong), never a verdict about the code."""
    jobs = []   # (cfg, kind, expect, workers)
    if tier == "quick":
        jobs.append(("MC_Inotify_quick.cfg", "main", None, 10))
    else:
        jobs.append(("MC_Inotify_thorough.cfg", "main", None, 8))
        if os.environ.get("VERIF_C20_B4"):
            # batches of 4 records: 15.8 M distinct states, complete in about 8 minutes with 16 workers
            # on a busy machine; not part of the default budget
            jobs.append(("MC_Inotify_b4.cfg", "best-effort", None, 10))
        for v, rule in VARIANTS.items():
            jobs.append(("MC_Inotify_v_%s.cfg" % v, "variant", rule, 2))
    jobs.append(("MC_Inotify_termonly.cfg", "main-nocov", None, 3))
    jobs.append(("MC_Inotify_term.cfg", "term", TERM_SIG, 2))

    def one(j):
        cfg, kind, expect, workers = j
        r = vlib.tlc("MC_Inotify.tla", cfg, SubScratch(sc), coverage=(kind == "main"),
                     timeout=840 if kind == "best-effort" else 1500, workers=workers, xmx="6g")
        return j, r
    res = vlib.parallel(one, jobs, nproc=len(jobs))
    states = trans = 0
    runs = []
    for (cfg, kind, expect, _w), r in res:
        if kind == "best-effort" and r["timed_out"] and not r["violated"]:
            # the largest bound is explored as far as the time budget allows; nothing is claimed for it
            vlib.log("C20: MC %s: not finished within its time budget (no violation so far), not counted" % cfg)
            runs.append({"cfg": cfg, "complete": False, "wall_s": round(r["wall_s"], 1)})
            continue
        if kind in ("main", "main-nocov", "best-effort"):
            if r["violated"] or not r["complete"]:
                raise vlib.MachineryError("model check %s: violated=%s complete=%s (the system model does not "
                                          "satisfy the monitor: a bug in the specification)\n%s"
                                          % (cfg, r["violated"], r["complete"], r["out"][-3000:]))
            run = {"cfg": cfg, "distinct": r["distinct"], "generated": r["generated"], "depth": r["depth"],
                   "wall_s": round(r["wall_s"], 1)}
            if kind == "main":
                cov = mc_coverage(r["out"])
                need = [a for a in MC_ACTIONS if a != "Crash"]   # Crash: the trace of MC_Inotify_term.cfg ends with it
                dead = [a for a in need if cov.get(a, (0, 0))[1] == 0]
                if dead:
                    raise vlib.MachineryError("model check %s: actions never taken (vacuous): %s" % (cfg, dead))
                run["coverage"] = {a: cov[a][1] for a in MC_ACTIONS if a in cov}
            states += r["distinct"]
            trans += r["generated"]
            runs.append(run)
        else:
            # the model must be REJECTED: deviating variant, or the faithful garbage this->term
            if "NoViolation" not in r["violated"] or ('"%s"' % expect) not in r["out"]:
                raise vlib.MachineryError("model check %s: expected the monitor to reject the model with %s, got "
                                          "violated=%s\n%s" % (cfg, expect, r["violated"], r["out"][-2000:]))
            runs.append({"cfg": cfg, "rejected_with": expect, "distinct": r["distinct"],
                         "wall_s": round(r["wall_s"], 1)})
        vlib.log("C20: MC %s (%s): %d distinct / %d generated states, depth %d, %.1fs%s"
                 % (cfg, kind, r["distinct"], r["generated"], r["depth"], r["wall_s"],
                    "" if not expect else ", rejected with " + expect))
    return {"states": states, "transitions": trans, "runs": runs}


# ---------------------------------------------------------------- generation
def gen_from_spec(tier, seed, sc):
    """Environment programs printed by GenInotify: (in-family BFS, out-family BFS, simulated, complete)."""
    jobs = [("GenInotify_quick.cfg" if tier == "quick" else "GenInotify_thorough.cfg", None),
            ("GenInotify_out.cfg", None)]
    if tier == "thorough":
        jobs.append(("GenInotify_sim.cfg", "num=4000"))

    def one(j):
        cfg, sim = j
        if sim:
            return vlib.tlc("GenInotify.tla", cfg, SubScratch(sc), simulate=sim, depth=80, seed=seed, timeout=900,
                            workers=4, xmx="4g")
        return vlib.tlc("GenInotify.tla", cfg, SubScratch(sc), timeout=900, workers=6, xmx="6g")
    res = vlib.parallel(one, jobs, nproc=len(jobs))
    outs = []
    for (cfg, sim), r in zip(jobs, res):
        if r["violated"]:
            raise vlib.MachineryError("GenInotify %s: unexpected violation %s" % (cfg, r["violated"]))
        g = sorted(set(vlib.printed(r["out"], "GEN")))
        if not g:
            raise vlib.MachineryError("GenInotify %s emitted no scripts" % cfg)
        vlib.log("C20: Gen %s: %d environment programs (%s, %.1fs)"
                 % (cfg, len(g), "simulate" if sim else ("BFS complete" if r["complete"] else "BFS INCOMPLETE"),
                    r["wall_s"]))
        outs.append((g, r["complete"]))
    bfs_in, c1 = outs[0]
    bfs_out, c2 = outs[1]
    bfs_out = [h for h in bfs_out if is_out(h)]
    sim = outs[2][0] if len(outs) > 2 else []
    return bfs_in, bfs_out, sim, c1 and c2


def is_out(h):
    """the program unregisters the instance outside any handler"""
    d = 0
    for t in h.split(";"):
        if t.startswith("["):
            d += 1
        elif t == "]":
            d -= 1
        elif t == "ui" and d == 0:
            return True
    return False


def translate(h, sid, flip, poison):
    """One TLC environment program -> harness script.  Model object o = watch
    slot o-1 with a path of its own: a sub-directory (named records) or a file
    (records without a name), chosen by parity; masks are chosen so that one
    model record is exactly one kernel record (see M_FILE / M_DIR)."""
    toks = [t for t in h.strip().split(";") if t]
    fam = "out" if is_out(h) else "in"
    slots = {}          # slot -> (kind, path, os)
    wd_slot = {}        # wd -> slot, in order of successful registration in the model
    nextwd = 1
    has_file = {}       # dir slot -> the toggled file exists
    phases, cur_ops, reacts = [], [], []
    occ = collections.Counter()
    stack = []          # open handler blocks: list of op lists

    def sink():
        return stack[-1] if stack else cur_ops

    def path_of(s):
        return ("d%d" if (s + flip) % 2 == 0 else "f%d") % s

    for t in toks:
        if t.startswith("rw"):
            o, os_ = t[2:].split(".")
            s = int(o) - 1
            slots[s] = ("d" if (s + flip) % 2 == 0 else "f", path_of(s), int(os_))
            wd_slot[nextwd] = s
            nextwd += 1
            sink().append("rw:%d" % s)
        elif t.startswith("uw"):
            sink().append("uw:%d" % (int(t[2:]) - 1))
        elif t == "ui":
            sink().append("ui")
        elif t.startswith("k"):
            wd, ign, lc, _al = [int(x) for x in t[1:].split(".")]
            s = wd_slot.get(wd)
            if s is None:
                continue
            kind, path, _os = slots[s]
            if kind == "f":
                sink().append(("d:%s" if ign else "w:%s") % path)
            elif ign:
                if has_file.get(s):
                    sink().append("d:%s/a" % path)
                    has_file[s] = False
                sink().append("r:%s" % path)
            elif lc:
                sink().append(("d:%s/a" if has_file.get(s) else "c:%s/a") % path)
                has_file[s] = not has_file.get(s)
            else:
                sink().append("t:%s" % path)
        elif t == "rd":
            phases.append(cur_ops)
            cur_ops = []
        elif t.startswith("["):
            s = int(t[1:]) - 1
            occ[s] += 1
            ops = []
            reacts.append((s, occ[s], ops))
            stack.append(ops)
        elif t == "]":
            stack.pop()
    if cur_ops:
        phases.append(cur_ops)
    ls = ["B %s fam=%s poison=%d" % (sid, fam, poison)]
    init = [("k:%s" if k == "d" else "c:%s") % p for _s, (k, p, _o) in sorted(slots.items())]
    if init:
        ls.append("I " + " ".join(init))
    for s, (k, p, os_) in sorted(slots.items()):
        ls.append("W %d %s %x" % (s, p, (M_DIR if k == "d" else M_FILE) | (IN_ONESHOT if os_ else 0)))
    for ph in phases:
        ls.append("P " + " ".join(ph))
    for s, n, ops in reacts:
        if ops:
            ls.append("R %d %d %s" % (s, n, " ".join(ops)))
    ls.append("X")
    return "\n".join(ls) + "\n"


def scripts_from_spec(bfs_in, bfs_out, sim):
    out = []
    for i, h in enumerate(bfs_in):
        out.append(translate(h, "g%d" % i, i % 2, (i // 2) % 2))
    for i, h in enumerate(bfs_out):
        out.append(translate(h, "o%d" % i, i % 2, (i // 2) % 2))
    for i, h in enumerate(sim):
        out.append(translate(h, "s%d" % i, i % 2, (i // 2) % 2))
    return out


# ----------------------------------------------------------- random scripts
ALL_EVENTS = 0xfff
DIR_MASKS = [0xfc6, 0x3c6, 0x304, 0x300, ALL_EVENTS, 0x7c6]
FILE_MASKS = [0xfc6, 0x002, 0x006, 0xc06, ALL_EVENTS]
ALIAS = ["%01", "%02", "%03", "%04"]


def rnd_script(rnd, sid, fam):
    """A random valid program: watches on the directory, sub-directories and
    files; bursts of file-system operations (with and without names; names
    whose bytes alias small watch descriptors); handler reactions."""
    poison = rnd.randint(0, 1)
    dirs = ["."] + rnd.sample(["s", "u"], rnd.randint(0, 2))
    files = rnd.sample(["a", "b", "c"], rnd.randint(1, 3))
    init = ["k:" + d for d in dirs if d != "."] + ["c:" + f for f in files]
    for d in dirs[1:]:
        if rnd.random() < 0.5:
            init.append("c:%s/a" % d)
    paths = dirs + files
    rnd.shuffle(paths)
    nslots = rnd.randint(1, min(4, len(paths)))
    slots = []
    for s in range(nslots):
        p = paths[s]
        m = rnd.choice(DIR_MASKS if p in dirs else FILE_MASKS)
        if rnd.random() < 0.3:
            m |= IN_ONESHOT
        slots.append((p, m))
    # spare slots on the same paths for re-registration under a new object
    names = files + ALIAS[:rnd.randint(0, 4)] + ["x", "y"]
    if rnd.random() < 0.25:
        # names at the upper end of what a directory entry may have (NAME_MAX = 255)
        names.append("L" * rnd.choice([239, 240, 255, 255]))

    def target_dir():
        return rnd.choice(dirs)

    def fs_op():
        d = target_dir()
        pre = "" if d == "." else d + "/"
        c = rnd.random()
        n = rnd.choice(names)
        if c < 0.3:
            return "c:%s%s" % (pre, n)
        if c < 0.5:
            return "w:%s%s" % (pre, n)
        if c < 0.65:
            return "d:%s%s" % (pre, n)
        if c < 0.75:
            return "t:%s%s" % (pre, n) if rnd.random() < 0.7 else "t:%s" % d
        if c < 0.87:
            d2 = target_dir()
            return "m:%s%s:%s%s" % (pre, n, "" if d2 == "." else d2 + "/", rnd.choice(names))
        if c < 0.93:
            return "k:%s" % rnd.choice(["s", "u", "v"])
        return "r:%s" % rnd.choice(["s", "u", "v"])

    def api_op(inside):
        c = rnd.random()
        s = rnd.randrange(nslots)
        if c < 0.4:
            return "uw:%d" % s
        if c < 0.7:
            return "rw:%d" % s
        if c < 0.85:
            return "rr:%d" % s
        if inside or fam == "out":
            return "ui"
        return "uw:%d" % s

    order = list(range(nslots))
    rnd.shuffle(order)
    phases = [["rw:%d" % s for s in order]]
    for _ in range(rnd.randint(1, 4)):
        ops = []
        for _ in range(rnd.randint(1, 7)):
            ops.append(fs_op() if rnd.random() < 0.9 else api_op(False))
        phases.append(ops)
    reacts = []
    for _ in range(rnd.randint(0, 5)):
        s, n = rnd.randrange(nslots), rnd.randint(1, 5)
        ops = []
        for _ in range(rnd.randint(1, 2)):
            c = rnd.random()
            if c < 0.2:
                ops.append("uw:%d" % s)                      # itself
            elif c < 0.3:
                ops.append(rnd.choice(["rr:%d", "rw:%d"]) % s)  # after a one-shot / IGNORED delivery
            elif c < 0.8:
                ops.append(api_op(True))
            else:
                ops.append(fs_op())
        reacts.append((s, n, ops))
    # a share of the programs runs next to another thread with its own loop and inotify instance
    ls = ["B %s fam=%s poison=%d%s" % (sid, fam, poison, " peer=1" if rnd.random() < 0.3 else ""), "I " + " ".join(init)]
    for s, (p, m) in enumerate(slots):
        ls.append("W %d %s %x" % (s, p, m))
    for ph in phases:
        ls.append("P " + " ".join(ph))
    for s, n, ops in reacts:
        ls.append("R %d %d %s" % (s, n, " ".join(ops)))
    ls.append("X")
    return "\n".join(ls) + "\n"


def random_scripts(seed, n):
    rnd = random.Random(seed * 1000003 + 20)
    out = []
    for i in range(n):
        fam = "out" if i % 10 == 9 else "in"
        out.append(rnd_script(rnd, "r%d%s" % (i, fam[0]), fam))
    return out


# ------------------------------------------------------------------ running
def script_id(s):
    return s.split("\n", 1)[0].split()[1]


def script_fam(s):
    return s.split("\n", 1)[0].split()[2][4:]


def run_scripts(exe, scripts, sc, tag, per_file=1200):
    """Tearing down an inotify instance blocks for milliseconds in the kernel, so the
    harness processes mostly wait: run many more of them than there are cores."""
    if not scripts:
        return []
    nchunks = max(1, min(vlib.NCPU * 8, len(scripts) // 20 + 1), (len(scripts) + per_file - 1) // per_file)
    d = sc.sub(tag)
    fsdir = sc.sub(tag + "-fs")
    jobs = []
    for i in range(nchunks):
        ch = scripts[i::nchunks]
        sp, tp = os.path.join(d, "s%d.scr" % i), os.path.join(d, "t%d.ndjson" % i)
        with open(sp, "w") as f:
            f.write("".join(ch))
        if os.path.exists(tp):
            os.unlink(tp)
        jobs.append((sp, tp, len(ch)))

    def one(j):
        sp, tp, n = j
        r = subprocess.run([exe, "-i", sp, "-o", tp, "-T", "20", "-d", fsdir], stdout=subprocess.PIPE,
                           stderr=subprocess.STDOUT, text=True, timeout=3600)
        if r.returncode != 0:
            raise vlib.MachineryError("ivh_inotify failed on %s: rc=%d\n%s" % (sp, r.returncode, r.stdout[-2000:]))
        return tp
    return vlib.parallel(one, jobs, nproc=vlib.NCPU * 4)


def validate(tfs, sc):
    return vlib.validate_traces(tfs, sc, module="TraceInotify.tla", cfg="TraceInotify.cfg", timeout=1200)


def run_subset(tier, seed, sc, rep, pid="C01"):
    """C01 for inotify objects: nothing of a watch or an instance is called or touched after its unregister
    call returned.  Random programs (handlers that unregister watches / the instance, deleted files) judged by
    MonInotify; only the rules about released objects count here."""
    exe = build("plain")
    scripts = random_scripts(seed + 4711, 1200 if tier == "quick" else 5000)
    idx = {script_id(x): x for x in scripts}
    tfs = run_scripts(exe, scripts, sc, "c01ino")
    verdicts, nev = validate(tfs, sc)
    if len(verdicts) != len(scripts):
        raise vlib.MachineryError("%d inotify scripts but %d verdicts" % (len(scripts), len(verdicts)))
    mine = ("C20:after-unreg", "C20:uaf-instance", "C20:uaf-watch", "C20:touch", "C20:crash", "C20:stale-watch", "C20:crash-unregister-term")
    bad = collections.OrderedDict()
    nseen = 0
    for v in verdicts:
        nseen += 1 if "C20:after-unreg" in v["seen"] or "C20:order" in v["seen"] else 0
        rules = [r for r in v["viols"] if r in mine]
        if rules:
            bad[v["id"]] = rules
    pick = sorted(bad, key=lambda sid: (len(idx[sid]), sid))[:10]
    if pick:
        tf2 = run_scripts(exe, [idx[x] for x in pick], sc, "c01inoconfirm")
        v2, _ = validate(tf2, sc)
        again = {v["id"]: set(v["viols"]) for v in v2}
        for sid in pick:
            for r in bad[sid]:
                if r in again.get(sid, ()):
                    rep.violation("C01:inotify/" + r, vlib.save_replay_text(pid, idx[sid]),
                                  "inotify script %s; %d scripts violate in this run" % (sid, len(bad)))
    if not nseen:
        raise vlib.MachineryError("inotify subset vacuous")
    rep.add(inotify_scripts=len(scripts), inotify_events=nev)


def run(pid, tier, seed, replay=None):
    rep = vlib.Report(pid, tier, seed)
    exe = build("plain")
    with vlib.Scratch("verif-" + pid) as sc, cf.ThreadPoolExecutor(1) as bg:
        # the model checking runs concurrently with generation / execution / validation
        mc_job = bg.submit(model_check, tier, sc)
        exhaustive = False
        ngen = 0
        if replay:
            txt = vlib.read(replay)
            scripts = [b for b in re.split(r"(?m)^(?=B )", txt) if b.strip()]
        else:
            bfs_in, bfs_out, sim, complete = gen_from_spec(tier, seed, sc)
            scripts = scripts_from_spec(bfs_in, bfs_out, sim)
            ngen = len(scripts)
            scripts += random_scripts(seed, 4000 if tier == "quick" else 15000)
            exhaustive = complete
        idx = {script_id(s): s for s in scripts}
        if len(idx) != len(scripts):
            raise vlib.MachineryError("duplicate script ids")
        tfs = run_scripts(exe, scripts, sc, "run")
        verdicts, nev = validate(tfs, sc)
        if len(verdicts) != len(scripts):
            raise vlib.MachineryError("%d scripts but %d verdicts" % (len(scripts), len(verdicts)))
        vlib.log("C20: %d scripts executed, %d events validated" % (len(scripts), nev))

        mc = mc_job.result()
        seen = collections.Counter()
        ends = collections.Counter()
        fams = collections.Counter()
        nontrivial = set()
        drift = []
        bad = collections.OrderedDict()
        for v in verdicts:
            s = idx[v["id"]]
            ends[v["why"]] += 1
            fams[script_fam(s)] += 1
            for t in v["seen"]:
                seen[t] += 1
            if "C20:order:multi" in v["seen"]:
                nontrivial.add(vlib.sha(s.split("\n", 1)[1])[:16])
            if v.get("drift"):
                drift.append((v["id"], v["drift"]))
            rules = [r for r in v["viols"] if r.startswith("C20:")]
            if rules:
                bad[v["id"]] = rules
        if ends.get("noinotify"):
            raise vlib.MachineryError("inotify_init() failed in %d scripts: no inotify in this environment"
                                      % ends["noinotify"])
        # a violation counts when a second run of the same script shows it again.  Candidates:
        # the shortest scripts per distinct rule set (at most 8 each, 80 in total)
        by_key = collections.defaultdict(list)
        for sid, rules in bad.items():
            by_key[tuple(sorted(rules))].append(sid)
        pick = []
        for key in sorted(by_key):
            pick += sorted(by_key[key], key=lambda sid: (len(idx[sid]), sid))[:8]
        pick = pick[:80]
        if pick:
            tf2 = run_scripts(exe, [idx[sid] for sid in pick], sc, "confirm")
            v2, _ = validate(tf2, sc)
            again = {v["id"]: set(v["viols"]) for v in v2}
            for sid in pick:
                for r in bad[sid]:
                    if r in again.get(sid, ()):
                        p = vlib.save_replay_text(pid, idx[sid])
                        n = sum(1 for rules in bad.values() if r in rules)
                        rep.violation(r, p, "script %s (family %s); %d scripts show this rule in this run"
                                      % (sid, script_fam(idx[sid]), n))
                    else:
                        vlib.log("C20: %s in script %s not reproduced on the second run" % (r, sid))
        for sid, d in drift[:10]:
            print("DRIFT property=%s script=%s %s" % (pid, sid, d), flush=True)
        if not replay:
            vac = [t for t in REQUIRED if seen[t] == 0]
            # the out family exercises its safe half once a batch has been handled
            if not any(TERM_SIG in r for r in bad.values()) and seen["C20:iunreg:outside"] == 0:
                vac.append("C20:iunreg:outside")
            if vac and not bad:
                raise vlib.MachineryError("vacuous run: monitor rules never exercised: %s" % vac)
        term_scripts = sum(1 for r in bad.values() if TERM_SIG in r)
        other_bad = sum(1 for r in bad.values() if set(r) - {TERM_SIG})
        vlib.log("C20: %d scripts with violations (%d: %s, %d: other rules); ends %s"
                 % (len(bad), term_scripts, TERM_SIG, other_bad, dict(ends)))
        rep.add(states=mc["states"] + nev + len(verdicts), transitions=mc["transitions"] + nev,
                traces_validated_against_impl=len(verdicts), trace_events=nev,
                evaluations=len(scripts), distinct_nontrivial=len(nontrivial),
                rule="scripts = every environment program of the IvInotify model within the Gen bound "
                     "(translated to file-system operations on a scratch directory, one model record = one "
                     "kernel record) plus seeded random programs (watches on directories and files, one-shot "
                     "masks, bursts of create/write/chmod/rename/unlink/mkdir/rmdir, aliasing names, handler "
                     "reactions); non-trivial = distinct script in which a record of a read carrying several "
                     "records was delivered and checked against the kernel's order",
                exhaustive=bool(exhaustive), spec_scripts=ngen, ends=dict(ends), families=dict(fams),
                rules_exercised=dict(seen), model_checks=mc["runs"],
                violating_scripts={"term": term_scripts, "other": other_bad},
                drift={"count": len(drift), "samples": drift[:5]})
        if scripts:
            rep.sample({"script": scripts[0].splitlines()})
            rep.sample({"script": scripts[-1].splitlines()[:14]})
        if verdicts:
            rep.sample({"verdict": {k: verdicts[0][k] for k in ("id", "why", "viols", "drift")}})
        if tfs:
            rep.sample({"trace": [l[:300] for l in vlib.read(tfs[0]).splitlines()[:16]]})
    rep.assumptions += [
        "real inotify on a per-script scratch directory under /tmp; every phase of file-system operations runs "
        "in an iv_task (the loop cannot read meanwhile), so one read() carries all records of the phase",
        "the records returned by each read() on the inotify descriptor are logged by the interposed read "
        "(-Wl,--wrap) and are the ground truth the monitor compares handler invocations with",
        "the kernel does not hand out a watch descriptor twice within one instance (checked nowhere else)",
        "every struct iv_inotify / iv_inotify_watch is malloc'ed and 0xAA-filled before use, released objects "
        "are quarantined and checked for writes (Touch); with poison=1 they are 0xAA-filled again",
        "the instance is unregistered outside a handler only in the `out` family (the family of the known "
        "uninitialised this->term defect)",
        "TLC evaluates spec/MonInotify.tla on every event of every execution; IvInotify runs in lock-step "
        "(mismatch = DRIFT, warning only)"]
    return rep.finish()


if __name__ == "__main__":
    import argparse
    ap = argparse.ArgumentParser()
    ap.add_argument("--tier", default="quick")
    ap.add_argument("--replay", default=None)
    a = ap.parse_args()
    sys.exit(run(PID, a.tier, int(os.environ.get("VERIF_SEED", "1") or 1), a.replay))
