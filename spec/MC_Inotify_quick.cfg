SPECIFICATION MCSpec
CONSTANTS
  MaxWd = 3
  MaxObj = 3
  MaxBatch = 2
  MaxReads = 2
  MaxLen = 1
  Aliases = {0}
  TermInit = "null"
  Variant = "code"
INVARIANT NoViolation
INVARIANT TypeOK
INVARIANT Structure
INVARIANT MonType
CHECK_DEADLOCK FALSE
VIEW MCView
