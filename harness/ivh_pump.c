/* ivh_pump -- harness for C17 (iv_fd_pump): replays environment scripts into
 * the real iv_fd_pump code and logs one ndjson event per observable
 * (alphabet of spec/MonPump.tla).  The harness only observes; the verdict is
 * TLC's (spec/TracePump.tla).
 *
 * Script format (text, one record per line):
 *   B <id> mode=rw|sp tr=<in><out> (p = pipe, s = AF_UNIX stream socket)
 *   S relay=<0|1> L=<stream length> pre=<bytes fed before the first call, -1 = as much as fits>
 *     prog=<driver tokens, comma separated: P pump, Q is_done, D destroy, F<n> fill the
 *          output transport leaving about n bytes of room, U drain the filler>
 *        (after the last token: pump until done / failed / stalled, then Q and D,
 *         unless the program ended with D)
 *   I <items>   results of successive read()/splice() calls on from_fd:
 *               <n> clip the length to n (0 = no clip), A EAGAIN, R EINTR, E<errno> hard
 *               error, W real call without topping up the feeder first
 *   O <items>   results of successive write()/splice() calls on to_fd:
 *               <n> clip, A, R, E<errno>, Z return 0
 *   N <items>   answers of successive ioctl(from_fd, FIONREAD): <n>, K = the kernel's
 *   X           run the script (S/I/O/N groups = sessions, run in one child process)
 * When a queue is exhausted the real call is made unclipped (the kernel decides).
 * Data really flows through real descriptors: byte i of session s is f(s, i), so
 * every byte arriving at the output's peer is checked against its position.
 */
#include <stdio.h>
#include <stdlib.h>
#include <stdarg.h>
#include <string.h>
#include <errno.h>
#include <fcntl.h>
#include <signal.h>
#include <unistd.h>
#include <poll.h>
#include <sys/ioctl.h>
#include <sys/socket.h>
#include <sys/wait.h>
#include <iv.h>
#include <iv_fd_pump.h>

ssize_t __real_read(int, void *, size_t);
ssize_t __real_write(int, const void *, size_t);
ssize_t __real_splice(int, loff_t *, int, loff_t *, size_t, unsigned int);
int __real_ioctl(int, unsigned long, void *);
int __real_shutdown(int, int);

/* ------------------------------------------------------------------ script */
enum { K_CLIP, K_INJ, K_ZERO, K_WITHHOLD, K_KERNEL, K_ANS };
struct item { int kind; long v; };
struct queue { struct item *it; int n, cap, pos; };
#define MAXPROG 4096
struct session {
	int relay;
	long L, pre;
	struct queue in, out, fion;
	struct item prog[MAXPROG];	/* kind = token char, v = argument */
	int nprog;
};
#define MAXSESS 4
static struct session sess[MAXSESS];
static int nsess;
static char script_id[128], mode[8] = "rw", trsp[8] = "pp";

static void q_add(struct queue *q, int kind, long v)
{
	if (q->n == q->cap) {
		q->cap = q->cap ? q->cap * 2 : 64;
		q->it = realloc(q->it, q->cap * sizeof(*q->it));
	}
	q->it[q->n].kind = kind;
	q->it[q->n].v = v;
	q->n++;
}

static struct item q_next(struct queue *q, int dflt)
{
	struct item d = { dflt, 0 };
	return q->pos < q->n ? q->it[q->pos++] : d;
}

static int errno_by_name(const char *s)
{
	if (!strcmp(s, "EIO")) return EIO;
	if (!strcmp(s, "EPIPE")) return EPIPE;
	if (!strcmp(s, "ECONNRESET")) return ECONNRESET;
	if (!strcmp(s, "EBADF")) return EBADF;
	if (!strcmp(s, "ENOSPC")) return ENOSPC;
	if (!strcmp(s, "EINVAL")) return EINVAL;
	if (!strcmp(s, "ENOMEM")) return ENOMEM;
	return EIO;
}

static void parse_items(struct queue *q, char **tok, int nt, int what)
{
	for (int i = 0; i < nt; i++) {
		char *t = tok[i];
		if (t[0] == 'A') q_add(q, K_INJ, EAGAIN);
		else if (t[0] == 'R') q_add(q, K_INJ, EINTR);
		else if (t[0] == 'E') q_add(q, K_INJ, errno_by_name(t));
		else if (t[0] == 'Z') q_add(q, K_ZERO, 0);
		else if (t[0] == 'W') q_add(q, K_WITHHOLD, 0);
		else if (t[0] == 'K') q_add(q, K_KERNEL, 0);
		else q_add(q, what == 'N' ? K_ANS : K_CLIP, atol(t));
	}
}

static void reset_script(void)
{
	for (int i = 0; i < MAXSESS; i++) {
		free(sess[i].in.it);
		free(sess[i].out.it);
		free(sess[i].fion.it);
	}
	memset(sess, 0, sizeof sess);
	nsess = 0;
}

/* ------------------------------------------------------------------- trace */
static int outfd = 1;
static int in_child;
static long nevents;
#define EVENT_CAP 12000		/* per execution; correct code stays far below */

static void ev(const char *fmt, ...)
{
	char b[512];
	va_list ap;
	int n;

	if (in_child && ++nevents > EVENT_CAP) {
		/* the code under test loops without making progress */
		static const char end[] = "{\"e\":\"End\",\"why\":\"runaway\",\"sig\":0}\n";
		if (__real_write(outfd, end, sizeof end - 1) < 0)
			_exit(3);
		_exit(0);
	}

	va_start(ap, fmt);
	n = vsnprintf(b, sizeof b - 2, fmt, ap);
	va_end(ap);
	if (n < 0)
		return;
	if (n > (int)sizeof b - 2)
		n = sizeof b - 2;
	b[n++] = '\n';
	for (int off = 0; off < n; ) {
		ssize_t r = __real_write(outfd, b + off, n - off);
		if (r <= 0) {
			if (r < 0 && errno == EINTR)
				continue;
			break;
		}
		off += r;
	}
}

/* -------------------------------------------------------- session run state */
static struct session *S;
static int in_lib;		/* inside iv_fd_pump_init / _pump / _destroy */
static int force_rw;
static int from_fd = -1, to_fd = -1, feed_fd = -1, sink_fd = -1;
static unsigned char *pay;	/* the position-coded stream */
static long fed, rdpos, dlpos, junk;
static int bi = -1, bo = -1;

static unsigned char f(int s, long i)
{
	return (unsigned char)(i * 167 + (i >> 8) * 13 + s * 101 + 7);
}

static void setnb(int fd)
{
	fcntl(fd, F_SETFL, fcntl(fd, F_GETFL) | O_NONBLOCK);
}

/* write as much of the not yet fed stream as the transport accepts; close
 * the feeding side once everything is in (=> end-of-file after byte L-1) */
static void feed_upto(long lim)
{
	if (feed_fd < 0)
		return;
	if (lim > S->L)
		lim = S->L;
	while (fed < lim) {
		ssize_t r = __real_write(feed_fd, pay + fed, lim - fed);
		if (r <= 0) {
			if (r < 0 && errno == EINTR)
				continue;
			break;
		}
		fed += r;
	}
	if (fed == S->L) {
		close(feed_fd);
		feed_fd = -1;
	}
}

static void feed_topup(void)
{
	feed_upto(S->L);
}

/* read exactly n bytes from the output's peer */
static int sink_read(unsigned char *b, long n)
{
	long got = 0;
	int spins = 0;

	while (got < n) {
		ssize_t r = __real_read(sink_fd, b + got, n - got);
		if (r > 0) {
			got += r;
			continue;
		}
		if (r == 0)
			return -1;
		if (errno == EINTR)
			continue;
		if (errno == EAGAIN && spins++ < 200) {
			struct pollfd p = { sink_fd, POLLIN, 0 };
			poll(&p, 1, 10);
			continue;
		}
		return -1;
	}
	return 0;
}

static void sink_drop(long n)
{
	unsigned char b[4096];

	while (n > 0) {
		long k = n < (long)sizeof b ? n : (long)sizeof b;
		if (sink_read(b, k) < 0)
			break;
		n -= k;
		junk -= k;
	}
}

static void out_fill(long room)
{
	unsigned char b[4096];

	memset(b, 0xEE, sizeof b);
	for (;;) {
		ssize_t r = __real_write(to_fd, b, sizeof b);
		if (r <= 0) {
			if (r < 0 && errno == EINTR)
				continue;
			break;
		}
		junk += r;
	}
	for (;;) {		/* byte granularity for the tail */
		ssize_t r = __real_write(to_fd, b, 1);
		if (r <= 0) {
			if (r < 0 && errno == EINTR)
				continue;
			break;
		}
		junk += r;
	}
	if (room > junk)
		room = junk;
	sink_drop(room);
}

/* the positions of the n bytes that arrived at the output's peer */
static long sink_positions(long n)
{
	unsigned char *b = malloc(n + 1);
	long a = -1;

	if (junk > 0)
		sink_drop(junk);
	if (b == NULL || sink_read(b, n) < 0) {
		free(b);
		return -1;
	}
	if (dlpos + n <= S->L && !memcmp(b, pay + dlpos, n)) {
		a = dlpos;
	} else if (n <= S->L) {
		unsigned char *m = memmem(pay, S->L, b, n);
		a = m ? (long)(m - pay) : -1;
		if (a == dlpos)		/* cannot be: keep the mismatch visible */
			a = -1;
	}
	free(b);
	return a;
}

static int rcode(ssize_t r, int e)
{
	if (r >= 0)
		return (int)r;
	return e == EAGAIN ? -1 : e == EINTR ? -3 : -2;
}

static ssize_t do_in(int via_splice, void *buf, size_t n, int fd_out, unsigned int flags)
{
	struct item it = q_next(&S->in, K_CLIP);
	size_t n2 = n;
	ssize_t r;
	int e;
	long a = -1;

	if (it.kind == K_INJ) {
		ev("{\"e\":\"In\",\"q\":%ld,\"r\":%d,\"a\":-1,\"inj\":1}", (long)n, rcode(-1, it.v));
		errno = it.v;
		return -1;
	}
	if (it.kind != K_WITHHOLD)
		feed_topup();
	if (it.kind == K_CLIP && it.v > 0 && (size_t)it.v < n)
		n2 = it.v;
	if (via_splice)
		r = __real_splice(from_fd, NULL, fd_out, NULL, n2, flags);
	else
		r = __real_read(from_fd, buf, n2);
	e = errno;
	if (r > 0) {
		a = rdpos;
		if (rdpos + r > S->L || (!via_splice && memcmp(buf, pay + rdpos, r)))
			a = -1;
		rdpos += r;
	}
	ev("{\"e\":\"In\",\"q\":%ld,\"r\":%d,\"a\":%ld,\"inj\":0}", (long)n, rcode(r, e), a);
	errno = e;
	return r;
}

static ssize_t do_out(int via_splice, const void *buf, size_t n, int fd_in, unsigned int flags)
{
	struct item it = q_next(&S->out, K_CLIP);
	size_t n2 = n;
	ssize_t r;
	int e;
	long a = -1;

	if (it.kind == K_INJ) {
		ev("{\"e\":\"Out\",\"q\":%ld,\"r\":%d,\"a\":-1,\"inj\":1}", (long)n, rcode(-1, it.v));
		errno = it.v;
		return -1;
	}
	if (it.kind == K_ZERO) {
		ev("{\"e\":\"Out\",\"q\":%ld,\"r\":0,\"a\":-1,\"inj\":1}", (long)n);
		return 0;
	}
	if (it.kind == K_CLIP && it.v > 0 && (size_t)it.v < n)
		n2 = it.v;
	if (via_splice)
		r = __real_splice(fd_in, NULL, to_fd, NULL, n2, flags);
	else
		r = __real_write(to_fd, buf, n2);
	e = errno;
	if (r > 0) {
		a = sink_positions(r);
		dlpos += r;
	}
	ev("{\"e\":\"Out\",\"q\":%ld,\"r\":%d,\"a\":%ld,\"inj\":0}", (long)n, rcode(r, e), a);
	errno = e;
	return r;
}

/* ---------------------------------------------------------------- wrappers */
ssize_t __wrap_read(int fd, void *buf, size_t n)
{
	if (in_lib && fd == from_fd)
		return do_in(0, buf, n, -1, 0);
	return __real_read(fd, buf, n);
}

ssize_t __wrap_write(int fd, const void *buf, size_t n)
{
	if (in_lib && fd == to_fd)
		return do_out(0, buf, n, -1, 0);
	return __real_write(fd, buf, n);
}

ssize_t __wrap_splice(int fdin, loff_t *oin, int fdout, loff_t *oout, size_t len, unsigned int flags)
{
	if (in_lib && fdin == from_fd)
		return do_in(1, NULL, len, fdout, flags);
	if (in_lib && fdout == to_fd)
		return do_out(1, NULL, len, fdin, flags);
	if (in_lib && force_rw) {
		/* the availability probe of check_splice_available() */
		errno = ENOSYS;
		return -1;
	}
	return __real_splice(fdin, oin, fdout, oout, len, flags);
}

int __wrap_ioctl(int fd, unsigned long req, ...)
{
	va_list ap;
	void *arg;

	va_start(ap, req);
	arg = va_arg(ap, void *);
	va_end(ap);
	if (in_lib && fd == from_fd && req == FIONREAD) {
		struct item it = q_next(&S->fion, K_KERNEL);
		int r = 0;

		if (it.kind == K_ANS)
			*(int *)arg = (int)it.v;
		else
			r = __real_ioctl(fd, req, arg);
		ev("{\"e\":\"Fion\",\"v\":%d,\"inj\":%d}", *(int *)arg, it.kind == K_ANS);
		return r;
	}
	return __real_ioctl(fd, req, arg);
}

int __wrap_shutdown(int fd, int how)
{
	if (in_lib && fd == to_fd)
		ev("{\"e\":\"Shut\",\"how\":%d}", how);
	return __real_shutdown(fd, how);
}

/* ------------------------------------------------------------------ driver */
static void set_bands(void *cookie, int pollin, int pollout)
{
	bi = pollin;
	bo = pollout;
	ev("{\"e\":\"Bands\",\"i\":%d,\"o\":%d,\"ck\":%d}", pollin, pollout, cookie == (void *)&bi);
}

static int mkpair(char kind, int *rd, int *wr)
{
	int fd[2];

	if (kind == 's') {
		if (socketpair(AF_UNIX, SOCK_STREAM, 0, fd) < 0)
			return -1;
		*rd = fd[0];
		*wr = fd[1];
	} else {
		if (pipe(fd) < 0)
			return -1;
		*rd = fd[0];
		*wr = fd[1];
	}
	setnb(*rd);
	setnb(*wr);
	return 0;
}

static int ncalls;

static int pump_once(struct iv_fd_pump *ip)
{
	int ret;

	ncalls++;
	ev("{\"e\":\"PumpB\"}");
	in_lib = 1;
	ret = iv_fd_pump_pump(ip);
	in_lib = 0;
#ifndef NO_PROJ
	ev("{\"e\":\"PumpE\",\"ret\":%d,\"pb\":%d,\"pf\":%d,\"ps\":%d,\"pbuf\":%d}", ret,
	   ip->bytes, !!ip->full, ip->saw_fin, ip->buf != NULL);
#else
	ev("{\"e\":\"PumpE\",\"ret\":%d,\"pb\":-1,\"pf\":-1,\"ps\":-1,\"pbuf\":-1}", ret);
#endif
	return ret;
}

#define CALL_CAP 1500

/* returns the End reason */
static const char *run_session(int si)
{
	struct iv_fd_pump *ip;
	int ret = 1, destroyed = 0;
	const char *why = "ok";

	S = &sess[si];
	fed = rdpos = dlpos = junk = 0;
	bi = bo = -1;
	ncalls = 0;
	pay = malloc(S->L + 1);
	for (long i = 0; i < S->L; i++)
		pay[i] = f(si, i);
	if (mkpair(trsp[0], &from_fd, &feed_fd) < 0 || mkpair(trsp[1], &sink_fd, &to_fd) < 0)
		return "setup";
	feed_upto(S->pre < 0 ? S->L : S->pre);

	/* individually allocated and poisoned, as a user object would be */
	ip = malloc(sizeof(*ip));
	memset(ip, 0xAA, sizeof(*ip));
	IV_FD_PUMP_INIT(ip);
	ip->from_fd = from_fd;
	ip->to_fd = to_fd;
	ip->cookie = (void *)&bi;
	ip->set_bands = set_bands;
	ip->flags = S->relay ? IV_FD_PUMP_FLAG_RELAY_EOF : 0;

	ev("{\"e\":\"InitB\",\"mode\":\"%s\",\"relay\":%d,\"L\":%ld,\"bs\":4096,\"s\":%d}", mode, S->relay, S->L, si);
	in_lib = 1;
	iv_fd_pump_init(ip);
	in_lib = 0;
	ev("{\"e\":\"InitE\"}");

	for (int k = 0; k < S->nprog && !destroyed; k++) {
		switch (S->prog[k].kind) {
		case 'P':
			if (ret > 0 && ncalls < CALL_CAP)
				ret = pump_once(ip);
			break;
		case 'Q':
			ev("{\"e\":\"Done\",\"v\":%d}", iv_fd_pump_is_done(ip));
			break;
		case 'F':
			out_fill(S->prog[k].v);
			break;
		case 'U':
			sink_drop(junk);
			break;
		case 'D':
			destroyed = 1;
			break;
		}
	}
	if (!destroyed) {
		sink_drop(junk);
		while (ret > 0 && !(bi == 0 && bo == 0) && ncalls < CALL_CAP)
			ret = pump_once(ip);
		if (ret > 0)
			why = ncalls >= CALL_CAP ? "runaway" : "stalled";
		if (ret == 0)
			ret = pump_once(ip);	/* "returns 0 from then on" */
		ev("{\"e\":\"Done\",\"v\":%d}", iv_fd_pump_is_done(ip));
	}
	ev("{\"e\":\"DestroyB\"}");
	in_lib = 1;
	iv_fd_pump_destroy(ip);
	in_lib = 0;
	ev("{\"e\":\"DestroyE\"}");
	memset(ip, 0xAA, sizeof(*ip));
	free(ip);

	close(from_fd);
	close(to_fd);
	close(sink_fd);
	if (feed_fd >= 0)
		close(feed_fd);
	from_fd = to_fd = sink_fd = feed_fd = -1;
	free(pay);
	pay = NULL;
	return why;
}

static int splice_works(void)
{
	int a[2], b[2], ok;
	ssize_t r;

	if (pipe(a) < 0 || pipe(b) < 0)
		return 0;
	r = __real_splice(a[0], NULL, b[1], NULL, 1, SPLICE_F_NONBLOCK);
	ok = r < 0 && errno == EAGAIN;
	close(a[0]); close(a[1]); close(b[0]); close(b[1]);
	return ok;
}

#include <dirent.h>
static int many;	/* many=N in the B line: N pumps stalled at the same time, then drained */

static int count_fds(void)
{
	DIR *d = opendir("/proc/self/fd");
	int n = 0;

	if (d == NULL)
		return -1;
	while (readdir(d) != NULL)
		n++;
	closedir(d);
	return n;
}

static void noop_bands(void *cookie, int pollin, int pollout) { }

/* N relays hold data at the same time because their outputs are full; then the consumers
 * drain, the producers close, everything is pumped to the end and destroyed.  Plain calls,
 * nothing scripted: what is observed is the descriptor balance of the whole run. */
static int many_pumps(int n)
{
	struct iv_fd_pump *ip = calloc(n, sizeof *ip);
	int (*fd)[4] = calloc(n, sizeof *fd);	/* in.rd in.wr out.rd out.wr */
	char junk[4096];
	int bad = 0;

	memset(junk, 'x', sizeof junk);
	for (int i = 0; i < n; i++) {
		if (mkpair('s', &fd[i][0], &fd[i][1]) < 0 || mkpair('s', &fd[i][2], &fd[i][3]) < 0)
			return -1;
		while (__real_write(fd[i][3], junk, sizeof junk) > 0)
			;			/* output full */
		IV_FD_PUMP_INIT(&ip[i]);
		ip[i].from_fd = fd[i][0];
		ip[i].to_fd = fd[i][3];
		ip[i].cookie = NULL;
		ip[i].set_bands = noop_bands;
		ip[i].flags = IV_FD_PUMP_FLAG_RELAY_EOF;
		iv_fd_pump_init(&ip[i]);
		if (__real_write(fd[i][1], junk, 1000) != 1000)
			bad++;
		iv_fd_pump_pump(&ip[i]);	/* takes a buffer, cannot get rid of the data */
	}
	for (int i = 0; i < n; i++) {
		close(fd[i][1]);		/* end of input */
		for (int k = 0; k < 2000; k++) {
			while (__real_read(fd[i][2], junk, sizeof junk) > 0)
				;
			if (iv_fd_pump_pump(&ip[i]) <= 0)
				break;
		}
		iv_fd_pump_destroy(&ip[i]);
		close(fd[i][0]); close(fd[i][2]); close(fd[i][3]);
	}
	free(ip);
	free(fd);
	return bad;
}

static void run_script(void)
{
	const char *why = "ok";
	int base = count_fds();

	signal(SIGPIPE, SIG_IGN);
	force_rw = strcmp(mode, "sp") != 0;
	if (!force_rw && !splice_works()) {
		ev("{\"e\":\"End\",\"why\":\"nosplice\",\"sig\":0}");
		return;
	}
	iv_init();
	for (int i = 0; i < nsess; i++) {
		const char *w = run_session(i);
		if (strcmp(w, "ok"))
			why = w;
		if (!strcmp(w, "setup"))
			break;
	}
	if (many > 0)
		many_pumps(many);
	iv_deinit();
	/* everything the library opened for this thread is closed again */
	ev("{\"e\":\"Fds\",\"base\":%d,\"after\":%d,\"many\":%d}", base, count_fds(), many);
	ev("{\"e\":\"End\",\"why\":\"%s\",\"sig\":0}", why);
}

int main(int argc, char **argv)
{
	FILE *in = stdin;
	int timeout_s = 5, ntimeouts = 0;
	char *line = NULL;
	size_t cap = 0;

	for (int i = 1; i < argc; i++) {
		if (!strcmp(argv[i], "-i") && i + 1 < argc)
			in = fopen(argv[++i], "r");
		else if (!strcmp(argv[i], "-o") && i + 1 < argc)
			outfd = open(argv[++i], O_WRONLY | O_CREAT | O_APPEND, 0644);
		else if (!strcmp(argv[i], "-T") && i + 1 < argc)
			timeout_s = atoi(argv[++i]);
	}
	if (in == NULL || outfd < 0) {
		fprintf(stderr, "ivh_pump: cannot open input/output\n");
		return 2;
	}
	while (getline(&line, &cap, in) > 0) {
		char **tok = NULL;
		int nt = 0, tcap = 0;

		for (char *s = strtok(line, " \t\r\n"); s; s = strtok(NULL, " \t\r\n")) {
			if (nt == tcap) {
				tcap = tcap ? tcap * 2 : 32;
				tok = realloc(tok, tcap * sizeof(*tok));
			}
			tok[nt++] = s;
		}
		if (nt == 0 || tok[0][0] == '#') {
			free(tok);
			continue;
		}
		switch (tok[0][0]) {
		case 'B':
			reset_script();
			many = 0;
			snprintf(script_id, sizeof script_id, "%s", nt > 1 ? tok[1] : "?");
			for (int i = 2; i < nt; i++) {
				if (!strncmp(tok[i], "many=", 5)) many = atoi(tok[i] + 5);
				if (!strncmp(tok[i], "mode=", 5)) snprintf(mode, sizeof mode, "%s", tok[i] + 5);
				else if (!strncmp(tok[i], "tr=", 3)) snprintf(trsp, sizeof trsp, "%s", tok[i] + 3);
			}
			if (strlen(trsp) < 2)
				strcpy(trsp, "pp");
			break;
		case 'S':
			if (nsess < MAXSESS) {
				struct session *s = &sess[nsess++];
				s->pre = -1;
				for (int i = 1; i < nt; i++) {
					if (!strncmp(tok[i], "relay=", 6)) s->relay = atoi(tok[i] + 6);
					else if (!strncmp(tok[i], "L=", 2)) s->L = atol(tok[i] + 2);
					else if (!strncmp(tok[i], "pre=", 4)) s->pre = atol(tok[i] + 4);
					else if (!strncmp(tok[i], "prog=", 5)) {
						for (char *t = tok[i] + 5; *t && s->nprog < MAXPROG; ) {
							s->prog[s->nprog].kind = *t;
							s->prog[s->nprog].v = (*t == 'F') ? atol(t + 1) : 0;
							s->nprog++;
							while (*t && *t != ',') t++;
							if (*t == ',') t++;
						}
					}
				}
				if (s->L < 0) s->L = 0;
			}
			break;
		case 'I': case 'O': case 'N':
			if (nsess > 0) {
				struct session *s = &sess[nsess - 1];
				parse_items(tok[0][0] == 'I' ? &s->in : tok[0][0] == 'O' ? &s->out : &s->fion,
					    tok + 1, nt - 1, tok[0][0]);
			}
			break;
		case 'X': {
			ev("{\"e\":\"Reset\",\"id\":\"%s\",\"mode\":\"%s\",\"tr\":\"%s\"}", script_id, mode, trsp);
			if (ntimeouts >= 3) {
				/* the tree under test hangs: do not spend the budget */
				ev("{\"e\":\"End\",\"why\":\"skipped\",\"sig\":0}");
				break;
			}
			pid_t pid = fork();
			if (pid < 0) {
				fprintf(stderr, "ivh_pump: fork failed\n");
				return 2;
			}
			if (pid == 0) {
				in_child = 1;
				alarm(timeout_s);
				run_script();
				_exit(0);
			}
			int st = 0;
			while (waitpid(pid, &st, 0) < 0 && errno == EINTR)
				;
			if (WIFSIGNALED(st)) {
				if (WTERMSIG(st) == SIGALRM)
					ntimeouts++;
				ev("{\"e\":\"End\",\"why\":\"%s\",\"sig\":%d}",
				   WTERMSIG(st) == SIGALRM ? "hang" : "crash", WTERMSIG(st));
			} else if (WEXITSTATUS(st) != 0) {
				ev("{\"e\":\"End\",\"why\":\"crash\",\"sig\":%d}", -WEXITSTATUS(st));
			}
			break;
		}
		default:
			break;
		}
		free(tok);
	}
	return 0;
}
