/* simk -- thin virtual kernel + baton scheduler + trace logger.
 * Linked with the library objects through -Wl,--wrap=<sym>; see DESIGN 3.2. */
#ifndef SIMK_H
#define SIMK_H
#define _GNU_SOURCE
#include <stdint.h>
#include <stdio.h>
#include <stdlib.h>
#include <string.h>
#include <errno.h>
#include <time.h>
#include <unistd.h>
#include <pthread.h>
#include <signal.h>
#include <poll.h>
#include <sys/epoll.h>
#include <sys/types.h>

typedef long long ns_t;
#define NSEC 1000000000LL
#define VBASE (1000LL * NSEC)         /* virtual clock starts at 1000 s */

extern ns_t vnow;
extern __thread int me;               /* thread index, 0 = main */
extern int simk_in_probe;             /* inside iv_fd_register_try: poll() is a probe */
extern int simk_wait_limit;           /* more waits than this: End runaway */
extern int simk_passthrough;          /* 1: real time/blocking, log only */

/* trace */
void tr(const char *fmt, ...) __attribute__((format(printf, 1, 2)));
void tr_flush(void);
void tr_open(int fd);
/* TLC integers are 32-bit and the monitors add times: absolute seconds are clamped to TS_CAP ("far
 * future" stays far future), relative ones (TSREL) so that now + interval stays within the cap; the
 * virtual clock never passes VBASE + SIMK_HORIZON */
#define TS_CAP 1000000000LL
#define SIMK_HORIZON (100000000LL * NSEC)
#define TS(x) (long long)((x) < 0 ? -1 : ((x) / NSEC >= TS_CAP ? TS_CAP : (x) / NSEC)), (long long)((x) < 0 || (x) / NSEC >= TS_CAP ? 0 : (x) % NSEC)
#define TSREL_(x, now) ((x) >= 0 && (now) + (x) >= TS_CAP * NSEC ? TS_CAP * NSEC - (now) : (x))
#define TSREL(x, now) TS(TSREL_(x, now))

/* faults: the nth (1-based) call of `call` fails with errno; from!=0: every
 * call from the nth on */
void fault_add(const char *call, int nth, int err, int from);
int fault_check(const char *call);
int errno_by_name(const char *s);
const char *errno_name(int e);

/* environment scripting: ops to run at the n-th global quiescence */
struct simk_hooks {
	/* append ground truth / event mapping JSON for the calling thread */
	void (*truth_json)(char *buf, size_t len);
	int  (*fid_of_ptr)(void *p);          /* 0 = not a harness object */
	int  (*fid_of_osfd)(int fd);
	int  (*env_at_quiescence)(int q);     /* returns #ops applied */
	int  (*env_at_hang)(void);            /* last resort before "hang" */
	void (*check_touch)(void);
	int  nfid;
};
extern struct simk_hooks hooks;

void simk_init(unsigned seed);
void simk_end(const char *why, int sig) __attribute__((noreturn));
void simk_set_schedule(const int *sched, int n);
void simk_set_sticky(int n);
void simk_yield(void);
void simk_flag_wait(int n);
void simk_flag_set(int n);
void sync_log(const char *op, int obj);   /* a happens-before edge: lock/unlock/acq/rel/create/... */
extern int simk_sched_det;            /* deterministic continuation after the schedule prefix */
extern int simk_quiet_io;             /* writes are not scheduling points */
extern int simk_jump_prob;
extern int simk_log_dec;              /* log the scheduling decisions after End */
void simk_progress(void);             /* something observable changed */
void simk_advance(ns_t d);            /* scripted slow callback */
void simk_advance_clamped(ns_t d);    /* env op while blocked */
int  simk_nthreads(void);
int  simk_thread_takes_signals(int t);
int  simk_thread_alive(int t);
void simk_sig_thread_exit(int t);
int  simk_wait_count(void);

/* simulated signals and processes (simk_sig.c) */
extern int simk_sig_enabled;
extern int simk_fork_exit;
void simk_sig_init(void);
int  simk_sigpoint(void);
int  simk_sig_pending_unblocked(int t);
void simk_raise(int sig, int thread);
void simk_thread_inherit_mask(int child, int parent);
const char *simk_disposition(int sig);
void simk_set_pid(pid_t p);
void simk_set_next_pids(const int *p, int n);
void simk_set_sigchld_thread(int t);
void simk_add_child(pid_t pid);
void simk_child_policy(pid_t pid, int policy, int n);
void simk_child_event(pid_t pid, int what, int arg);

/* memory-access recorder (memrec.c) */
extern int memrec_on, memrec_words;
void memrec_init(int words);
void memrec_flush(void);
void memrec_user_add(void *p, size_t n, int kind, int id);
void memrec_buf(const void *p, size_t n, int wr);
void *__real_malloc(size_t);
void __real_free(void *);

/* real functions */
ssize_t __real_read(int, void *, size_t);
ssize_t __real_write(int, const void *, size_t);
int __real_close(int);
int __real_pipe(int *);
int __real_poll(struct pollfd *, nfds_t, int);
int __real_clock_gettime(clockid_t, struct timespec *);
void __real_abort(void) __attribute__((noreturn));

#endif
