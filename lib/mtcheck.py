#!/usr/bin/env python3
"""C08 (iv_event) and C09 (iv_event_raw): model checking of IvEvent / IvRaw,
schedule enumeration of real multi-threaded executions under the baton
scheduler (iterative context bounding), seeded random schedules of larger
scenarios, TLC trace validation with the MonCore rules C08:* / C09:*."""
import collections
import json
import os
import random
import sys

sys.path.insert(0, os.path.dirname(os.path.abspath(__file__)))
import vlib
import corerun

TRANSPORT_METHOD = {"kick": "epoll", "kick-tfd": "epoll-timerfd", "raw": "poll", "raw-ppoll": "ppoll"}


def ev_scenarios():
    """small iv_event scenarios whose schedules are enumerated"""
    S = {}
    S["1p1e2"] = ["O ev 1", "S ev_reg 1", "S spawn 1", "T 1 ev_post 1", "T 1 ev_post 1"]
    S["2p1e"] = ["O ev 1", "S ev_reg 1", "S spawn 1", "S spawn 2", "T 1 ev_post 1", "T 2 ev_post 1"]
    S["2p2e"] = ["O ev 1", "O ev 2", "S ev_reg 1", "S ev_reg 2", "S spawn 1", "S spawn 2",
                 "T 1 ev_post 1", "T 1 ev_post 2", "T 2 ev_post 2", "T 2 ev_post 1"]
    S["repost"] = ["O ev 1", "O ev 2", "S ev_reg 1", "S ev_reg 2", "S spawn 1",
                   "T 1 ev_post 1", "T 1 ev_post 1", "R ev 1 0 1 ev_post 2", "R ev 2 0 1 ev_post 1"]
    S["unreg-other"] = ["O ev 1", "O ev 2", "O ev 3", "S ev_reg 1", "S ev_reg 2", "S ev_reg 3", "S spawn 1", "S spawn 2",
                        "S ev_post 3", "T 1 ev_post 1", "T 2 ev_post 2", "T 1 ev_post 2",
                        "R ev 1 0 1 ev_unreg 3", "R ev 2 0 1 ev_unreg 3", "R ev 3 0 1 ev_post 1"]
    S["self+other"] = ["O ev 1", "O ev 2", "S ev_reg 1", "S ev_reg 2", "S spawn 1", "S ev_post 2",
                       "T 1 ev_post 1", "T 1 yield", "T 1 ev_post 1", "R ev 2 0 0 ev_post 1", "R ev 1 0 2 ev_post 2"]
    S["reg-late"] = ["O ev 1", "O ev 2", "O tk 1", "S ev_reg 1", "S tk_reg 1", "S spawn 1", "R tk 1 0 1 ev_reg 2",
                     "T 1 ev_post 1", "T 1 ev_post 2", "T 1 ev_post 1", "R ev 1 0 1 ev_unreg 2", "R ev 1 0 2 ev_reg 2"]
    # the owner posts A, unregisters A and posts B within one iteration (outside and inside a handler)
    S["post-unreg-post"] = ["O ev 1", "O ev 2", "S ev_reg 1", "S ev_reg 2", "S spawn 1", "S ev_post 1", "S ev_unreg 1", "S ev_post 2",
                            "T 1 ev_post 2"]
    S["post-unreg-post-h"] = ["O ev 1", "O ev 2", "O ev 3", "S ev_reg 1", "S ev_reg 2", "S ev_reg 3", "S spawn 1", "T 1 ev_post 3",
                              "R ev 3 0 1 ev_post 1", "R ev 3 0 1 ev_unreg 1", "R ev 3 0 1 ev_post 2"]
    # the owner posts A and unregisters it again; the wake-up that follows finds nothing to deliver;
    # later another thread posts B
    S["post-unreg-idle"] = ["O ev 1", "O ev 2", "S ev_reg 1", "S ev_reg 2", "S spawn 1", "S ev_post 1", "S ev_unreg 1",
                            "T 1 yield", "T 1 yield", "T 1 ev_post 2", "T 1 ev_post 2"]
    # the owner's event count drops to zero and rises again: the wake-up path is set up afresh
    S["reg-cycle"] = ["O ev 1", "O ev 2", "S ev_reg 1", "S ev_unreg 1", "S ev_reg 2", "S spawn 1", "T 1 ev_post 2", "T 1 ev_post 2"]
    # the last event of the process goes away in one thread while another thread registers its first one
    S["rxoff-race"] = ["O ev 1", "O ev 2", "S ev_reg 1", "S spawn 1", "T 1 iv_init", "T 1 ev_reg 2", "T 1 set_flag 2", "T 1 iv_main",
                       "T 1 iv_deinit", "S ev_unreg 1", "S wait_flag 2", "S ev_post 2", "R ev 2 0 1 ev_unreg 2"]
    # a thread's last event goes away while another owner still has one, then the thread registers again
    # (its wake-up path is set up a second time) and posts to the other owner
    S["rxoff-rereg"] = ["O ev 1", "O ev 2", "O ev 3", "S ev_reg 2", "S spawn 1", "T 1 iv_init", "T 1 ev_reg 1", "T 1 ev_unreg 1",
                        "T 1 ev_reg 3", "T 1 ev_post 2", "T 1 ev_unreg 3", "T 1 iv_deinit", "R ev 2 0 1 ev_unreg 2"]
    # a second owner thread with its own loop, posted to by the main thread
    S["second-owner"] = ["O ev 1", "O ev 2", "S ev_reg 1", "S spawn 1", "T 1 iv_init", "T 1 ev_reg 2", "T 1 set_flag 2", "T 1 iv_main",
                         "T 1 iv_deinit", "S wait_flag 2", "S ev_post 2", "R ev 2 0 1 ev_unreg 2"]
    return S


# another thread posts an event and makes a descriptor ready before the owner polls again (both arrive in
# one batch of the kernel's answer); the event handler takes the descriptor away, or moves the object to
# another descriptor.  (header options, body)
MT_FD_SCEN = {
    "ev-unreg-fd": ("keep=0 reuse=0", ["O ev 1", "O fd 1 pr", "O fd 2 pr", "S ev_reg 1", "S fd_reg 1 1 0 0", "S fd_reg 2 1 0 0", "S spawn 1",
                                       "T 1 ev_post 1", "T 1 pwrite 2 1", "T 1 pwrite 1 1", "R ev 1 0 1 fd_unreg 2",
                                       "R fd 1 1 0 drain 1", "R fd 2 1 0 drain 2"]),
    "ev-move-fd": ("keep=1 reuse=1", ["O ev 1", "O fd 1 pr", "O fd 2 pr", "S ev_reg 1", "S fd_reg 1 1 0 0", "S fd_reg 2 1 0 0", "S spawn 1",
                                      "T 1 ev_post 1", "T 1 pwrite 2 1", "R ev 1 0 1 fd_unreg 2", "R ev 1 0 1 drain 2",
                                      "R ev 1 0 1 fd_newos 2", "R ev 1 0 1 fd_reg 2 1 0 0",
                                      "R fd 1 1 0 drain 1", "R fd 2 1 0 drain 2"]),
    "fd-then-ev": ("keep=0 reuse=0", ["O ev 1", "O fd 1 pr", "O fd 2 pr", "S ev_reg 1", "S fd_reg 1 1 0 0", "S fd_reg 2 1 0 0", "S spawn 1",
                                      "T 1 pwrite 1 1", "T 1 ev_post 1", "T 1 pwrite 2 1", "R ev 1 0 1 fd_unreg 2", "R ev 1 0 1 fd_unreg 1",
                                      "R fd 1 1 0 drain 1", "R fd 2 1 0 drain 2"]),
}


def mt_fd_scripts(tag, seed, per=6, methods=("epoll", "epoll-timerfd", "poll")):
    rr = random.Random(seed * 131 + 7)
    out = []
    for name, (opts, body) in sorted(MT_FD_SCEN.items()):
        for m in methods:
            for j in range(per):
                out.append(mk("%sm.%s.%s.%d" % (tag, name, m, j), body, m + " " + opts, det=0, seed=rr.randint(1, 1 << 30),
                              sticky=rr.choice([0, 1, 3, 8])))
    return out


# scenarios with a failing registration (C07: "registration calls that report failure leave the loop as it was")
EV_FAULT_SCEN = {
    "fail-then-ok": (["O ev 1", "O ev 2", "S spawn 1", "S ev_reg 1", "S ev_reg 2", "T 1 ev_post 2", "T 1 ev_post 2"],
                     ["F eventfd2 1 EMFILE 0"], ("poll", "ppoll")),
}
RAW_FAULT_SCEN = {
    # (no fault) the raw event sits behind a write-only descriptor in the poll back end's tables; that
    # descriptor goes away
    "behind-fd": (["O fd 1 pw", "O raw 1", "S fd_reg 1 0 1 0", "S raw_reg 1", "S spawn 1", "S fd_unreg 1", "T 1 raw_post 1",
                   "T 1 yield", "T 1 raw_post 1"], [], ("poll", "ppoll", "epoll")),
    # a later registration fails for lack of descriptors (every way of making one fails): the objects
    # registered before keep working
    "reg-fail": (["O raw 1", "O raw 2", "S raw_reg 1", "S raw_reg 2", "S spawn 1", "S raw_post 1", "T 1 raw_post 1"],
                 ["F eventfd2 2 EMFILE 0", "F eventfd 1 EMFILE 0", "F pipe 1 EMFILE 0"], ("epoll", "poll")),
    "reg-fail2": (["O raw 1", "O raw 2", "S raw_reg 1", "S raw_reg 2", "S spawn 1", "S raw_post 1", "T 1 raw_post 1", "T 1 raw_post 2"],
                  ["F eventfd2 2 EMFILE 0", "F eventfd 1 EMFILE 0"], ("epoll",)),
}


def eventreg_scripts(sc, tier, seed, tag):
    """programs generated by TLC from spec/GenEventReg.tla (registration life cycle of iv_event:
    register / failing register / unregister / posts from another thread, in every order within
    the bound), sequenced with flags in the order of the model's history"""
    import json
    out = []
    for cfg, methods in (("GenEventReg_raw.cfg", ("poll", "ppoll")), ("GenEventReg_kick.cfg", ("epoll",))):
        r = vlib.tlc("GenEventReg.tla", cfg, sc, workers=4, timeout=600)
        if r["violated"] or not r["complete"]:
            raise vlib.MachineryError("GenEventReg/%s: violated=%s complete=%s\n%s" % (cfg, r["violated"], r["complete"], r["out"][-1500:]))
        hists = sorted(set(vlib.printed(r["out"], "GEN")))
        step = 3 if tier == "quick" else 1
        for i in range(seed % step, len(hists), step):
            h = json.loads(hists[i])
            L, faults = ["O ev 1", "O ev 2", "S spawn 1"], []
            count, nfirst, flag = 0, 0, 2
            for x in h:
                if x["op"] == "reg":
                    if count == 0:
                        nfirst += 1
                        if not x["ok"]:
                            faults.append("F eventfd2 %d EMFILE 0" % nfirst)
                    L.append("S ev_reg %s" % x["e"])
                    count += 1 if x["ok"] else 0
                elif x["op"] == "unreg":
                    L.append("S ev_unreg %s" % x["e"])
                    count -= 1
                else:
                    L += ["S set_flag %d" % flag, "T 1 wait_flag %d" % flag, "T 1 ev_post %s" % x["e"],
                          "T 1 set_flag %d" % (flag + 1), "S wait_flag %d" % (flag + 1)]
                    flag += 2
            for m in methods:
                out.append(mk("%sg.%s.%d.%s" % (tag, cfg[12:-4], i, m), L, m, det=0, seed=1 + i, faults=faults, sticky=3))
    return out


def raw_scenarios():
    S = {}
    S["1p2"] = ["O raw 1", "S raw_reg 1", "S spawn 1", "T 1 raw_post 1", "T 1 raw_post 1"]
    S["2p"] = ["O raw 1", "O raw 2", "S raw_reg 1", "S raw_reg 2", "S spawn 1", "S spawn 2",
               "T 1 raw_post 1", "T 1 raw_post 2", "T 2 raw_post 2", "T 2 raw_post 1"]
    S["in-handler"] = ["O raw 1", "S raw_reg 1", "S spawn 1", "S raw_post 1", "T 1 raw_post 1", "T 1 yield", "T 1 raw_post 1",
                       "R raw 1 0 1 raw_post 1", "R raw 1 0 2 yield"]
    S["burst"] = ["O raw 1", "O raw 2", "S raw_reg 1", "S raw_reg 2", "S spawn 1", "T 1 raw_burst 1 70000", "T 1 raw_post 2",
                  "T 1 raw_post 1"]
    S["sigctx"] = ["O raw 1", "O raw 2", "S raw_reg 1", "S raw_reg 2", "S spawn 1", "T 1 sigpost 10 1 0", "T 1 raw_post 2", "T 1 sigpost 10 2 1",
                   "R raw 1 0 1 sigpost 10 1 0", "R raw 2 0 1 childpost 1"]
    S["unreg"] = ["O raw 1", "O raw 2", "S raw_reg 1", "S raw_reg 2", "S spawn 1", "S raw_post 2", "T 1 raw_post 1", "T 1 raw_post 1",
                  "R raw 2 0 1 raw_unreg 1", "R raw 2 0 1 raw_reg 1", "R raw 1 0 1 raw_post 2"]
    # a burst larger than a pipe buffer posted by the owner itself (nobody drains meanwhile): never blocks
    S["burst-owner"] = ["O raw 1", "O raw 2", "S raw_reg 1", "S raw_reg 2", "S spawn 1", "S raw_burst 1 70000", "T 1 raw_post 2",
                        "R raw 2 0 1 raw_burst 1 70000", "R raw 2 0 1 raw_post 2"]
    # one thread unregisters (closes descriptors) while another registers (is handed descriptor numbers)
    S["close-race"] = ["O raw 1", "O raw 2", "S raw_reg 1", "S spawn 1", "T 1 iv_init", "T 1 raw_reg 2", "T 1 set_flag 2", "T 1 iv_main",
                       "T 1 iv_deinit", "S raw_unreg 1", "S wait_flag 2", "S raw_post 2", "R raw 2 0 1 raw_unreg 2"]
    return S


RAW_MODES = {"efd2": [], "efd": ["F eventfd2 1 EINVAL 1"], "pipe": ["F eventfd2 1 ENOSYS 1", "F eventfd 1 ENOSYS 1"]}


def mk(sid, body, method, sched="", det=1, seed=1, faults=(), sticky=None):
    hdr = "B %s method=%s seed=%d maxwait=60 det=%d" % (sid, method, seed, det)
    if any("sigpost" in l or "childpost" in l for l in body):
        hdr += " sigsim=1"
    if sched:
        hdr += " sched=" + sched
    if sticky is not None:
        hdr += " sticky=%d" % sticky
    return "\n".join([hdr] + list(body) + list(faults) + ["X"]) + "\n"


def preemptions(dec, upto, alt):
    """context switches away from a still enabled thread in dec[:upto]+[alt]"""
    n, prev = 0, 0
    seq = [d[0] for d in dec[:upto]] + [alt]
    masks = [d[1] for d in dec[:upto + 1]]
    for i, c in enumerate(seq):
        if c != prev and (masks[i] >> prev) & 1:
            n += 1
        prev = c
    return n


def enumerate_schedules(exe, sc, name, body, method, faults, budget, tag):
    """iterative context bounding over the schedules of one scenario.
    Returns (scripts run, trace files, #distinct schedules)."""
    mname = method.split()[0]        # `method` may carry further header options
    frontier = [(0, "")]
    seen = {""}
    scripts, tfs = [], []
    rounds = 0
    while frontier and len(scripts) < budget:
        frontier.sort()
        batch, frontier = frontier[:min(256, budget - len(scripts))], frontier[min(256, budget - len(scripts)):]
        bs = []
        for i, (_pc, pre) in enumerate(batch):
            sid = "%s.%s.%s.%d" % (tag, name, mname, len(scripts) + i)
            bs.append(mk(sid, body, method, pre, det=1, faults=faults))
        t = corerun.run_scripts(exe, bs, sc, tag="%s-%s-%s-%d" % (tag, name, mname, rounds))
        rounds += 1
        scripts += bs
        tfs += t
        # read the decisions back
        decs = {}
        for tf in t:
            sid = None
            for ln in open(tf):
                if '"e":"Reset"' in ln:
                    sid = json.loads(ln)["id"]
                elif '"e":"Dec"' in ln:
                    decs[sid] = json.loads(ln)["d"]
        for i, (_pc, pre) in enumerate(batch):
            sid = "%s.%s.%s.%d" % (tag, name, mname, len(scripts) - len(bs) + i)
            d = decs.get(sid, [])
            for j in range(len(pre), len(d)):
                chosen, mask = d[j]
                for alt in range(10):
                    if (mask >> alt) & 1 and alt != chosen:
                        npre = "".join(str(x[0]) for x in d[:j]) + str(alt)
                        if npre not in seen:
                            seen.add(npre)
                            frontier.append((preemptions(d, j, alt), npre))
    return scripts, tfs, len(seen), not frontier


def random_mt_script(rnd, sid, kind, method, faults):
    """larger random scenario: posters, handlers that post/unregister, random schedule"""
    L = []
    nev = rnd.randint(1, 3)
    k = "ev" if kind == "C08" else "raw"
    for i in range(1, nev + 1):
        L.append("O %s %d" % (k, i))
        L.append("S %s_reg %d" % (k, i))
    if kind == "C08" and rnd.random() < 0.5:
        L += ["O tk 1", "S tk_reg 1", "R tk 1 0 1 %s_post %d" % (k, rnd.randint(1, nev))]
    nth = rnd.randint(1, 3)
    for t in range(1, nth + 1):
        L.append("S spawn %d" % t)
        for _ in range(rnd.randint(1, 4)):
            c = rnd.random()
            if c < 0.15:
                L.append("T %d yield" % t)
            elif c < 0.22 and k == "raw":
                L.append("T %d raw_burst %d %d" % (t, rnd.randint(1, nev), rnd.choice([10, 1100, 70000])))
            elif c < 0.32 and k == "raw":
                L.append("T %d sigpost 10 %d %d" % (t, rnd.randint(1, nev), rnd.choice([0, t])))
            elif c < 0.38 and k == "raw":
                L.append("T %d childpost %d" % (t, rnd.randint(1, nev)))
            else:
                L.append("T %d %s_post %d" % (t, k, rnd.randint(1, nev)))
    for i in range(1, nev + 1):
        for occ in (1, 2, 0):
            if rnd.random() < 0.5:
                c = rnd.random()
                o = rnd.randint(1, nev)
                if c < 0.5:
                    L.append("R %s %d 0 %d %s_post %d" % (k, i, occ, k, o))
                elif c < 0.7 and occ:
                    L.append("R %s %d 0 %d %s_unreg %d" % (k, i, occ, k, o))
                    if rnd.random() < 0.5:
                        L.append("R %s %d 0 %d %s_reg %d" % (k, i, occ, k, o))
                elif c < 0.8:
                    L.append("R %s %d 0 %d yield" % (k, i, occ))
                else:
                    L.append("R %s %d 0 %d slow 0 1000" % (k, i, occ))
    return mk(sid, L, method, det=0, seed=rnd.randint(1, 1 << 30), faults=faults, sticky=rnd.choice([0, 1, 3, 8]))


def run(pid, tier, seed, replay=None):
    rep = vlib.Report(pid, tier, seed)
    exe = corerun.build_core("plain")
    rnd = random.Random(seed)
    with vlib.Scratch("verif-" + pid) as sc:
        # ---- model checking
        mcs = ([("IvEvent.tla", c) for c in ("MC_Event_kick.cfg", "MC_Event_raw.cfg", "MC_Event_live.cfg")] +
               [("IvEventReg.tla", c) for c in ("MC_EventReg_raw.cfg", "MC_EventReg_kick.cfg")]) if pid == "C08" \
            else [("IvRaw.tla", c) for c in ("MC_Raw_eventfd.cfg", "MC_Raw_pipe.cfg")]
        import concurrent.futures as cf
        mcpool = cf.ThreadPoolExecutor(len(mcs))
        mcfut = [mcpool.submit(vlib.tlc, mod, cfg, sc, workers=max(2, vlib.NCPU // 2), timeout=900, coverage=True) for mod, cfg in mcs]

        def collect_mc():
            states = trans = 0
            runs, covall = [], {}
            for (mod, cfg), fu in zip(mcs, mcfut):
                r = fu.result()
                if r["violated"] or not r["complete"]:
                    raise vlib.MachineryError("model %s/%s: violated=%s complete=%s\n%s" % (mod, cfg, r["violated"], r["complete"], r["out"][-2000:]))
                for a, (taken, gen_) in vlib.tlc_coverage(r["out"]).items():
                    covall[a] = covall.get(a, 0) + max(taken, gen_)
                states += r["distinct"]
                trans += r["generated"]
                runs.append({"module": mod, "cfg": cfg, "distinct": r["distinct"], "generated": r["generated"], "depth": r["depth"]})
            dead = [a for a, taken in covall.items() if taken == 0]
            if dead:
                raise vlib.MachineryError("model actions never taken in any configuration: %s" % dead)
            return states, trans, runs
        # ---- real executions
        scripts, tfs = [], []
        exhaustive_scen = []
        if replay:
            scripts = [vlib.read(replay)]
            tfs = corerun.run_scripts(exe, scripts, sc, tag="replay")
        else:
            budget = 256 if tier == "quick" else 1500
            if pid == "C08":
                combos = [(n, b, m, []) for n, b in ev_scenarios().items() for m in ("epoll", "poll")]
                if tier == "thorough":
                    combos += [(n, b, m, []) for n, b in ev_scenarios().items() for m in ("epoll-timerfd", "ppoll")]
            else:
                combos = [(n + "-" + mode, b, m, f) for n, b in raw_scenarios().items()
                          for mode, f in RAW_MODES.items() for m in (("epoll", "poll") if tier == "thorough" else ("epoll",))]
            fs = EV_FAULT_SCEN if pid == "C08" else RAW_FAULT_SCEN
            combos += [(n, b, m, f) for n, (b, f, ms) in fs.items() for m in ms]
            for name, body, method, faults in combos:
                s, t, nsched, complete = enumerate_schedules(exe, sc, name, body, method, faults, budget, pid + "e")
                scripts += s
                tfs += t
                if complete:
                    exhaustive_scen.append("%s/%s" % (name, method))
            if pid == "C08":
                gs = eventreg_scripts(sc, tier, seed, "C08")
                scripts += gs
                tfs += corerun.run_scripts(exe, gs, sc, tag="genreg")
            nrand = 400 if tier == "quick" else 3000
            rs = []
            for i in range(nrand):
                method = rnd.choice(["epoll", "epoll-timerfd", "poll", "ppoll"])
                faults = rnd.choice(list(RAW_MODES.values())) if pid == "C09" else (rnd.choice(list(RAW_MODES.values())) if method in ("poll", "ppoll") and rnd.random() < 0.3 else [])
                rs.append(random_mt_script(rnd, "%sr%d.%d" % (pid, seed, i), pid, method, faults))
            scripts += rs
            tfs += corerun.run_scripts(exe, rs, sc, tag="rand")
        idx = corerun.script_index(scripts)
        verdicts, nev = vlib.validate_traces(tfs, sc)
        states, trans, runs = collect_mc()
        if len(verdicts) != len(scripts):
            raise vlib.MachineryError("%d scripts but %d verdicts" % (len(scripts), len(verdicts)))
        bad = collections.OrderedDict()
        nontrivial = set()
        seen_rules = collections.Counter()
        for v in verdicts:
            for s in v["seen"]:
                if s.startswith(pid):
                    seen_rules[s] += 1
                    nontrivial.add(vlib.sha(idx[v["id"]])[:16])
            for r in v["viols"]:
                if r.startswith(pid) or r in ("C18:crash", "C07:hang-real", "C07:spin"):   # (a loop that spins delivers nothing)
                    bad.setdefault(v["id"], []).append(r if r.startswith(pid) else pid + ":" + r.split(":")[1])
        pick = list(bad)[:12]
        if pick:
            tf2 = corerun.run_scripts(exe, [idx[s] for s in pick], sc, tag="confirm")
            v2, _ = vlib.validate_traces(tf2, sc)
            again = {v["id"]: set(v["viols"]) for v in v2}
            for sid in pick:
                for r in bad[sid]:
                    if r in again.get(sid, ()) or (pid + ":" + "x") and any(a.split(":")[1] == r.split(":")[1] for a in again.get(sid, ())):
                        rep.violation(r, vlib.save_replay_text(pid, idx[sid]), "script %s" % sid)
        rep.add(evaluations=len(scripts), distinct_nontrivial=len(nontrivial), traces_validated_against_impl=len(verdicts),
                trace_events=nev, states=states + nev, transitions=trans + nev, model_checks=runs,
                schedules_exhausted=exhaustive_scen, rules_exercised=dict(seen_rules),
                ends=dict(collections.Counter(v["why"] for v in verdicts)),
                rule="executions = (scenario, poll method/transport, schedule): schedules of the small scenarios are enumerated by "
                     "iterative context bounding under the baton scheduler (listed under schedules_exhausted when the enumeration "
                     "completed), plus seeded random scenarios with random schedules; non-trivial = distinct script in which a "
                     "rule of this property had its antecedent satisfied (a post was made / a handler ran)",
                exhaustive=False)
        if scripts:
            rep.sample({"script": scripts[0].splitlines()})
            rep.sample({"script": scripts[-1].splitlines()})
        need = {"C08": ["C08:lost", "C08:over", "C08:wrong-thread"], "C09": ["C09:lost", "C09:wrong-thread"]}[pid]
        vac = [r for r in need if seen_rules[r] == 0]
        if vac and not replay and not rep.viol:
            raise vlib.MachineryError("vacuous run: rules never exercised: %s" % vac)
    rep.assumptions += [
        "threads run under the baton scheduler (harness/simk.c): context switches only at synchronisation operations and at writes/epoll_ctl on wake-up descriptors",
        "schedule enumeration is bounded by a run budget, ordered by number of preemptions",
        "TLC evaluates spec/MonCore.tla (C08/C09 rules) on every recorded execution; IvEvent.tla / IvRaw.tla are model-checked exhaustively for the listed constants"]
    return rep.finish()
