--------------------------- MODULE MC_SignalFork ---------------------------
(* model-checking instance of IvSignalFork: the interests of MC_Signal *)
EXTENDS IvSignalFork
IntsDef == {1, 2, 3, 4}
OwnerDef == [i \in IntsDef |-> IF i >= 3 THEN 1 ELSE 0]
ExclDef == [i \in IntsDef |-> i \in {1, 4}]
ThisThrDef == [i \in IntsDef |-> i \in {2, 4}]
=============================================================================
