#!/usr/bin/env python3
"""C05, the timer store itself (binary heap in a radix tree, src/iv_timer.c):

  1. model checking of spec/IvTimerHeap.tla (MC_TimerHeap: every register /
     unregister / run-timers history modulo renaming of timers, SplitBits 1
     and 2), with an account of the code paths taken by the transitions;
  2. LOCK-STEP of the model (SplitBits = 7) against the real library on
     populations up to ~300 timers (crossing the 128 boundary both ways):
     harness/ivh_theap.c logs a projection of the real store after every
     operation, spec/TraceTimerHeap.tla must reproduce it;
  3. MONITOR at scale: histories that grow to ~2 000 (quick) / ~17 000
     (thorough) timers and shrink again (crossing 128 and 16 384 both ways),
     only observable events are logged and TLC evaluates the C05 monitor.

run_heap(tier, seed, scratch, rep) adds its numbers to the vlib.Report of the
C05 check and reports violations through it.  Verdict policy (DESIGN 3.3):
only monitor rules evaluated on executions of the real code are violations;
a lock-step mismatch on a structure that is itself in order is DRIFT (warning
and evidence entry); everything else is a MachineryError."""
import collections
import concurrent.futures as cf
import json
import os
import random
import re
import subprocess
import sys
import time
import uuid

sys.path.insert(0, os.path.dirname(os.path.abspath(__file__)))
import vlib

RULES = ["C05:order", "C05:missed", "C05:phantom", "C05:independent", "C05:heap",
         "C05:fatal", "C04:early", "C04:twice"]
# paths of the model that the exhaustive runs must have taken (vacuity guard)
MC_REQUIRED = [("Reg", "grow"), ("Reg", "alloc"), ("Reg", "plain"), ("Reg", "up"), ("Reg", "stay"),
               ("Unreg", "last"), ("Unreg", "up"), ("Unreg", "down"), ("Unreg", "stay"),
               ("Unreg", "level"), ("Unreg", "nolevel"), ("Unreg", "up+level"), ("Unreg", "last+level"),
               ("Fire", "pop")]
MAX_LINES = 50000


def build(kind="plain"):
    return vlib.build_harness("ivh_theap", ["ivh_theap.c"], kind, wraps=["clock_gettime"])


# ------------------------------------------------------------------ model checking
class _Sub:
    """scratch wrapper that keeps the TLC metadirs of concurrent threads apart"""

    def __init__(self, sc):
        self.sc, self.tag = sc, uuid.uuid4().hex[:8]

    def sub(self, name):
        return self.sc.sub("mc-%s-%s" % (self.tag, name))


def _jenv(sc, **kw):
    """TLC unpacks its standard modules into java.io.tmpdir and leaves them there: keep that
    inside the scratch directory"""
    kw["JAVA_TOOL_OPTIONS"] = "-Djava.io.tmpdir=" + sc.sub("jtmp")
    return kw


def _mc_one(cfg, sc, workers, timeout):
    r = vlib.tlc("MC_TimerHeap.tla", cfg, _Sub(sc), workers=workers, timeout=timeout, xmx="4g", env=_jenv(sc))
    cov = collections.Counter()
    for ln in vlib.printed(r["out"], "COV"):          # "COV <op> <class1> <class2>" per transition
        op, c1, c2 = ln.split()
        for c in (c1, c2, c1 + "+" + c2):
            cov[(op, c)] += 1
    out = "\n".join(x for x in r["out"].splitlines() if "COV " not in x)
    return {"cfg": cfg, "states": r["distinct"], "transitions": r["generated"], "depth": r["depth"],
            "complete": r["complete"], "violated": r["violated"], "wall_s": round(r["wall_s"], 1),
            "cov": cov, "out": out}


def start_mc(tier, sc, pool):
    """submit the MC runs; returns futures"""
    jobs = [("MC_TimerHeap_sb1_quick.cfg", 4, 600), ("MC_TimerHeap_sb2_quick.cfg", 4, 600)]
    if tier == "thorough":
        jobs += [("MC_TimerHeap_sb1_thorough.cfg", 5, 780), ("MC_TimerHeap_sb2_thorough.cfg", 3, 780),
                 ("MC_TimerHeap_sb1_deep.cfg", 3, 780), ("MC_TimerHeap_sb2_deep.cfg", 3, 780)]
    return [pool.submit(_mc_one, cfg, sc, w, to) for cfg, w, to in jobs]


def finish_mc(futs, rep):
    states = trans = 0
    cov = collections.Counter()
    runs = []
    for f in futs:
        r = f.result()
        if r["violated"]:
            raise vlib.MachineryError(
                "the model of the timer store (spec/IvTimerHeap.tla, %s) violates %s: either the "
                "transcription or the algorithm is wrong\n%s" % (r["cfg"], r["violated"], r["out"][-4000:]))
        if not r["complete"] and "quick" in r["cfg"]:
            raise vlib.MachineryError("MC %s did not complete:\n%s" % (r["cfg"], r["out"][-2000:]))
        states += r["states"]
        trans += r["transitions"]
        cov.update(r["cov"])
        runs.append({k: r[k] for k in ("cfg", "states", "transitions", "depth", "complete", "wall_s")})
    missing = [k for k in MC_REQUIRED if cov[k] == 0]
    if missing:
        raise vlib.MachineryError("MC_TimerHeap: paths never taken (vacuous model check): %s" % missing)
    rep.add(heap_mc_runs=runs,
            heap_mc_paths={"%s:%s" % k: v for k, v in sorted(cov.items())})
    return states, trans


# ------------------------------------------------------------------ scripts
def lock_script(sid, rnd, small=False):
    """population <= ~300, crossing 128 in both directions; maxid 320"""
    seed = rnd.randrange(1, 2 ** 31)
    lo, hi = rnd.choice([(0, 12), (0, 300), (0, 100000), (500, 560)])
    third = (hi - lo) // 3
    L = ["S %s lock %d %d" % (sid, 24 if small else 320, seed)]
    if small:
        t = lo
        for _ in range(rnd.randint(4, 9)):
            L.append("P %d 5 2 1 1 2 2 1 %d %d" % (rnd.randint(5, 30), lo, hi))
            t += rnd.randint(0, max(1, (hi - lo) // 3))
            L.append("F %d %d" % (t, rnd.choice([0, 50, 90])))
        L += ["F %d 50" % (hi + 200), "E"]
        return "\n".join(L) + "\n"
    up = rnd.randint(135, 300)
    L.append("G %d %d %d %d" % (up, rnd.choice([0, 10, 30]), lo, hi))          # crosses 128 upwards
    L.append("P 60 3 1 1 1 2 2 1 %d %d" % (lo, hi))
    L.append("F %d %d" % (lo + third // rnd.choice([1, 2, 4]), rnd.choice([0, 30, 60])))
    L.append("G 129 0 %d %d" % (lo, hi))
    L.append("D 128 %d %d %d" % (rnd.choice([0, 15]), lo, hi))                 # down to the boundary
    L.append("P %d 4 1 1 1 2 1 1 %d %d" % (rnd.randint(80, 160), lo, hi))      # hover across it
    L.append("D %d 10 %d %d" % (rnd.randint(3, 100), lo, hi))
    L.append("G %d 20 %d %d" % (rnd.randint(129, 200), lo, hi))                # and up again
    L.append("F %d %d" % (lo + 2 * third, rnd.choice([0, 20, 50])))
    L.append("G 129 5 %d %d" % (lo, hi))
    L.append("F %d %d" % (hi + 100, rnd.choice([0, 10, 40])))                  # cross 128 by firing
    L.append("F %d 0" % (hi + 400))
    L.append("E")
    return "\n".join(L) + "\n"


def mon_script(sid, rnd, size, maxid=None):
    """population up to `size`, crossing 128 (and 16384 if size allows) both ways"""
    seed = rnd.randrange(1, 2 ** 31)
    maxid = maxid or min(19900, size + size // 6 + 200)
    lo, hi = rnd.choice([(0, 4 * size), (0, 250), (0, 400000), (1000, 1000 + size // 2)])
    q = (hi - lo) // 4
    big = size > 16384 + 200
    L = ["S %s mon %d %d" % (sid, maxid, seed)]
    L.append("G 128 %d %d %d" % (rnd.choice([0, 20]), lo, hi))
    L.append("P 200 4 1 1 1 2 1 1 %d %d" % (lo, hi))                           # hover at 128
    if big:
        L.append("G 16384 %d %d %d" % (rnd.choice([2, 6]), lo, hi))
        L.append("P 500 4 1 1 1 2 1 1 %d %d" % (lo, hi))                       # hover at 16384
    L.append("G %d %d %d %d" % (size, rnd.choice([3, 8]), lo, hi))
    L.append("F %d %d" % (lo + q // rnd.choice([1, 2]), rnd.choice([0, 3, 10])))   # a big round
    if big:
        L.append("G 16700 4 %d %d" % (lo, hi))
        if rnd.random() < 0.5:
            L.append("D 16384 %d %d %d" % (rnd.choice([0, 5]), lo, hi))
            L.append("P 500 4 1 1 1 2 1 1 %d %d" % (lo, hi))
        else:
            L.append("F %d %d" % (lo + 2 * q, rnd.choice([0, 2])))             # cross 16384 by firing
    L.append("D %d %d %d %d" % (max(400, size // 3), rnd.choice([0, 5]), lo, hi))
    L.append("F %d %d" % (lo + 3 * q, rnd.choice([0, 5, 20])))
    L.append("G 129 0 %d %d" % (lo, hi))
    L.append("D 128 %d %d %d" % (rnd.choice([0, 5]), lo, hi))
    L.append("P 300 4 1 1 1 2 1 1 %d %d" % (lo, hi))
    if rnd.random() < 0.5:
        L.append("D 0 0 %d %d" % (lo, hi))
    L.append("F %d %d" % (hi + 500, rnd.choice([0, 5])))
    L.append("F %d 0" % (hi + 1000))
    L.append("E")
    return "\n".join(L) + "\n"


def gen_scripts(tier, rnd):
    lock, mon = [], []
    nlock, nsmall = (8, 6) if tier == "quick" else (64, 48)
    for i in range(nlock):
        lock.append(lock_script("L%d" % i, rnd))
    for i in range(nsmall):
        lock.append(lock_script("S%d" % i, rnd, small=True))
    if tier == "quick":
        for i in range(8):
            mon.append((mon_script("M%d" % i, rnd, 2000), 2000))
    else:
        for i in range(10):
            mon.append((mon_script("B%d" % i, rnd, 17000), 17000))
        for i in range(24):
            mon.append((mon_script("M%d" % i, rnd, rnd.choice([600, 2000, 5000]), maxid=6000), 5000))
    return lock, mon


# ------------------------------------------------------------------ execution
def run_harness(exe, groups, sc, tag):
    """groups: list of lists of script texts; one harness run + trace file per group"""
    d = sc.sub(tag)
    jobs = []
    for i, g in enumerate(groups):
        sp, tp = os.path.join(d, "s%d.scr" % i), os.path.join(d, "t%d.ndjson" % i)
        with open(sp, "w") as f:
            f.write("".join(g))
        jobs.append((sp, tp))

    def one(j):
        sp, tp = j
        r = subprocess.run([exe, "-i", sp, "-o", tp], stdout=subprocess.PIPE, stderr=subprocess.STDOUT,
                           text=True, timeout=1800)
        if r.returncode != 0:
            raise vlib.MachineryError("ivh_theap failed on %s: rc=%d\n%s" % (sp, r.returncode, r.stdout[-2000:]))
        return tp
    return vlib.parallel(one, jobs)


def split_traces(tfs, sc, tag):
    """keep every TLC run below MAX_LINES lines by cutting trace files at Reset records"""
    res = []
    d = sc.sub(tag)
    k = 0
    for tf in tfs:
        cur, curlines = [], 0
        block = []
        with open(tf) as f:
            lines = f.readlines()
        blocks = []
        for ln in lines:
            if ln.startswith('{"e":"Reset"') and block:
                blocks.append(block)
                block = []
            block.append(ln)
        if block:
            blocks.append(block)
        if len(lines) <= MAX_LINES or len(blocks) == 1:
            res.append(tf)
            continue
        for b in blocks + [None]:
            if b is None or (cur and curlines + len(b) > MAX_LINES):
                p = os.path.join(d, "p%d.ndjson" % k)
                k += 1
                with open(p, "w") as f:
                    f.writelines(x for bb in cur for x in bb)
                res.append(p)
                cur, curlines = [], 0
            if b is not None:
                cur.append(b)
                curlines += len(b)
    return res


def validate(tfs, sc):
    """TLC trace validation, one JVM per file, in parallel; acceptance = every line consumed
    (distinct states = lines + 1).  Same contract as vlib.validate_traces, but every run gets
    its own metadir (vlib.tlc numbers them with a counter that concurrent threads can read
    twice)."""
    def one(tf):
        nlines = sum(1 for _ in open(tf))
        if nlines == 0:
            return [], 0
        r = vlib.tlc("TraceTimerHeap.tla", "TraceTimerHeap.cfg", _Sub(sc), workers=1, env=_jenv(sc, TRACE=tf),
                     timeout=1500, xmx="3g")
        if r["distinct"] != nlines + 1 or r["violated"]:
            raise vlib.MachineryError("trace %s not fully consumed: %d lines, %d states, violated=%s\n%s" %
                                      (tf, nlines, r["distinct"], r["violated"], r["out"][-3000:]))
        vs = []
        for s in vlib.printed(r["out"], "VERDICT"):
            v = json.loads(s)
            v["file"] = tf
            vs.append(v)
        return vs, nlines
    res = vlib.parallel(one, tfs)
    return [v for vs, _n in res for v in vs], sum(n for _vs, n in res)


def group(scripts, per):
    return [scripts[i:i + per] for i in range(0, len(scripts), per)]


def sid_of(script):
    return script.split("\n", 1)[0].split()[1]


def trace_to_script(tf, sid):
    """the exact history of execution `sid` in trace file tf as an explicit script
    (R/U/H/F lines), i.e. independent of the harness's random choices"""
    out, on, pend = [], False, []
    for ln in open(tf):
        e = json.loads(ln)
        if e["e"] == "Reset":
            on = e["id"] == sid
            if on:
                out.append("S %s-x %s %d 1" % (sid, e["mode"], e["maxid"]))
            continue
        if not on:
            continue
        k = e["e"]
        if k == "RB":
            pend = ["F %d 0" % e["T"]]
        elif k == "RE":
            out += pend
            pend = []
        elif k in ("Reg", "Unreg"):
            op = ("R %d %d" % (e["id"], e["x"])) if k == "Reg" else ("U %d" % e["id"])
            if e.get("in", 0):
                pend.insert(len(pend) - 1, "H %d %s" % (e["in"], op))
            else:
                out.append(op)
        elif k == "End":
            out += pend
    out.append("E")
    return "\n".join(out) + "\n"


def run_heap(tier, seed, scratch, rep, mc=True):
    t0 = time.time()
    rnd = random.Random("c05heap/%s/%s" % (tier, seed))
    pool = cf.ThreadPoolExecutor(6)
    try:
        mcf = start_mc(tier, scratch, pool) if mc else []
        exe = build("plain")
        lock, mon = gen_scripts(tier, rnd)
        idx = {sid_of(s): s for s in lock}
        idx.update({sid_of(s): s for s, _ in mon})
        # lock-step traces: a few scripts per JVM; monitor traces: one big history or several small per JVM
        per = 2 if tier == "quick" else 4      # one id range per file (TraceTimerHeap!MaxId)
        lgroups = group([s for s in lock if sid_of(s)[0] == "L"], per) + \
            group([s for s in lock if sid_of(s)[0] == "S"], per)
        big = [[s] for s, sz in mon if sz > 16384]
        small = group([s for s, sz in mon if sz <= 16384], 4)
        ltf = run_harness(exe, lgroups, scratch, "lock")
        mtf = split_traces(run_harness(exe, big + small, scratch, "mon"), scratch, "monsplit")
        t1 = time.time()
        verdicts, nev = validate(ltf + mtf, scratch)
        t2 = time.time()
        if len(verdicts) != len(idx):
            raise vlib.MachineryError("C05 heap: %d scripts but %d verdicts" % (len(idx), len(verdicts)))
        seen = collections.Counter()
        bad = collections.OrderedDict()
        drift = []
        lock_ops = mon_events = fires = 0
        for v in verdicts:
            for s in v["seen"]:
                seen[s] += 1
            fires += v["fires"]
            if v["id"][0] in "LS":
                lock_ops += v["steps"]
                if v["drift"] and "C05:heap" not in v["viols"]:
                    drift.append({"script": v["id"], "line": v["drift"]})
            else:
                mon_events += v["ops"] + v["fires"]
            for r in v["viols"]:
                bad.setdefault(v["id"], []).append(r)
        # confirm on a second run of exactly that script (at most 8 scripts, every rule at least once)
        pick, rules = [], set()
        for s, rs in bad.items():
            if len(pick) < 8 or any(r not in rules for r in rs):
                pick.append(s)
                rules.update(rs)
            if len(pick) >= 16:
                break
        if pick:
            tf2 = split_traces(run_harness(exe, [[idx[s]] for s in pick], scratch, "confirm"), scratch, "confsplit")
            v2, _ = validate(tf2, scratch)
            again = {v["id"]: v for v in v2}
            for s in pick:
                for r in bad[s]:
                    a = again.get(s)
                    if a is None or r not in a["viols"]:
                        continue
                    p = vlib.save_replay_text("C05", idx[s], ext="theap")
                    try:
                        hist = trace_to_script(a["file"], s)
                        hp = vlib.save_replay_text("C05", hist, ext="theap-history")
                    except Exception:
                        hp = "-"
                    rep.violation(r, p, "timer store script %s (end: %s; exact history: %s)" % (s, a["why"], hp))
        for d in drift[:20]:
            vlib.log("DRIFT property=C05 timer store: the code no longer follows spec/IvTimerHeap.tla "
                     "(script %s, trace line %d); the structure itself is in order" % (d["script"], d["line"]))
        vac = [r for r in RULES if seen[r] == 0]
        if vac and not rep.viol:        # (executions that end in a violation may exercise little)
            raise vlib.MachineryError("C05 heap: vacuous run, rules never exercised: %s" % vac)
        if lock_ops == 0 and not bad:
            raise vlib.MachineryError("C05 heap: no operation was lock-stepped")
        mst, mtr = finish_mc(mcf, rep) if mc else (0, 0)
        rep.add(states=mst + nev + len(ltf + mtf), transitions=mtr + nev,
                traces_validated_against_impl=len(verdicts), trace_events=nev,
                evaluations=len(verdicts),
                heap_lockstep_ops=lock_ops, heap_monitored_events=mon_events, heap_fires=fires,
                heap_trace_lines=nev, heap_scripts=len(verdicts),
                heap_max_population=17000 if tier == "thorough" else 2000,
                heap_rules_exercised=dict(seen), heap_drift=drift[:20],
                heap_ends=dict(collections.Counter(v["why"] for v in verdicts)),
                heap_wall_s={"harness": round(t1 - t0, 1), "tlc_traces": round(t2 - t1, 1),
                             "total": round(time.time() - t0, 1)})
        rep.sample({"timer_store_script": lock[0].splitlines()})
        rep.sample({"timer_store_verdict": {k: verdicts[0][k] for k in ("id", "why", "viols", "drift", "steps")}})
        rep.assumptions += [
            "timer store: the projection of the real heap is read through src/iv_private.h by harness/ivh_theap.c "
            "(no allocation); time is virtual (__wrap_clock_gettime), one iv_main() per fire phase",
            "MC_TimerHeap explores histories modulo renaming of timer identities (the algorithm never inspects them)"]
    finally:
        pool.shutdown(wait=True)


def replay(pid, path):
    """bin/check <C04|C05> --replay <file>.theap: one timer-store script through harness + TLC"""
    with vlib.Scratch("verif-%s-heapreplay" % pid) as sc:
        exe = build("plain")
        tfs = split_traces(run_harness(exe, [[vlib.read(path)]], sc, "replay"), sc, "rsplit")
        vs, _n = validate(tfs, sc)
        rc = 0
        for v in vs:
            for r in sorted(set(v["viols"])):
                print("VIOLATION property=%s replay=%s  # %s timer store script %s" % (pid, path, r, v.get("id")), flush=True)
                rc = 1
        return rc


def main():
    import argparse
    ap = argparse.ArgumentParser()
    ap.add_argument("--tier", default="quick", choices=["quick", "thorough"])
    ap.add_argument("--seed", type=int, default=int(os.environ.get("VERIF_SEED", "1") or 1))
    ap.add_argument("--no-mc", action="store_true", help="skip the model-checking runs (mutation testing)")
    ap.add_argument("--replay", default=None, help="run one script file through harness + TLC and print the verdicts")
    a = ap.parse_args()
    with vlib.Scratch("verif-C05heap") as sc:
        if "VERIF_EVID_DIR" not in os.environ:
            vlib.EVID = sc.sub("evidence")       # standalone runs never overwrite /verif/evidence
        if "VERIF_OUT_DIR" not in os.environ:
            vlib.OUT = os.path.join(vlib.VERIF, "out")
        try:
            if a.replay:
                exe = build("plain")
                tfs = split_traces(run_harness(exe, [[vlib.read(a.replay)]], sc, "replay"), sc, "rsplit")
                vs, n = validate(tfs, sc)
                for v in vs:
                    v.pop("file")
                    print(json.dumps(v, sort_keys=True))
                sys.exit(1 if any(v["viols"] for v in vs) else 0)
            rep = vlib.Report("C05", a.tier, a.seed)
            run_heap(a.tier, a.seed, sc, rep, mc=not a.no_mc)
            rc = rep.finish()
            ev = json.load(open(os.path.join(vlib.EVID, "C05.json")))
            c = ev["coverage"]
            print(json.dumps({k: c[k] for k in sorted(c) if k.startswith("heap_") or k in
                              ("states", "transitions", "traces_validated_against_impl")}, indent=1, sort_keys=True))
            print("exit", rc, "wall", ev["wall_s"])
            sys.exit(rc)
        except vlib.MachineryError as e:
            print("MACHINERY-ERROR property=C05: %s" % e, file=sys.stderr)
            sys.exit(2)


if __name__ == "__main__":
    main()
