--------------------------- MODULE GenPump ---------------------------
(* Script generation: the IvPump model with a history variable recording the
   environment's choices (stream length, flag, every read/splice, FIONREAD and
   write/splice result, when pump / destroy are called).  Every terminal state
   (pump destroyed) prints its history as "GEN <tokens>":
     B <mode> <relay> <L>;  P (pump call);  I<r> (input result);  N<v> (FIONREAD);
     O<r> (output result);  D (destroy)
   results: n > 0 bytes, 0 (EOF resp. write returned 0), -1 EAGAIN, -2 hard
   error, -3 EINTR.  In BFS this prints every environment program within the
   bound exactly once; with -simulate it prints random deep ones. *)
EXTENDS IvPump

CONSTANTS MaxCalls,    \* pump calls per script
          MaxIntr,     \* EINTR results per script
          MaxAgain     \* EAGAIN / FIONREAD=0 results per script (keeps BFS small)

VARIABLES hist, calls, nintr, nagain
gvars == <<p, ev, hist, calls, nintr, nagain>>

Tok(e) ==
  CASE e.e = "InitB" -> "B " \o e.mode \o " " \o ToString(e.relay) \o " " \o ToString(e.L) \o ";"
    [] e.e = "PumpB" -> "P;"
    [] e.e = "In" -> "I" \o ToString(e.r) \o ";"
    [] e.e = "Fion" -> "N" \o ToString(e.v) \o ";"
    [] e.e = "Out" -> "O" \o ToString(e.r) \o ";"
    [] e.e = "DestroyB" -> "D;"
    [] OTHER -> ""

IsIntr(e) == e.e \in {"In", "Out"} /\ e.r = -3
IsAgain(e) == e.e \in {"In", "Out"} /\ e.r = -1

Allowed(e) ==
  CASE e.e = "InitB" -> hist = ""
    [] e.e = "PumpB" -> calls < MaxCalls /\ p.fin # 2
    [] e.e = "DestroyB" -> p.pc = "failed" \/ p.fin = 2 \/ calls = MaxCalls
    [] e.e = "Done" -> FALSE
    [] IsIntr(e) -> nintr < MaxIntr
    [] IsAgain(e) -> nagain < MaxAgain
    [] OTHER -> TRUE

GInit == Init /\ hist = "" /\ calls = 0 /\ nintr = 0 /\ nagain = 0

GNext == /\ Next
         /\ Allowed(ev')
         /\ hist' = hist \o Tok(ev')
         /\ calls' = IF ev'.e = "PumpB" THEN calls + 1 ELSE calls
         /\ nintr' = IF IsIntr(ev') THEN nintr + 1 ELSE nintr
         /\ nagain' = IF IsAgain(ev') THEN nagain + 1 ELSE nagain

GSpec == GInit /\ [][GNext]_gvars

Terminal == p.pc = "idle" /\ hist # ""
Emit == Terminal => PrintT("GEN " \o hist)
=============================================================================
