"""Source mutations of the timer store (src/iv_timer.c) for the binding
demonstration of the C05 heap checks (lib/check_c05heap.py); same format as
lib/mutations.py, applied by bin/mut-test to a scratch copy via VERIF_REPO.

Every mutation is a single site, compiles, and - checked by building the
mutated tree and running `make -C test check` - passes the repository's own 11
tests (they register timers in sorted order and only ever remove the root).
`benign: True` marks changes that keep every observable behaviour: they must
raise no alarm (some of them change the internal layout, which shows up as
DRIFT of the lock-step, a warning).  `rule` is the rule that reports it first
in the quick tier."""
MUTATIONS = [
 # interior removal: the element moved into the hole may have to move towards the root
 dict(name="theap-unreg-no-pullup", props=["C05"], rule="C05:heap",
      edits=[("iv_timer.c",
              "\t\t\tpull_up(st, (*p)->index, p);\n\t\t\tpush_down(st, (*p)->index, p);",
              "\t\t\tpush_down(st, (*p)->index, p);")]),
 # sift-up leaves the demoted parent with its old back-index
 dict(name="theap-pullup-stale-index", props=["C05"], rule="C05:heap",
      edits=[("iv_timer.c",
              "\t\t(*i)->index = index;\n\t\t(*p)->index = parent;\n\n\t\tindex = parent;\n\t\ti = p;",
              "\t\t(*p)->index = parent;\n\n\t\tindex = parent;\n\t\ti = p;")]),
 # sift-up never replaces the root
 dict(name="theap-pullup-stops-below-root", props=["C05"], rule="C05:heap",
      edits=[("iv_timer.c", "\twhile (index != 1) {", "\twhile (index > 3) {")]),
 # sift-up computes the parent of a right child as if the heap were rounded up
 dict(name="theap-pullup-wrong-parent", props=["C05"], rule="C05:heap",
      edits=[("iv_timer.c", "\t\tparent = index / 2;", "\t\tparent = (index + 1) / 2;")]),
 # the vacated last slot keeps its pointer (the `p[1] &&` test then sees a phantom child)
 dict(name="theap-unreg-keeps-last-slot", props=["C05"], rule="C05:heap",
      edits=[("iv_timer.c", "\t\t(*p)->index = t->index;\n\t\t*m = NULL;\n", "\t\t(*p)->index = t->index;\n")]),
 # fast path for "the victim is the last slot" decrements first: the level test then sees
 # num_timers - 1, i.e. the level goes one entry early (and the live slot 2^k with it)
 dict(name="theap-level-removed-early-interior", props=["C05"], rule="C05:fatal",
      edits=[("iv_timer.c",
              "\t\t    st->num_timers == (1 << (st->rat_depth *\n\t\t\t\t\t     IV_TIMER_SPLIT_BITS))) {",
              "\t\t    st->num_timers - (p == m) == (1 << (st->rat_depth *\n\t\t\t\t\t     IV_TIMER_SPLIT_BITS))) {")]),
 # after an interior removal the replacement is only ever sifted up (down only at the root)
 dict(name="theap-unreg-no-pushdown-interior", props=["C05"], rule="C05:heap",
      edits=[("iv_timer.c",
              "\t\t\tpull_up(st, (*p)->index, p);\n\t\t\tpush_down(st, (*p)->index, p);",
              "\t\t\tpull_up(st, (*p)->index, p);\n\t\t\tif ((*p)->index == 1)\n\t\t\t\tpush_down(st, (*p)->index, p);")]),
 # ---- behaviour-preserving changes: no alarm allowed
 dict(name="theap-refactor-sift-order", props=["C05"], benign=True,
      edits=[("iv_timer.c",
              "\t\t\tpull_up(st, (*p)->index, p);\n\t\t\tpush_down(st, (*p)->index, p);",
              "\t\t\tpush_down(st, (*p)->index, p);\n\t\t\tpull_up(st, (*p)->index, p);")]),
 dict(name="theap-refactor-level-removed-late", props=["C05"], benign=True,
      edits=[("iv_timer.c",
              "\t\t    st->num_timers == (1 << (st->rat_depth *\n\t\t\t\t\t     IV_TIMER_SPLIT_BITS))) {",
              "\t\t    st->num_timers == (1 << (st->rat_depth *\n\t\t\t\t\t     IV_TIMER_SPLIT_BITS)) - 1) {")]),
 dict(name="theap-refactor-tie-prefers-right", props=["C05"], benign=True,
      edits=[("iv_timer.c",
              "\t\t\tif (p[1] && timer_ptr_gt(*imin, p[1])) {",
              "\t\t\tif (p[1] && !timer_ptr_gt(p[1], *imin) && timer_ptr_gt(*i, p[1])) {")]),
]
