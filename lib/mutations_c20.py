"""Source mutations of src/iv_inotify.c for the C20 binding demonstration
(same format as lib/mutations.py; applied to a scratch copy of /repo/src via
VERIF_REPO, see bin/mut-test).  `benign: True` marks behaviour-preserving
refactorings that must raise no alarm.

On the unfixed tree every C20 run additionally reports the known finding
C20:crash-unregister-term (this->term is never initialised); a mutation
counts as caught only through one of the OTHER rules, listed in `rules`."""
F = "iv_inotify.c"
MUTATIONS = [
 # the record stride ignores the variable name length: name bytes are parsed as records
 dict(name="inotify-stride-ignores-len", props=["C20"], rules=["C20:order"], edits=[(F,
      "\t\tcurr += event->len + sizeof(struct inotify_event);",
      "\t\tcurr += sizeof(struct inotify_event);")]),
 # a one-shot watch is left in the set: its IN_IGNORED record reaches the released object
 dict(name="inotify-oneshot-stays", props=["C20"], rules=["C20:stale-watch"], edits=[(F,
      "\t\t\tif (event->mask & IN_IGNORED || w->mask & IN_ONESHOT)",
      "\t\t\tif (event->mask & IN_IGNORED)")]),
 # a watch removed by the kernel is left in the set
 dict(name="inotify-ignored-stays", props=["C20"], rules=["C20:stale-watch"], edits=[(F,
      "\t\t\tif (event->mask & IN_IGNORED || w->mask & IN_ONESHOT)",
      "\t\t\tif (w->mask & IN_ONESHOT)")]),
 # the parse loop continues after a handler unregistered the instance
 dict(name="inotify-no-break", props=["C20"], rules=["C20:uaf-instance", "C20:crash"], edits=[(F,
      "\t\tif (this == NULL)\n\t\t\tbreak;\n", "")]),
 # unregister does not reset the parse loop's instance pointer
 dict(name="inotify-unreg-no-term-reset", props=["C20"], rules=["C20:uaf-instance"], edits=[(F,
      "\tif (this->term != NULL)\n\t\t*this->term = NULL;", "\t(void)this->term;")]),
 # the lookup descends by the wrong field
 dict(name="inotify-lookup-wrong-field", props=["C20"], rules=["C20:missed"], edits=[(F,
      "\t\tif (wd < w->wd)\n\t\t\tan = an->left;", "\t\tif (wd < (int)w->mask)\n\t\t\tan = an->left;")]),
 # the handler is called before the IGNORED / one-shot watch is dropped from the set
 dict(name="inotify-handler-before-removal", props=["C20"], rules=["C20:stale-watch", "C20:missed", "C20:crash"], edits=[(F,
      "\t\t\tif (event->mask & IN_IGNORED || w->mask & IN_ONESHOT)\n\t\t\t\tiv_avl_tree_delete(&this->watches, &w->an);\n\t\t\tw->handler(w->cookie, event);",
      "\t\t\tw->handler(w->cookie, event);\n\t\t\tif (event->mask & IN_IGNORED || w->mask & IN_ONESHOT)\n\t\t\t\tiv_avl_tree_delete(&this->watches, &w->an);")]),
 # watch unregistration leaves the watch in the set
 dict(name="inotify-wunreg-stays", props=["C20"], rules=["C20:after-unreg"], edits=[(F,
      "\tinotify_rm_watch(inotify->fd.fd, w->wd);\n\tiv_avl_tree_delete(&inotify->watches, &w->an);",
      "\tinotify_rm_watch(inotify->fd.fd, w->wd);")]),
 # ---- behaviour-preserving refactorings
 dict(name="refactor-inotify-stride-expr", props=["C20"], benign=True, edits=[(F,
      "\t\tcurr += event->len + sizeof(struct inotify_event);",
      "\t\tcurr = (uint8_t *)curr + sizeof(*event) + event->len;")]),
 dict(name="refactor-inotify-lookup-order", props=["C20"], benign=True, edits=[(F,
      "\t\tif (wd == w->wd)\n\t\t\treturn w;\n\n\t\tif (wd < w->wd)\n\t\t\tan = an->left;\n\t\telse\n\t\t\tan = an->right;",
      "\t\tif (wd < w->wd)\n\t\t\tan = an->left;\n\t\telse if (wd > w->wd)\n\t\t\tan = an->right;\n\t\telse\n\t\t\treturn w;")]),
]
