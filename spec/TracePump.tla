--------------------------- MODULE TracePump ---------------------------
(* Trace validation for C17: consumes an ndjson trace recorded from the real
   iv_fd_pump code by harness/ivh_pump.c (IOEnv.TRACE), feeds every event to
   the MonPump monitor (the only source of verdicts) and, in lock-step, to the
   IvPump system model with BufSize = 4096: an event the model cannot take, or
   a logged projection (ip->bytes, ip->full, ip->saw_fin) that differs from the
   model's, is recorded as DRIFT (a warning about the model, never a verdict).
   One VERDICT line per execution (executions are separated by Reset records).
   Deterministic: one state per consumed line. *)
EXTENDS IvPump, MonPump, Json, IOUtils

VARIABLES l, mon, sid, drift
tvars == <<l, mon, sid, drift, p, ev>>

Log == ndJsonDeserialize(IOEnv.TRACE)
N == Len(Log)

TInit == l = 1 /\ mon = MonInit /\ sid = "none" /\ drift = "" /\ p = Idle("rw") /\ ev = [e |-> "none"]

TNext ==
  /\ l <= N
  /\ l' = l + 1
  /\ LET e == Log[l] IN
     /\ ev' = ev
     /\ IF e.e = "Reset"
        THEN mon' = MonInit /\ sid' = e.id /\ drift' = "" /\ p' = Idle(e.mode)
        ELSE /\ mon' = MonStep(mon, e)
             /\ sid' = sid
             /\ IF drift # "" \/ e.e \in {"End", "Fds"}
                THEN UNCHANGED <<p, drift>>
                ELSE IF Enabled(p, e)
                     THEN p' = Apply(p, e) /\ drift' = ""
                     ELSE p' = p /\ drift' = "line " \o ToString(l) \o ": " \o e.e \o " at pc " \o p.pc
             /\ (e.e = "End") =>
                  PrintT("VERDICT " \o ToJson([id |-> sid, why |-> e.why, viols |-> mon'.viols,
                                                seen |-> mon'.seen, drift |-> drift]))

TSpec == TInit /\ [][TNext]_tvars
(* violated <=> the whole trace was consumed *)
NotDone == l <= N
=============================================================================
