"""Source mutations of src/iv_avl.c for the C16 binding demonstration
(same format as lib/mutations.py; applied to a scratch copy of /repo/src by
bin/mut-test, VERIF_REPO pointing the checks at the copy).  `benign: True`
marks behaviour-preserving or still-correct re-organisations that must raise
no alarm (they may print DRIFT)."""
_INS_DESCENT = ("\tp = NULL;\n\tpp = &tree->root;\n\twhile (*pp != NULL) {\n\t\tint ret;\n\n\t\tp = *pp;\n\n"
                "\t\tret = tree->compare(an, p);\n\t\tif (ret < 0)\n\t\t\tpp = &p->left;\n\t\telse if (ret > 0)\n"
                "\t\t\tpp = &p->right;\n\t\telse\n\t\t\treturn -1;\n\t}\n")

MUTATIONS = [
 # rotate_left forgets to re-parent the moved middle subtree c
 dict(name="avl-rotl-no-reparent-c", props=["C16"], edits=[("iv_avl.c",
      "\tc = d->left;\n\tb->right = c;\n\tif (c != NULL)\n\t\tc->parent = b;\n\trecalc_height(b);\n\n\td->left = b;\n\td->parent = b->parent;",
      "\tc = d->left;\n\tb->right = c;\n\trecalc_height(b);\n\n\td->left = b;\n\td->parent = b->parent;")]),
 # rotate_right recomputes the heights in the wrong order (new root first)
 dict(name="avl-rotr-height-order", props=["C16"], edits=[("iv_avl.c",
      "\t\tc->parent = d;\n\trecalc_height(d);\n\n\tb->right = d;\n\tb->parent = d->parent;\n\td->parent = b;\n\trecalc_height(b);",
      "\t\tc->parent = d;\n\trecalc_height(b);\n\n\tb->right = d;\n\tb->parent = d->parent;\n\td->parent = b;\n\trecalc_height(d);")]),
 # left-right rotation: e goes to f but keeps pointing to d as its parent
 dict(name="avl-rotlr-e-parent", props=["C16"], edits=[("iv_avl.c",
      "\te = d->right;\n\tf->left = e;\n\tif (e != NULL)\n\t\te->parent = f;\n\trecalc_height(f);\n\n\td->left = b;\n\td->right = f;\n\td->parent = f->parent;",
      "\te = d->right;\n\tf->left = e;\n\trecalc_height(f);\n\n\td->left = b;\n\td->right = f;\n\td->parent = f->parent;")]),
 # right-left rotation takes the new parent from the wrong node
 dict(name="avl-rotrl-parent-from-f", props=["C16"], edits=[("iv_avl.c",
      "\td->parent = b->parent;\n\tb->parent = d;\n\tf->parent = d;",
      "\td->parent = f->parent;\n\tb->parent = d;\n\tf->parent = d;")]),
 # rebalance decision: < instead of <= (single rotation needed when the inner grandchild is as tall)
 dict(name="avl-rebalance-lt-for-le", props=["C16"], edits=[("iv_avl.c",
      "\t\tif (balance(root->left) <= 0)", "\t\tif (balance(root->left) < 0)")]),
 # rebalance decision on the right: <= instead of <
 dict(name="avl-rebalance-le-for-lt", props=["C16"], edits=[("iv_avl.c",
      "\t\tif (balance(root->right) < 0)", "\t\tif (balance(root->right) <= 0)")]),
 # the walk stops as soon as no rotation changed the subtree root, even if its height changed
 dict(name="avl-walk-early-stop", props=["C16"], edits=[("iv_avl.c",
      "\t\tif (old_height == an->height)\n\t\t\tbreak;",
      "\t\tif (old_height == an->height || old_height + 1 == an->height)\n\t\t\tbreak;")]),
 # delete: the victim's child is not re-parented (left-side victim)
 dict(name="avl-victim-child-parent", props=["C16"], edits=[("iv_avl.c",
      "\t\treplace_reference(tree, victim, victim->left);\n\t\tif (victim->left != NULL)\n\t\t\tvictim->left->parent = victim->parent;",
      "\t\treplace_reference(tree, victim, victim->left);")]),
 # delete: rebalancing starts at the victim's new position although its old parent was deeper
 dict(name="avl-victim-rebalance-start", props=["C16"], edits=[("iv_avl.c",
      "\tp = victim->parent;\n\tif (p == an)\n\t\tp = victim;",
      "\tp = victim;")]),
 # delete: the victim does not inherit the recorded height of the node it replaces
 dict(name="avl-victim-height", props=["C16"], edits=[("iv_avl.c",
      "\tvictim->height = an->height;\n", "")]),
 # insert: a duplicate key is accepted (goes to the right)
 dict(name="avl-dup-accepted", props=["C16"], edits=[("iv_avl.c",
      "\t\telse if (ret > 0)\n\t\t\tpp = &p->right;\n\t\telse\n\t\t\treturn -1;",
      "\t\telse\n\t\t\tpp = &p->right;")]),
 # iv_avl_tree_prev climbs while coming from the right (copy-paste of next)
 dict(name="avl-prev-climb-wrong-side", props=["C16"], edits=[("iv_avl.c",
      "\twhile (p != NULL && an == p->left) {", "\twhile (p != NULL && an == p->right && an != p->left) {")]),
 # iv_avl_tree_next climbs one level only
 dict(name="avl-next-single-climb", props=["C16"], edits=[("iv_avl.c",
      "\twhile (p != NULL && an == p->right) {\n\t\tan = p;\n\t\tp = an->parent;\n\t}",
      "\tif (p != NULL && an == p->right) {\n\t\tan = p;\n\t\tp = an->parent;\n\t}")]),
 # insert forgets to clear the new leaf's left link (stale link of a re-inserted node)
 dict(name="avl-insert-no-left-init", props=["C16"], edits=[("iv_avl.c",
      "\tan->left = NULL;\n\tan->right = NULL;\n\tan->parent = p;",
      "\tan->right = NULL;\n\tan->parent = p;")]),
 # rotate_left re-parents c without testing it for NULL (crashes instead of corrupting)
 dict(name="avl-rotl-null-deref", props=["C16"], edits=[("iv_avl.c",
      "\tc = d->left;\n\tb->right = c;\n\tif (c != NULL)\n\t\tc->parent = b;\n\trecalc_height(b);\n\n\td->left = b;\n\td->parent = b->parent;",
      "\tc = d->left;\n\tb->right = c;\n\tc->parent = b;\n\trecalc_height(b);\n\n\td->left = b;\n\td->parent = b->parent;")]),
 # ---- benign
 # behaviour-preserving: heights recomputed through a local, rotation written with a temporary
 dict(name="avl-refactor-recalc", props=["C16"], benign=True, edits=[("iv_avl.c",
      "\thl = height(an->left);\n\thr = height(an->right);\n\tan->height = 1 + ((hl > hr) ? hl : hr);",
      "\thr = height(an->right);\n\thl = height(an->left);\n\tif (hl < hr)\n\t\thl = hr;\n\tan->height = hl + 1;")]),
 # still a correct AVL tree, different shape: on equal heights the victim comes from the left
 dict(name="avl-victim-left-on-tie", props=["C16"], benign=True, edits=[("iv_avl.c",
      "\tif (height(an->left) > height(an->right)) {\n\t\tvictim = an->left;",
      "\tif (height(an->left) >= height(an->right) && an->left != NULL) {\n\t\tvictim = an->left;")]),
 # still correct: the new node is initialised before the search, so a rejected duplicate node is written to
 # (the tree itself is untouched)
 dict(name="avl-insert-init-first", props=["C16"], benign=True, edits=[("iv_avl.c",
      _INS_DESCENT, "\tan->left = NULL;\n\tan->right = NULL;\n\tan->height = 1;\n\n" + _INS_DESCENT)]),
]


def _main():
    """python3 lib/mutations_c16.py [--tier quick] [--only a,b] [--jobs 3]
    Same procedure as bin/mut-test, for this list only."""
    import argparse, concurrent.futures as cf, os, shutil, subprocess, tempfile, time
    here = os.path.dirname(os.path.abspath(__file__))
    ap = argparse.ArgumentParser()
    ap.add_argument("--tier", default="quick")
    ap.add_argument("--only", default=None)
    ap.add_argument("--jobs", type=int, default=3)
    a = ap.parse_args()
    muts = [m for m in MUTATIONS if not a.only or m["name"] in a.only.split(",")]

    def one(m):
        d = tempfile.mkdtemp(prefix="mut-", dir="/tmp")
        try:
            shutil.copytree("/repo/src", os.path.join(d, "src"),
                            ignore=shutil.ignore_patterns("*.o", "*.lo", "*.la", ".libs", ".deps"))
            shutil.copy("/repo/config.h", os.path.join(d, "config.h"))
            for fn, old, new in m["edits"]:
                p = os.path.join(d, "src", fn)
                s = open(p).read()
                if s.count(old) != 1:
                    return (m["name"], "ERROR pattern occurs %d times" % s.count(old), "", 0, "")
                open(p, "w").write(s.replace(old, new))
            env = dict(os.environ, VERIF_REPO=d, VERIF_EVID_DIR=os.path.join(d, "evid"),
                       VERIF_OUT_DIR=os.path.join(d, "out"))
            t0 = time.time()
            r = subprocess.run([os.path.join(here, "..", "bin", "check"), "C16", "--tier", a.tier], env=env,
                               stdout=subprocess.PIPE, stderr=subprocess.STDOUT, text=True)
            viol = [l for l in r.stdout.splitlines() if l.startswith("VIOLATION")]
            drift = any(l.startswith("DRIFT") for l in r.stdout.splitlines())
            status = "CAUGHT" if r.returncode == 1 and viol else ("clean" if r.returncode == 0 else "ERROR rc=%d" % r.returncode)
            sigs = ";".join(sorted(set(v.split("#")[1].strip().split()[0] for v in viol if "#" in v)))
            # replay of the first recorded violation must reproduce it
            rp = ""
            if viol:
                path = viol[0].split("replay=")[1].split()[0]
                r2 = subprocess.run([os.path.join(here, "..", "bin", "check"), "C16", "--replay", path], env=env,
                                    stdout=subprocess.PIPE, stderr=subprocess.STDOUT, text=True)
                rp = "replay:rc=%d" % r2.returncode
            return (m["name"], status, sigs + (" +DRIFT" if drift else ""), time.time() - t0,
                    rp if not status.startswith("ERROR") else r.stdout[-1500:])
        finally:
            shutil.rmtree(d, ignore_errors=True)
    bad = 0
    with cf.ThreadPoolExecutor(a.jobs) as ex:
        for m, res in zip(muts, ex.map(one, muts)):
            exp = "clean" if m.get("benign") else "CAUGHT"
            print("%-30s %-8s (expected %s) %4.0fs %s %s" % (res[0], res[1], exp, res[3], res[2], res[4]), flush=True)
            bad += res[1] != exp
    print("%d mutations, %d unexpected" % (len(muts), bad))


if __name__ == "__main__":
    _main()
