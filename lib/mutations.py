"""Source mutations used for the binding demonstration / self-test
(bin/mut-test).  Each is applied to a scratch copy of /repo/src; `props` are
the checks expected to report it.  `benign: True` marks behaviour-preserving
refactorings that must raise no alarm."""
MUTATIONS = [
 dict(name="fd-unreg-keep-active", props=["C01"], edits=[("iv_fd.c", "\tiv_list_del(&fd->list_active);\n\n\tnotify_fd(st, fd);", "\tnotify_fd(st, fd);")]),
 dict(name="fd-unreg-keep-handled", props=["C01", "C03"], edits=[("iv_fd.c", "\tif (st->handled_fd == fd)\n\t\tst->handled_fd = NULL;\n", "")]),
 dict(name="fd-ready-bands-stale", props=["C03"], edits=[("iv_fd.c", "\t\tfd->ready_bands = 0;\n\t\tiv_list_add_tail(&fd->list_active, active);", "\t\tiv_list_add_tail(&fd->list_active, active);")]),
 dict(name="epoll-notify-only-when-unregistered", props=["C02"], edits=[("iv_fd_epoll.c", "\tif (fd->registered_bands != fd->wanted_bands)\n\t\tiv_list_add_tail(&fd->list_notify, &st->u.epoll.notify);", "\tif (fd->registered_bands != fd->wanted_bands && !fd->registered_bands)\n\t\tiv_list_add_tail(&fd->list_notify, &st->u.epoll.notify);")]),
 dict(name="poll-mask-not-updated", props=["C02"], edits=[("iv_fd_poll.c", "\t} else {\n\t\tst->u.poll.pfds[fd->u.index].events =\n\t\t\tbits_to_poll_mask(fd->wanted_bands);\n\t}", "\t}")]),
 dict(name="timer-fire-same-second", props=["C04"], edits=[("iv_timer.c", "\t\tif (timespec_gt(&t->expires, &st->time))\n\t\t\tbreak;", "\t\tif (t->expires.tv_sec > st->time.tv_sec)\n\t\t\tbreak;")]),
 dict(name="msec-round-down", props=["C04", "C07"], edits=[("iv_private.h", "((rel.tv_nsec + 999999) / 1000000)", "(rel.tv_nsec / 1000000)")]),
 dict(name="timer-pushdown-wrong-child", props=["C05"], edits=[("iv_timer.c", "\t\t\tif (p[1] && timer_ptr_gt(*imin, p[1])) {", "\t\t\tif (p[1] && timer_ptr_gt(*i, p[1])) {")]),
 dict(name="task-no-epoch-test", props=["C06"], edits=[("iv_task.c", "\tif (st->tasks_current == NULL || t->epoch == st->task_epoch)", "\tif (st->tasks_current == NULL)")]),
 dict(name="main-block-with-tasks", props=["C06"], edits=[("iv_main_posix.c", "\t\tif (iv_pending_tasks(st)) {", "\t\tif (0 && iv_pending_tasks(st)) {")]),
 dict(name="timer-unreg-expired-numobjs", props=["C07"], edits=[("iv_timer.c", "\t} else {\n\t\tiv_list_del(&t->list_expired);\n\t}", "\t} else {\n\t\tiv_list_del(&t->list_expired);\n\t\tst->numobjs--;\n\t}")]),
 dict(name="timer-index-after-handler", props=["C01"], edits=[("iv_timer.c", "\t\tiv_list_del(&t->list_expired);\n\t\tt->index = -1;\n\n\t\tt->handler(t->cookie);", "\t\tiv_list_del(&t->list_expired);\n\n\t\tt->handler(t->cookie);\n\t\tt->index = -1;")]),
 dict(name="refactor-fd-unreg-order", props=["C01", "C02", "C03", "C07"], benign=True, edits=[("iv_fd.c", "\tst->numobjs--;\n\tst->numfds--;\n\n\tif (st->handled_fd == fd)\n\t\tst->handled_fd = NULL;", "\tif (st->handled_fd == fd)\n\t\tst->handled_fd = NULL;\n\n\tst->numfds--;\n\tst->numobjs--;")]),
 dict(name="ev-kick-when-nonempty", props=["C08"], edits=[("iv_event.c", "\t\tif (iv_list_empty(&dst->events_pending))\n\t\t\tpost = 1;", "\t\tif (!iv_list_empty(&dst->events_pending))\n\t\t\tpost = 1;")]),
 dict(name="ev-local-no-task", props=["C08"], edits=[("iv_event.c", "\t\t\tif (!iv_task_registered(&me->events_local))\n\t\t\t\tiv_task_register(&me->events_local);", "\t\t\t;")]),
 dict(name="ev-post-check-outside-lock", props=["C08"], edits=[("iv_event.c", "\t___mutex_lock(&dst->event_list_mutex);\n\tif (iv_list_empty(&this->list)) {\n\t\tif (iv_list_empty(&dst->events_pending))\n\t\t\tpost = 1;\n\t\tiv_list_add_tail(&this->list, &dst->events_pending);\n\t}", "\tif (iv_list_empty(&dst->events_pending))\n\t\tpost = 1;\n\t___mutex_lock(&dst->event_list_mutex);\n\tif (iv_list_empty(&this->list)) {\n\t\tiv_list_add_tail(&this->list, &dst->events_pending);\n\t} else {\n\t\tpost = 0;\n\t}")]),
 dict(name="ev-run-empty-now-stale", props=["C08"], edits=[("iv_event.c", "\t\tif (iv_list_empty(&events)) {\n\t\t\t___mutex_unlock(&st->event_list_mutex);\n\t\t\tbreak;\n\t\t}", "")]),
 dict(name="raw-handler-before-drain", props=["C09"], edits=[("iv_event_raw_posix.c", "\ttoread = !eventfd_in_use ? sizeof(buf) : 8;\n", "\ttoread = !eventfd_in_use ? sizeof(buf) : 8;\n\tthis->handler(this->cookie);\n"), ("iv_event_raw_posix.c", "\t\treturn;\n\t}\n\n\tthis->handler(this->cookie);\n}", "\t\treturn;\n\t}\n}")]),
 dict(name="raw-pipe-wr-blocking", props=["C09"], edits=[("iv_event_raw_posix.c", "\t\tiv_fd_set_cloexec(fd[1]);\n\t\tiv_fd_set_nonblock(fd[1]);", "\t\tiv_fd_set_cloexec(fd[1]);")]),
 dict(name="raw-eagain-loop", props=["C09"], edits=[("iv_event_raw_posix.c", "\t} while (ret < 0 && errno == EINTR);\n}", "\t} while (ret < 0 && (errno == EINTR || errno == EAGAIN));\n}")]),
]

MUTATIONS += [
 dict(name="work-no-self-rekick", props=["C12"], edits=[("iv_work.c", "\t\t * called again, so that we don't deadlock.\n\t\t */\n\t\tiv_event_post(&thr->kick);", "\t\t * called again, so that we don't deadlock.\n\t\t */")]),
 dict(name="work-kicked-not-set", props=["C12"], edits=[("iv_work.c", "\t\tthr->kicked = 1;\n", "")]),
 dict(name="work-post-owner-inverted", props=["C12"], edits=[("iv_work.c", "\t\tif (iv_list_empty(&pool->work_done))\n\t\t\tiv_event_post(&pool->ev);", "\t\tif (!iv_list_empty(&pool->work_done))\n\t\t\tiv_event_post(&pool->ev);")]),
 dict(name="work-max-threads-plus-one", props=["C12"], edits=[("iv_work.c", "\t} else if (pool->started_threads < this->max_threads) {", "\t} else if (pool->started_threads <= this->max_threads) {")]),
 dict(name="work-local-completion-skipped-order", props=["C12"], edits=[("iv_work.c", "\t\twork->work(work->cookie);\n\t\twork->completion(work->cookie);", "\t\twork->completion(work->cookie);\n\t\twork->work(work->cookie);")]),
 dict(name="work-die-no-owner-post", props=["C13"], edits=[("iv_work.c", "\tif (pool->shutting_down && !pool->started_threads)\n\t\tiv_event_post(&pool->ev);\n}", "}")]),
 dict(name="work-free-with-done-pending", props=["C13", "C12"], edits=[("iv_work.c", "\t\tif (!pool->started_threads && iv_list_empty(&pool->work_done)) {", "\t\tif (!pool->started_threads) {")]),
 dict(name="thread-destructor-no-post", props=["C13"], edits=[("iv_thread_posix.c", "\tiv_event_post(&thr->dead);\n}", "}")]),
 dict(name="thread-no-join", props=["C13"], edits=[("iv_thread_posix.c", "\tpthr_join(thr->thread_id, NULL);\n", "")]),
 dict(name="work-stop-hook-skipped-on-timeout", props=["C13"], edits=[("iv_work.c", "\t} else {\n\t\tiv_list_del_init(&thr->list);\n\t\t__iv_work_thread_die(thr);\n\t}", "\t} else {\n\t\tvoid (*ts)(void *) = pool->thread_stop;\n\t\tiv_list_del_init(&thr->list);\n\t\tpool->thread_stop = NULL;\n\t\t__iv_work_thread_die(thr);\n\t\tpool->thread_stop = ts;\n\t}")]),
]

MUTATIONS += [
 dict(name="sig-no-stop-at-exclusive", props=["C10"], edits=[("iv_signal.c", "\t\tif (is->flags & IV_SIGNAL_FLAG_EXCLUSIVE)\n\t\t\tbreak;\n\n\t\tan = iv_avl_tree_next(an);", "\t\tan = iv_avl_tree_next(an);")]),
 dict(name="sig-no-handoff", props=["C10"], edits=[("iv_signal.c", "\t} else if ((this->flags & IV_SIGNAL_FLAG_EXCLUSIVE) && this->active) {\n\t\t__iv_signal_do_wake(iv_signal_tree(this), this->signum);\n\t}", "\t}")]),
 dict(name="sig-dfl-while-interests", props=["C10"], edits=[("iv_signal.c", "\tif (!--total_num_interests[this->signum]) {", "\tif (--total_num_interests[this->signum] <= 1) {")]),
 dict(name="sig-no-owner-pid-test", props=["C10"], edits=[("iv_signal.c", "\tif (sig_owner_pid == 0 || sig_owner_pid != getpid())\n\t\treturn;\n", "")]),
 dict(name="sig-postfork-keep-thr-tree", props=["C10"], edits=[("iv_signal.c", "\tif (tinfo != NULL)\n\t\ttinfo->thr_sigs.root = NULL;\n}", "\t(void)tinfo;\n}")]),
 dict(name="sig-postfork-keep-proc-tree", props=["C10"], edits=[("iv_signal.c", "\tprocess_sigs.root = NULL;\n\n\ttinfo = iv_tls_user_ptr", "\ttinfo = iv_tls_user_ptr")]),
 dict(name="sig-child-mask-block", props=["C10"], edits=[("iv_signal.c", "\tpthr_sigmask(SIG_SETMASK, &sig_mask_fork, NULL);\n}", "\tpthr_sigmask(SIG_BLOCK, &sig_mask_fork, NULL);\n}")]),
 dict(name="to-relative-stale-clock", props=["C04"], edits=[("iv_private.h", "\t\tif (!st->time_valid) {\n\t\t\tst->time_valid = 1;\n\t\t\tiv_time_get(&st->time);\n\t\t}\n\n\t\tif (timespec_gt(abs, &st->time)) {", "\t\tif (timespec_gt(abs, &st->time)) {")]),
 dict(name="sig-thread-set-not-first", props=["C10"], edits=[("iv_signal.c", "\tif (tinfo == NULL || !__iv_signal_do_wake(&tinfo->thr_sigs, signum)) {", "\tif (1) {")]),
 dict(name="sig-wake-only-first", props=["C10"], edits=[("iv_signal.c", "\t\twoken++;\n\n\t\tif (is->flags & IV_SIGNAL_FLAG_EXCLUSIVE)\n\t\t\tbreak;", "\t\twoken++;\n\n\t\tif (woken)\n\t\t\tbreak;")]),
 dict(name="wait-fork-outside-lock", props=["C11"], edits=[("iv_wait.c", "\t___mutex_lock(&iv_wait_lock);\n\n\tpid = fork();\n\tif (pid < 0) {\n\t\t___mutex_unlock(&iv_wait_lock);", "\tpid = fork();\n\t___mutex_lock(&iv_wait_lock);\n\tif (pid < 0) {\n\t\t___mutex_unlock(&iv_wait_lock);")]),
 dict(name="wait-no-dead-flag", props=["C11"], edits=[("iv_wait.c", "\t\t\tp->flags = IV_WAIT_STATUS_DEAD;\n", "")]),
 dict(name="wait-kill-ignores-dead", props=["C11", "C19"], edits=[("iv_wait.c", "\tif (!(this->flags & IV_WAIT_STATUS_DEAD))\n\t\tret = kill(this->pid, sig);\n\telse\n\t\tret = -ESRCH;", "\tret = kill(this->pid, sig);")]),
 dict(name="wait-deliver-after-unreg", props=["C11", "C01"], edits=[("iv_wait.c", "\t\tif (tinfo->handled_wait_interest != NULL) {", "\t\tif (1) {")]),
 dict(name="wait-drop-nonterminal", props=["C11"], edits=[("iv_wait.c", "\t\tif (p != NULL) {\n\t\t\tiv_list_add_tail(&we->list, &p->events_pending);", "\t\tif (p != NULL && iv_wait_status_dead(status)) {\n\t\t\tiv_list_add_tail(&we->list, &p->events_pending);")]),
 dict(name="popen-sigkill-first", props=["C19"], edits=[("iv_popen.c", "(ch->num_kills++ < MAX_SIGTERM_COUNT) ? SIGTERM : SIGKILL", "(ch->num_kills++ < MAX_SIGTERM_COUNT) ? SIGKILL : SIGTERM")]),
 dict(name="popen-no-rearm", props=["C19"], edits=[("iv_popen.c", "\tch->signal_timer.expires.tv_sec += SIGNAL_INTERVAL;\n\tiv_timer_register(&ch->signal_timer);\n}", "\tch->signal_timer.expires.tv_sec += SIGNAL_INTERVAL;\n}")]),
 dict(name="popen-interval-short", props=["C19"], edits=[("iv_popen.c", "#define SIGNAL_INTERVAL\t\t5", "#define SIGNAL_INTERVAL\t\t4")]),
 dict(name="popen-timer-leak-on-exit", props=["C19"], edits=[("iv_popen.c", "\telse\n\t\tiv_timer_unregister(&ch->signal_timer);\n", "\n")]),
]

# mutation lists contributed per subsystem
import glob as _glob, importlib.util as _iu, os as _os
for _f in sorted(_glob.glob(_os.path.join(_os.path.dirname(_os.path.abspath(__file__)), "mutations_c*.py"))):
    _sp = _iu.spec_from_file_location(_os.path.basename(_f)[:-3], _f)
    _m = _iu.module_from_spec(_sp)
    _sp.loader.exec_module(_m)
    MUTATIONS += _m.MUTATIONS
