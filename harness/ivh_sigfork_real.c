/* ivh_sigfork_real -- pass-through scenario for the forked-child clause of C10
 * ("a forked child never triggers the parent's handlers") with a child that
 * goes on USING the library: a real fork(), real signals, real time.  The
 * simulated fork of simk_sig.c does not duplicate the address space, so the
 * child's copy of the parent's interests only exists here.
 *
 *   ivh_sigfork_real <pflags> <cmode>
 *     pflags  flags of the parent's interests (0 process-wide, 1 exclusive, 2 this-thread, 3 both)
 *     cmode   0  the child registers nothing and is signalled
 *             1  the child registers an interest of its own for the same signal, is signalled twice
 *             2  the child registers an interest for ANOTHER signal and is then sent the parent's
 *                signal if (and only if) a handler is still installed for it in the child
 *             3  as 1, but the child first unregisters its interest again (the library is "live" in
 *                the child: sig_owner_pid is the child's) and registers a second one
 *
 * The harness only logs (same alphabet as ivh_core: A / SigApiB / SigDlv / SigRet / CbB / Qui / End);
 * MonSig decides.  Thread id 1 everywhere: MonCore ignores what is not thread 0. */
#define _GNU_SOURCE
#include <stdio.h>
#include <stdlib.h>
#include <string.h>
#include <unistd.h>
#include <signal.h>
#include <sys/wait.h>
#include <iv.h>
#include <iv_signal.h>

#define SIGA SIGUSR1
#define SIGB SIGUSR2

static void out(const char *s)
{
	/* one write per line: the child shares the descriptor */
	if (write(1, s, strlen(s)) < 0)
		_exit(9);
}

static void ev(const char *fmt, long a, long b, long c, long d)
{
	char buf[256];
	snprintf(buf, sizeof buf, fmt, a, b, c, d);
	out(buf);
}

static struct iv_signal psig[2], csig[2];
static struct iv_timer tmo;
static int phase, fires;

static void parent_cb(void *c)
{
	ev("{\"t\":1,\"e\":\"CbB\",\"k\":\"sig\",\"o\":%ld}\n", (long)(struct iv_signal *)c - (long)psig == 0 ? 1 : 2, 0, 0, 0);
}

static void child_cb(void *c)
{
}

static void reg(struct iv_signal *is, int o, int signum, unsigned flags, void (*h)(void *), int log)
{
	IV_SIGNAL_INIT(is);
	is->signum = signum;
	is->flags = flags;
	is->cookie = is;
	is->handler = h;
	if (log)
		ev("{\"t\":1,\"e\":\"SigApiB\",\"op\":\"reg\",\"o\":%ld}\n", o, 0, 0, 0);
	int r = iv_signal_register(is);
	if (log)
		ev("{\"t\":1,\"e\":\"A\",\"op\":\"sig_reg\",\"o\":%ld,\"a\":%ld,\"b\":%ld,\"c\":0,\"ts\":[0,0],\"r\":%ld}\n", o, signum, flags, r);
	else if (r < 0)
		_exit(8);
}

static int has_handler(int signum)
{
	struct sigaction sa;

	if (sigaction(signum, NULL, &sa) < 0)
		return 0;
	return sa.sa_handler != SIG_DFL && sa.sa_handler != SIG_IGN;
}

static void deliver(int signum, int pid)
{
	ev("{\"t\":1,\"e\":\"SigDlv\",\"sig\":%ld,\"h\":\"handler\",\"pid\":%ld}\n", signum, pid, 0, 0);
	raise(signum);
	ev("{\"t\":1,\"e\":\"SigRet\",\"sig\":%ld}\n", signum, 0, 0, 0);
}

static void run_child(unsigned pflags, int cmode)
{
	unsigned cflags = pflags & IV_SIGNAL_FLAG_THIS_THREAD;

	switch (cmode) {
	case 0:
		if (has_handler(SIGA))
			deliver(SIGA, 2000);
		if (has_handler(SIGB))
			deliver(SIGB, 2000);
		break;
	case 1:
		reg(&csig[0], 0, SIGA, cflags, child_cb, 0);
		deliver(SIGA, 2000);
		deliver(SIGA, 2000);
		if (has_handler(SIGB))
			deliver(SIGB, 2000);
		break;
	case 2:
		reg(&csig[0], 0, SIGB, cflags, child_cb, 0);
		deliver(SIGB, 2000);
		if (has_handler(SIGA))
			deliver(SIGA, 2000);
		break;
	case 3:
		reg(&csig[0], 0, SIGA, cflags, child_cb, 0);
		iv_signal_unregister(&csig[0]);
		reg(&csig[1], 0, SIGB, cflags ^ IV_SIGNAL_FLAG_THIS_THREAD, child_cb, 0);
		deliver(SIGB, 2000);
		if (has_handler(SIGA))
			deliver(SIGA, 2000);
		reg(&csig[0], 0, SIGA, cflags, child_cb, 0);
		deliver(SIGA, 2000);
		break;
	}
	_exit(0);
}

static void rearm(long ms)
{
	iv_validate_now();
	tmo.expires = iv_now;
	tmo.expires.tv_nsec += ms * 1000000;
	while (tmo.expires.tv_nsec >= 1000000000) { tmo.expires.tv_nsec -= 1000000000; tmo.expires.tv_sec++; }
	iv_timer_register(&tmo);
}

/* every verdict-relevant step is separated from the next by complete loop iterations (the timer
 * has to fire three times), never by an amount of real time: the machine may be loaded */
static void tick(void *c)
{
	if (++fires < 3) {
		rearm(10);
		return;
	}
	fires = 0;
	switch (phase++) {
	case 0:
		/* the child is gone and the loop has gone round: nothing may have been called.
		 * Sanity, and non-vacuity of the monitor's bookkeeping: a delivery to the parent */
		deliver(SIGA, 1000);
		rearm(10);
		break;
	case 1:
		deliver(SIGB, 1000);
		rearm(10);
		break;
	default:
		out("{\"t\":1,\"e\":\"Qui\"}\n");
		for (int i = 0; i < 2; i++) {
			ev("{\"t\":1,\"e\":\"SigApiB\",\"op\":\"unreg\",\"o\":%ld}\n", i + 1, 0, 0, 0);
			iv_signal_unregister(&psig[i]);
			ev("{\"t\":1,\"e\":\"A\",\"op\":\"sig_unreg\",\"o\":%ld,\"a\":0,\"b\":0,\"c\":0,\"ts\":[0,0],\"r\":0}\n", i + 1, 0, 0, 0);
		}
		break;
	}
}

int main(int argc, char **argv)
{
	unsigned pflags = argc > 1 ? (unsigned)atoi(argv[1]) : 0;
	int cmode = argc > 2 ? atoi(argv[2]) : 1;
	int status = 0;
	pid_t pid;
	char buf[160];

	alarm(120);
	if (cmode == 4) {
		/* the whole scenario runs in a forked child (the library's atfork handlers have run in
		 * it); it does not fork again.  The parent only waits. */
		pid = fork();
		if (pid > 0) {
			while (waitpid(pid, &status, 0) < 0)
				;
			if (!(WIFEXITED(status) && WEXITSTATUS(status) == 0))
				out("{\"t\":0,\"e\":\"End\",\"why\":\"crash\",\"sig\":6,\"now\":[0,0]}\n");
			return 0;
		}
		alarm(100);
	}
	snprintf(buf, sizeof buf, "{\"t\":0,\"e\":\"Reset\",\"id\":\"sigfork-real-%u-%d\",\"m\":\"real\",\"nf\":0}\n", pflags, cmode);
	out(buf);
	iv_init();
	reg(&psig[0], 1, SIGA, pflags, parent_cb, 1);
	reg(&psig[1], 2, SIGB, pflags & ~IV_SIGNAL_FLAG_EXCLUSIVE, parent_cb, 1);
	pid = cmode == 4 ? 1 : fork();
	if (pid < 0) {
		out("{\"t\":0,\"e\":\"End\",\"why\":\"exit\",\"sig\":1,\"now\":[0,0]}\n");
		return 0;
	}
	if (pid == 0)
		run_child(pflags, cmode);
	while (cmode != 4 && waitpid(pid, &status, 0) < 0)
		;
	IV_TIMER_INIT(&tmo);
	tmo.handler = tick;
	rearm(10);
	iv_main();
	iv_deinit();
	out("{\"t\":0,\"e\":\"End\",\"why\":\"ok\",\"sig\":0,\"now\":[0,0]}\n");
	return 0;
}
