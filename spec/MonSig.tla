--------------------------- MODULE MonSig ---------------------------
(* Property monitors C10 (iv_signal fan-out), C11 (iv_wait status delivery)
   and C19 (iv_popen termination) over observable events: API calls, simulated
   signal generation / delivery, child state changes, wait4 results (Reap),
   kill calls with the ground truth "termination already reaped", handler
   invocations.  Conventions as in MonCore. *)
EXTENDS Naturals, Integers, Sequences, FiniteSets, TLC

MaxO == 8
Obj == 1..MaxO
ParentPid == 1000
SIGTERM == 15
SIGKILL == 9

SigInit == [reg |-> FALSE, signum |-> 0, excl |-> FALSE, thisthr |-> FALSE, owner |-> 0, allowed |-> 0]
WaitInit == [reg |-> FALSE, pid |-> 0, owner |-> 0, pend |-> <<>>, dead |-> FALSE]
PopInit == [open |-> FALSE, closed |-> FALSE, pid |-> 0, kills |-> 0, lastKill |-> <<-1, 0>>]

SInit ==
  [ sig |-> [o \in Obj |-> SigInit],
    inflight |-> [t \in 0..63 |-> {}],   \* interests consulted by the delivery whose handler
                                          \* currently runs in thread t
    sigBusy |-> {},           \* threads inside iv_signal_register / iv_signal_unregister
    owed |-> {},              \* interests that must be called
    groups |-> {},            \* <<signum, scope, members>>: one member must be called
    wt |-> [o \in Obj |-> WaitInit],
    pop |-> [o \in Obj |-> PopInit],
    lastFork |-> 0,
    spawning |-> [t \in 0..63 |-> 0],   \* interest being registered by register_spawn in thread t
    term |-> {},              \* pids terminated, not yet reaped
    zk1 |-> {},               \* those of them a closed popen request has signalled once since
    termOwed |-> {},          \* those of them that the library still owes a wait4(): terminated while
                              \* a wait interest was registered, and interests stayed registered since
    reapedPids |-> {},        \* pids whose termination was reaped (until reused)
    alive |-> {},             \* pids forked and not yet terminated
    sinceReap |-> FALSE,
    reapNoInt |-> FALSE,      \* the last reaped termination belonged to a pid without interest
    childDlv |-> FALSE,       \* a delivery happened in a forked-child context
    quit |-> FALSE,
    viols |-> {}, seen |-> {} ]

V(m, rule) == [m EXCEPT !.viols = @ \cup {rule}]
S(m, rule) == [m EXCEPT !.seen = @ \cup {rule}]
Chk(m, ante, ok, rule) == IF ante THEN (IF ok THEN S(m, rule) ELSE V(S(m, rule), rule)) ELSE m

TsLt(a, b) == a[1] < b[1] \/ (a[1] = b[1] /\ a[2] < b[2])
TsAdd5(a) == <<a[1] + 5, a[2]>>

-----------------------------------------------------------------------------
(* C10 *)
RegSigs(m, s) == {o \in Obj : m.sig[o].reg /\ m.sig[o].signum = s}
(* the set consulted for a delivery of s received by thread t *)
ThreadSet(m, s, t) == {o \in RegSigs(m, s) : m.sig[o].thisthr /\ m.sig[o].owner = t}
ProcSet(m, s) == {o \in RegSigs(m, s) : ~m.sig[o].thisthr}
ScopeSet(m, s, scope) == IF scope >= 0 THEN ThreadSet(m, s, scope) ELSE ProcSet(m, s)

(* obligations created by waking the set C for signal s in `scope` *)
Wake(m, s, scope, C) ==
  LET ex == {o \in C : m.sig[o].excl} IN
  IF C = {} THEN m
  ELSE LET m1 == [m EXCEPT !.sig = [o \in Obj |-> IF o \in C THEN [@[o] EXCEPT !.allowed = @ + 1] ELSE @[o]]]
       IN IF ex = {} THEN [m1 EXCEPT !.owed = @ \cup C]
          ELSE [m1 EXCEPT !.groups = @ \cup {<<s, scope, ex>>}]

SigDeliver(m, e) ==
  IF e.h # "handler" THEN m
  ELSE IF e.pid # ParentPid THEN [S(m, "C10:child-triggered") EXCEPT !.childDlv = TRUE]
  ELSE LET ts == ThreadSet(m, e.sig, e.t)
           C == IF ts # {} THEN ts ELSE ProcSet(m, e.sig)
           scope == IF ts # {} THEN e.t ELSE -1
       IN S([Wake(m, e.sig, scope, C) EXCEPT !.inflight[e.t] = C], "C10:lost")

SigCb(m, e) ==
  LET o == e.o  r == m.sig[o] IN
  IF ~r.reg THEN V(m, "C01:cb-after-unreg")
  ELSE LET m1 == Chk(m, TRUE, r.allowed > 0, IF m.childDlv THEN "C10:child-triggered" ELSE "C10:spurious")
           m2 == Chk(m1, TRUE, e.t = r.owner, "C10:wrong-thread")
           (* invocations may coalesce but never outnumber the deliveries
              that consulted this interest *)
       IN [m2 EXCEPT !.sig[o].allowed = IF @ > 0 THEN @ - 1 ELSE 0, !.owed = @ \ {o},
                     !.groups = {g \in @ : o \notin g[3]}]

SigUnreg(m, e) ==
  LET o == e.o
      mine == {g \in m.groups : o \in g[3]}
      m1 == [m EXCEPT !.sig[o].reg = FALSE, !.owed = @ \ {o}, !.groups = @ \ mine]
      (* an exclusive interest that was owed a call goes away: the wake-up is
         handed to what remains registered in the set that was consulted *)
      Hand(mm, g) == Wake(mm, g[1], g[2], ScopeSet(mm, g[1], g[2]))
      RECURSIVE HandAll(_, _)
      HandAll(mm, gs) == IF gs = {} THEN mm ELSE LET g == CHOOSE x \in gs : TRUE IN HandAll(Hand(mm, g), gs \ {g})
  IN IF mine = {} THEN m1 ELSE S(HandAll(m1, mine), "C10:handoff")

(* the disposition is compared with the registered interests when a registration call has
   returned and no other thread is inside one (the set of interests is then well defined) *)
DispCheck(m, e) ==
  Chk(m, m.sigBusy \ {e.t} = {}, (e.h = "handler") = (RegSigs(m, e.sig) # {}), "C10:disposition")

-----------------------------------------------------------------------------
(* C11 *)
Reap(m, e) ==
  LET tgt == {o \in Obj : m.wt[o].reg /\ m.wt[o].pid = e.pid /\ ~m.wt[o].dead}
      m1 == [m EXCEPT !.wt = [o \in Obj |-> IF o \in tgt
                                            THEN [@[o] EXCEPT !.pend = Append(@, e.st), !.dead = (e.dead = 1)]
                                            ELSE @[o]],
                      !.sinceReap = TRUE, !.reapNoInt = (tgt = {} /\ e.dead = 1)]
  IN IF e.dead = 1 THEN [m1 EXCEPT !.term = @ \ {e.pid}, !.termOwed = @ \ {e.pid}, !.reapedPids = @ \cup {e.pid},
                                   !.zk1 = @ \ {e.pid}] ELSE m1

WaitCb(m, e) ==
  LET o == e.o  r == m.wt[o] IN
  IF ~r.reg THEN V(m, "C01:cb-after-unreg")
  ELSE LET m1 == Chk(m, TRUE, r.pend # <<>>, "C11:spurious")
           m2 == Chk(m1, r.pend # <<>>, Head(r.pend) = e.st, "C11:order")
           m3 == Chk(m2, TRUE, e.t = r.owner, "C11:wrong-thread")
       IN [m3 EXCEPT !.wt[o].pend = IF r.pend = <<>> THEN <<>> ELSE Tail(r.pend), !.sinceReap = FALSE]

KillStep(m, e) ==
  LET m1 == Chk(m, TRUE, e.reaped = 0, "C11:kill-reaped")
      ps == {o \in Obj : m.pop[o].closed /\ m.pop[o].pid = e.pid}
  IN IF ps = {} THEN m1
     ELSE LET o == CHOOSE x \in ps : TRUE
              k == m.pop[o].kills + 1
              m2 == Chk(m1, TRUE, e.reaped = 0, "C19:kill-reaped")
              m3 == Chk(m2, TRUE, e.sig = (IF k <= 5 THEN SIGTERM ELSE SIGKILL), "C19:signal-seq")
              m4 == Chk(m3, k > 1, ~TsLt(e.now, TsAdd5(m.pop[o].lastKill)), "C19:signal-interval")
              (* the child has ended and is not reaped: one signal may cross the SIGCHLD handling, but by
                 the next one (5 s later) the loop has been through its wait and must have reaped it *)
              m5 == Chk(m4, e.pid \in m.term, e.pid \notin m.zk1, "C19:zombie")
          IN [m5 EXCEPT !.pop[o].kills = k, !.pop[o].lastKill = e.now,
                        !.zk1 = IF e.pid \in m.term THEN @ \cup {e.pid} ELSE @]

-----------------------------------------------------------------------------
SApi(m, e) ==
  CASE e.op = "sig_reg" /\ e.r = 0 ->
         [m EXCEPT !.sig[e.o] = [reg |-> TRUE, signum |-> e.a, excl |-> (e.b % 2 = 1),
                                 thisthr |-> ((e.b \div 2) % 2 = 1), owner |-> e.t, allowed |-> 0]]
    [] e.op = "sig_unreg" -> SigUnreg(m, e)
    [] e.op = "wait_reg" /\ e.r = 0 ->
         [m EXCEPT !.wt[e.o] = [WaitInit EXCEPT !.reg = TRUE, !.pid = e.a, !.owner = e.t],
                   !.reapedPids = @ \ {e.a}]
    [] e.op = "wait_spawn" ->
         (* the registration took effect at the fork (under the library's lock) *)
         IF e.r = 0 THEN [m EXCEPT !.spawning[e.t] = 0]
         ELSE [m EXCEPT !.spawning[e.t] = 0, !.wt[e.o].reg = FALSE]
    [] e.op = "wait_unreg" ->
         LET m1 == [m EXCEPT !.wt[e.o].reg = FALSE, !.wt[e.o].pend = <<>>] IN
         (* with the last interest the SIGCHLD handling goes away: what was not reaped
            by then is no longer the library's to reap *)
         IF \E o \in Obj : m1.wt[o].reg THEN m1 ELSE [m1 EXCEPT !.termOwed = {}]
    [] e.op = "popen" /\ e.r = 0 -> [m EXCEPT !.pop[e.o] = [PopInit EXCEPT !.open = TRUE, !.pid = m.lastFork]]
    [] e.op = "popen_close" -> [m EXCEPT !.pop[e.o].open = FALSE, !.pop[e.o].closed = TRUE]
    [] e.op = "quit" -> [m EXCEPT !.quit = TRUE]
    [] OTHER -> m

SQuiesce(m) ==
  LET owedReg == {o \in m.owed : m.sig[o].reg}
      grpReg == {g \in m.groups : \E o \in g[3] : m.sig[o].reg}
      m1 == Chk(m, \E o \in Obj : m.sig[o].reg, owedReg = {} /\ grpReg = {}, "C10:lost")
      m2 == Chk(m1, \E o \in Obj : m1.wt[o].reg, \A o \in Obj : m1.wt[o].reg => m1.wt[o].pend = <<>>, "C11:lost")
  IN Chk(m2, \E o \in Obj : m2.wt[o].reg, m2.termOwed = {}, "C11:zombie")

(* nothing of these subsystems is left that could keep a loop alive *)
AllReleased(m) ==
  /\ \A o \in Obj : ~m.sig[o].reg /\ ~m.wt[o].reg /\ ~m.pop[o].open
  /\ \A o \in Obj : m.pop[o].closed => m.pop[o].pid \in m.reapedPids

SEnd(m, e) ==
  IF e.why \in {"crash", "crash-poison", "abort", "killed"}
  THEN IF m.sinceReap THEN V(m, IF m.reapNoInt THEN "C11:crash-reap-without-interest" ELSE "C11:crash") ELSE m
  ELSE IF e.why = "hang" \/ (e.why = "ok" /\ ~m.quit)
  THEN (* the loop sleeps for good, or has nothing registered any more and returned: a closed
          request's child must not be left running (it has to be signalled until it ends) nor
          left a zombie *)
       LET cl == {o \in Obj : m.pop[o].closed}
           m1 == Chk(m, cl # {}, \A o \in cl : m.pop[o].pid \notin m.alive, "C19:abandoned")
       IN Chk(m1, cl # {}, \A o \in cl : m.pop[o].pid \notin m.term, "C19:zombie")
  ELSE m

SStep(m, e) ==
  CASE e.e = "A" -> SApi(IF e.op \in {"sig_reg", "sig_unreg"} THEN [m EXCEPT !.sigBusy = @ \ {e.t}] ELSE m, e)
    (* an unregistration takes effect somewhere between the begin and the end of the call; the hand-over
       of a pending exclusive delivery is therefore expected from the begin on (the departing interest's
       own handler cannot run meanwhile: its thread is inside the call) *)
    [] e.e = "SigApiB" -> LET m1 == [m EXCEPT !.sigBusy = @ \cup {e.t}] IN
                          IF e.op = "unreg" /\ m1.sig[e.o].reg THEN SigUnreg(m1, e) ELSE m1
    (* SIGCHLD goes back to its default disposition (the last wait interest of the process is on its way
       out, whichever thread's call returns first): what was not reaped by then is no longer owed *)
    [] e.e = "Disp" -> IF e.sig = 17 /\ e.h = "dfl" THEN [m EXCEPT !.termOwed = {}] ELSE m
    [] e.e = "SigDlv" -> SigDeliver(m, e)
    [] e.e = "SigRet" -> [m EXCEPT !.inflight[e.t] = {}]
    [] e.e = "DispNow" -> DispCheck(m, e)
    [] e.e = "SpawnB" -> [m EXCEPT !.spawning[e.t] = e.o]
    [] e.e = "Fork" ->
         LET m1 == [m EXCEPT !.lastFork = e.pid, !.reapedPids = @ \ {e.pid}, !.alive = @ \cup {e.pid}]
             o == m.spawning[e.t]
         IN IF o # 0 THEN [m1 EXCEPT !.wt[o] = [WaitInit EXCEPT !.reg = TRUE, !.pid = e.pid, !.owner = e.t]]
            ELSE m1
    [] e.e = "Child" ->
         IF e.what \in {0, 1}
         THEN [m EXCEPT !.term = @ \cup {e.pid}, !.alive = @ \ {e.pid},
                        !.termOwed = IF \E o \in Obj : m.wt[o].reg THEN @ \cup {e.pid} ELSE @]
         ELSE m
    [] e.e = "Reap" -> Reap(m, e)
    [] e.e = "Kill" -> KillStep(m, e)
    [] e.e = "CbB" -> IF e.k = "sig" THEN SigCb(m, e) ELSE IF e.k = "wait" THEN WaitCb(m, e)
                      ELSE [m EXCEPT !.sinceReap = FALSE]
    [] e.e = "Wiring" ->
         (* C19: type r: the descriptor is the child's stdout, its stdin and stderr are
            the null device; type w: the descriptor is its stdin, stdout and stderr null *)
         Chk(m, "unknown" \notin {e.fd0, e.fd1, e.fd2}, IF e.type = "r" THEN e.fd0 = "null" /\ e.fd1 = "pipe" /\ e.fd2 = "null"
                      ELSE e.fd0 = "pipe" /\ e.fd1 = "null" /\ e.fd2 = "null", "C19:wiring")
    [] e.e = "Qui" -> SQuiesce(m)
    [] e.e = "End" -> SEnd(m, e)
    [] OTHER -> m
=============================================================================
