#!/usr/bin/env python3
"""C16 -- the AVL tree stays a correct balanced ordered set under any history.

  model     spec/IvAvl.tla (transcription of src/iv_avl.c + the property),
            spec/MC_Avl.tla: exhaustive one-step exploration from every
            height-balanced shape of height <= 4 (quick) / <= 5 (thorough,
            under an outer timeout), plus a self-test of the oracle on every
            single-field corruption of every shape of height <= 3
  spec->code  every (pre, op, post) triple TLC prints is replayed on the real
            code by harness/ivh_avl.c (pre-tree by direct pointer
            construction); the real result is judged and compared
  code->spec  long seeded random insert / delete / duplicate-insert histories
            on the real tree, every intermediate structure dumped
  verdict   spec/TraceAvl.tla: TLC evaluates the property predicates of IvAvl
            on every structure the real code produced (VIOL) and runs the
            model in lock-step on the previous real structure (DRIFT = warning)

VIOLATION only for what the real code did (or for the real code crashing /
not returning).  Everything else that goes wrong raises MachineryError."""
import collections
import json
import os
import random
import re
import subprocess
import threading
import sys
import time

sys.path.insert(0, os.path.dirname(os.path.abspath(__file__)))
import vlib

SIGS = ("parent", "set", "order", "height", "balance", "traversal", "dup", "crash")
POISON = 170

TIERS = {
    # files x steps of random history, H=5 model-checking budget (s)
    "quick": dict(hist_files=16, hist_steps=4000, mc5_timeout=0),
    "thorough": dict(hist_files=64, hist_steps=30000, mc5_timeout=780),
}


# ------------------------------------------------------------------ harness
_build_lock = threading.Lock()


def harness():
    with _build_lock:
        return _harness()


def _harness():
    """The harness binary for /repo's current working tree (content-hashed by
    vlib).  The build cache is shared and pruned by concurrent checks, so a
    build that loses its directory half-way is simply repeated."""
    err = None
    for _ in range(4):
        try:
            return vlib.build_harness('ivh_avl', ['ivh_avl.c'], 'plain')
        except (vlib.MachineryError, OSError) as e:
            err = e
            time.sleep(1.0)
    raise vlib.MachineryError("cannot build ivh_avl: %s" % err)


def run_harness(script_path, trace_path, timeout=600):
    """Returns (status, nlines): status 'ok' | 'crash:<how>'.  The trace is
    cut back to its complete lines."""
    rc, out = 2, ""
    for _ in range(4):
        exe = harness()
        try:
            r = subprocess.run([exe, "-i", script_path, "-o", trace_path], stdout=subprocess.PIPE,
                               stderr=subprocess.STDOUT, text=True, timeout=timeout)
            rc, out = r.returncode, r.stdout
        except subprocess.TimeoutExpired:
            rc, out = -14, "driver timeout"
        except OSError as e:                            # binary pruned between build and exec
            rc, out = 2, str(e)
            time.sleep(1.0)
            continue
        break
    if rc not in (0,) and rc >= 0:
        raise vlib.MachineryError("ivh_avl failed on %s: rc=%d %s" % (script_path, rc, out[-500:]))
    status = "ok"
    if rc < 0:
        status = "crash:" + {-11: "SIGSEGV", -26: "no return within 5 s of CPU time (SIGVTALRM)",
                             -14: "no return (driver timeout)", -6: "SIGABRT",
                             -7: "SIGBUS", -8: "SIGFPE", -4: "SIGILL"}.get(rc, "signal %d" % -rc)
    data = vlib.read(trace_path, "rb") if os.path.exists(trace_path) else b""
    if not data.endswith(b"\n"):
        data = data[:data.rfind(b"\n") + 1]
        with open(trace_path, "wb") as f:
            f.write(data)
    return status, data.count(b"\n")


# ------------------------------------------------------------------ scripts
def t_line(st):
    """'T ...' command for a structure dict (root,left,right,parent,height,key)."""
    out = ["T", str(st["root"])]
    for i in range(len(st["left"])):
        out += [str(st["key"][i]), str(st["left"][i]), str(st["right"][i]), str(st["parent"][i]),
                str(st["height"][i])]
    return " ".join(out)


def op_line(op):
    if op is None:
        return "# (no call: walks over the constructed tree)"
    return "I %d %d" % (op["n"], op["key"]) if op["kind"] == "ins" else "D %d" % op["n"]


def single_step_script(pre, op, note=""):
    return "# C16 replay: %s\nN %d %d\n%s\n%s\n" % (note, len(pre["left"]), pre.get("scale", 0), t_line(pre), op_line(op))


def gen_history(rnd, nkeys, steps):
    """A valid random history: inserts of fresh keys, inserts of present keys
    (duplicates, with a different node object), deletes; the tree size sweeps
    between empty and full."""
    nn = nkeys + 2
    # (the comparator of this history answers -1/0/1, the plain difference, or a multiple of it)
    lines = ["N %d %d" % (nn, rnd.choice([0, 1, 1, 3, 1000003]))]
    free = list(range(1, nn + 1))
    member = {}          # node -> key
    present = {}         # key -> node
    p_ins = 0.7
    left = 0
    for _ in range(steps):
        if left == 0:
            left = rnd.randint(20, 400)
            p_ins = rnd.choice([0.15, 0.3, 0.45, 0.5, 0.55, 0.7, 0.85])
        left -= 1
        r = rnd.random()
        if member and r < 0.02:
            # the same, with the node object that is already in the tree ("register again"): fails, changes nothing
            n = rnd.choice(list(member))
            lines.append("I %d %d" % (n, member[n]))
        elif member and r < 0.07:
            n = free[rnd.randrange(len(free))]
            k = rnd.choice(list(present))
            lines.append("I %d %d" % (n, k))            # duplicate: must fail
        elif (r < 0.07 + 0.93 * p_ins and len(present) < nkeys) or not member:
            n = free[rnd.randrange(len(free))]
            k = rnd.randint(1, nkeys)
            if k in present and rnd.random() < 0.8:      # mostly fresh keys
                k = rnd.choice([x for x in range(1, nkeys + 1) if x not in present])
            lines.append("I %d %d" % (n, k))
            if k not in present:
                present[k] = n
                member[n] = k
                free.remove(n)
        else:
            n = rnd.choice(list(member))
            lines.append("D %d" % n)
            del present[member.pop(n)]
            free.append(n)
    return "\n".join(lines) + "\n"


# ------------------------------------------------------------------ Python oracle (cross-check of TLC's)
def struct_of(e, keys):
    return {"root": e["root"], "left": e["left"], "right": e["right"], "parent": e["parent"],
            "height": e["height"], "key": keys, "scale": e.get("sc", 0)}


def py_struct_viols(t, S):
    """Mirror of IvAvl!StructViols (PART 2), written independently.  Returns
    (violated clause names, in-order node sequence or None if not a tree)."""
    nn = len(t["left"])
    L, R, P, Hh, K = t["left"], t["right"], t["parent"], t["height"], t["key"]

    def isid(x):
        return 1 <= x <= nn
    root = t["root"]
    if not (root == 0 or isid(root)):
        return {"parent"}, None
    if root and P[root - 1] != 0:
        return {"parent"}, None
    reach, todo = set(), [root] if root else []
    while todo:
        n = todo.pop()
        if n in reach:
            continue
        reach.add(n)
        for c in (L[n - 1], R[n - 1]):
            if isid(c):
                todo.append(c)
    for n in reach:
        l, r = L[n - 1], R[n - 1]
        if not (l == 0 or isid(l)) or not (r == 0 or isid(r)):
            return {"parent"}, None
        if l and P[l - 1] != n:
            return {"parent"}, None
        if r and P[r - 1] != n:
            return {"parent"}, None
        if l and l == r:
            return {"parent"}, None
    v = set()
    if reach != set(S):
        v.add("set")
    seq, th = [], {0: 0}
    stack = [(root, 0)] if root else []
    while stack:                      # iterative in-order + post-order heights
        n, stage = stack.pop()
        if stage == 0:
            stack.append((n, 1))
            if L[n - 1]:
                stack.append((L[n - 1], 0))
        elif stage == 1:
            seq.append(n)
            stack.append((n, 2))
            if R[n - 1]:
                stack.append((R[n - 1], 0))
        else:
            th[n] = 1 + max(th[L[n - 1]], th[R[n - 1]])
    if any(K[seq[i] - 1] >= K[seq[i + 1] - 1] for i in range(len(seq) - 1)):
        v.add("order")
    if any(Hh[n - 1] != th[n] for n in reach):
        v.add("height")
    if any(abs(th[R[n - 1]] - th[L[n - 1]]) > 1 for n in reach):
        v.add("balance")
    return v, seq


def py_judge(pre, S, op, ret, post, fwd, bwd):
    """Mirror of IvAvl!Judge.  Returns (sigs, members_after)."""
    S = set(S)
    dup = op["kind"] == "ins" and any(pre["key"][m - 1] == op["key"] for m in S)
    if op["kind"] == "del":
        S1 = S - {op["n"]}
    else:
        S1 = S if dup else S | {op["n"]}
    v = set()
    if op["kind"] == "ins":
        if dup and (ret != -1 or post["root"] != pre["root"] or any(
                post[f][m - 1] != pre[f][m - 1] for m in S for f in ("left", "right", "parent", "height", "key"))):
            v.add("dup")
        if not dup and ret != 0:
            v.add("dup")
    sv, seq = py_struct_viols(post, S1)
    v |= sv
    if not sv and (fwd != seq or bwd != seq[::-1]):
        v.add("traversal")
    return v, S1


def py_validate(trace_path):
    """Judge a whole trace in Python: {line: sigs} with the same
    skip-after-structural-violation rule as TraceAvl."""
    res = {}
    cur, members, judging = None, set(), False
    with open(trace_path) as f:
        for ln, line in enumerate(f, 1):
            e = json.loads(line)
            if e["op"] == "set":
                cur = struct_of(e, e["keys"])
                _, seq = py_struct_viols(cur, ())
                if seq is not None:
                    members = set(seq)
                    sv, _ = py_struct_viols(cur, members)
                    judging = not sv
                    if judging and not (e["fwd"] == seq and e["bwd"] == seq[::-1]):
                        res[ln] = {"traversal"}
                else:
                    members, judging = set(), False
                continue
            keys = cur["key"]
            op = {"kind": e["op"], "n": e["n"], "key": e["key"]}
            if e["op"] == "ins" and 1 <= e["n"] <= len(keys):
                keys = list(keys)
                keys[e["n"] - 1] = e["key"]
            post = struct_of(e, keys)
            if judging:
                pre = dict(cur, key=keys)
                v, members = py_judge(pre, members, op, e["ret"], post, e["fwd"], e["bwd"])
                if v:
                    res[ln] = v
                    judging = not (v - {"dup", "traversal"})
            cur = post
    return res


# ------------------------------------------------------------------ TLC side
class UniqueScratch:
    """vlib.tlc names its metadir after a counter that concurrent threads can
    read twice; hand it a scratch whose sub() never returns the same directory."""

    def __init__(self, sc):
        self.sc, self.n, self.lock = sc, 0, threading.Lock()

    def sub(self, name):
        with self.lock:
            self.n += 1
            return self.sc.sub("%s-u%d" % (name, self.n))

    def path(self, *a):
        return self.sc.path(*a)


def tlc_validate(trace_path, nlines, sc):
    """TraceAvl on one trace.  Returns dict(viols={line: set(sigs)}, drift=[lines], cnt={...})."""
    if nlines == 0:
        return {"viols": {}, "drift": [], "cnt": collections.Counter()}
    r = vlib.tlc("TraceAvl.tla", "TraceAvl.cfg", sc, workers=1, env={"TRACE": trace_path},
                 timeout=3000, xmx="3g")
    done = vlib.printed(r["out"], "DONE")
    if r["distinct"] != nlines + 1 or r["violated"] or len(done) != 1 or r["timed_out"]:
        raise vlib.MachineryError("trace %s not fully consumed: %d lines, %d states, violated=%s\n%s" %
                                  (trace_path, nlines, r["distinct"], r["violated"], r["out"][-3000:]))
    d = json.loads(done[0])
    bad = vlib.printed(r["out"], "BADSET") + vlib.printed(r["out"], "BADOP")
    if bad or d["cnt"]["bad"]:
        raise vlib.MachineryError("driver produced an illegal script/trace %s: %s" % (trace_path, bad[:3]))
    viols = {}
    for s in vlib.printed(r["out"], "VIOL"):
        v = json.loads(s)
        viols[v["line"]] = set(v["sigs"])
    if len(viols) != d["cnt"]["viol"]:
        raise vlib.MachineryError("VIOL lines lost in %s" % trace_path)
    drift = [json.loads(s)["line"] for s in vlib.printed(r["out"], "DRIFT")]
    return {"viols": viols, "drift": drift, "cnt": collections.Counter(d["cnt"])}


def pre_and_op_at(trace_path, ln):
    """The structure before trace line ln (with keys, and with the key the
    call stores) and the call of line ln."""
    keys, prev = None, None
    with open(trace_path) as f:
        for i, line in enumerate(f, 1):
            e = json.loads(line)
            if i == ln:
                if e["op"] == "set":                      # the real walks over a constructed tree
                    return struct_of(e, list(e["keys"])), None
                op = {"kind": e["op"], "n": e["n"], "key": e["key"]}
                return struct_of(prev, list(keys)), op
            if e["op"] == "set":
                keys = list(e["keys"])
            elif e["op"] == "ins":
                keys[e["n"] - 1] = e["key"]
            prev = e
    raise vlib.MachineryError("line %d not in %s" % (ln, trace_path))


def nth_command(script_path, k):
    """The k-th (1-based) trace-producing command of a script."""
    i = 0
    with open(script_path) as f:
        for line in f:
            if line[:1] in "NTID" and line.strip():
                i += 1
                if i == k:
                    return line.strip()
    return None


# ------------------------------------------------------------------ one batch = script -> real code -> TLC
class Batch:
    """Runs scripts on the real code and judges the traces; collects
    violations (with confirmed single-step replays), drift and counters."""

    def __init__(self, sc, rep):
        self.sc, self.rep = sc, rep
        self.cnt = collections.Counter()
        self.drift = []
        self.found = collections.OrderedDict()     # sig -> (replay text, description)
        self.lines = 0
        self.traces = 0
        self.nontriv = set()

    def run_one(self, job):
        """job = (script_path, trace_path, crosscheck, keep_hashes).  Returns a result dict."""
        script_path, trace_path, cross, hashes = job
        status, nlines = run_harness(script_path, trace_path)
        res = tlc_validate(trace_path, nlines, self.sc)
        res.update(status=status, nlines=nlines, script=script_path, trace=trace_path, cands=[])
        if cross:
            pv = py_validate(trace_path)
            if pv != res["viols"]:
                raise vlib.MachineryError("TLC and the Python cross-check disagree on %s: TLC %s / Python %s" %
                                          (trace_path, sorted(res["viols"].items())[:3], sorted(pv.items())[:3]))
        # replay candidates: first violation per signature in this trace
        seen = set()
        for ln in sorted(res["viols"]):
            sigs = res["viols"][ln]
            if sigs - seen:
                seen |= sigs
                pre, op = pre_and_op_at(trace_path, ln)
                res["cands"].append((sigs, single_step_script(pre, op, "%s at trace line %d" % (",".join(sorted(sigs)), ln)),
                                     "%s of a %d-node tree" % (op_line(op), len(py_members(pre)))))
        if status != "ok":
            # the command after the last complete line did not return
            last_set = 0
            with open(trace_path) as f:
                for i, line in enumerate(f, 1):
                    if line.startswith('{"op":"set"'):
                        last_set = i
            # not a consequence of an earlier structural violation (the tree was still legal)
            if not any(ln > last_set and (sg - {"dup", "traversal"}) for ln, sg in res["viols"].items()):
                cmd = nth_command(script_path, nlines + 1)
                if cmd is None or nlines == 0:
                    raise vlib.MachineryError("harness died outside a command: %s %s" % (script_path, status))
                if cmd[0] in "ID":
                    pre, _ = pre_and_op_at_end(trace_path)
                    f_ = cmd.split()
                    op = {"kind": "ins", "n": int(f_[1]), "key": int(f_[2])} if cmd[0] == "I" else \
                         {"kind": "del", "n": int(f_[1]), "key": 0}
                    if op["kind"] == "ins":
                        pre["key"][op["n"] - 1] = op["key"]
                    res["cands"].append(({"crash"}, single_step_script(pre, op, status),
                                         "%s: %s" % (op_line(op), status[6:])))
                else:
                    raise vlib.MachineryError("harness died in a set command: %s" % script_path)
        if hashes:
            res["hashes"] = nontrivial_hashes(trace_path)
            with open(trace_path) as f:
                for i, line in enumerate(f):
                    if i == 40:
                        res["sample_line"] = line.strip()
                        break
            if not res["cands"]:
                os.unlink(trace_path)          # histories are big; keep only what a replay needs
        return res

    def run(self, jobs, nproc=None):
        results = vlib.parallel(self.run_one, jobs, nproc or vlib.NCPU)
        for res in results:
            self.cnt.update(res["cnt"])
            self.lines += res["nlines"]
            self.traces += 1
            self.drift += [(res["trace"], ln) for ln in res["drift"]]
            self.nontriv |= res.get("hashes", set())
            for sigs, text, desc in res["cands"]:
                for s in sorted(sigs):
                    if s not in self.found:
                        self.found[s] = (text, desc, sigs)
        return results

    def confirm_and_report(self, replay_path=None):
        """Every candidate is re-executed on its own (single step from the
        recorded pre-structure) and reported only if it violates again."""
        done = {}
        for s, (text, desc, sigs) in self.found.items():
            if text not in done:
                sp = self.sc.path("confirm", "c%d.scr" % len(done))
                tp = self.sc.path("confirm", "c%d.ndjson" % len(done))
                with open(sp, "w") as f:
                    f.write(text)
                status, nlines = run_harness(sp, tp)
                r = tlc_validate(tp, nlines, self.sc)
                again = set()
                for v in r["viols"].values():
                    again |= v
                if status != "ok" and not again:
                    again.add("crash")
                done[text] = again
            if s in done[text]:
                p = replay_path or vlib.save_replay_text("C16", text)
                self.rep.violation("C16:" + s, p, desc)
            else:
                vlib.log("C16: candidate %s did not reproduce from its single-step replay (%s)" % (s, desc))


def brief(t):
    return "root=%d left=%s right=%s height=%s" % (t["root"], t["left"], t["right"], t["height"])


def py_members(t):
    return py_struct_viols(t, ())[1] or []


def pre_and_op_at_end(trace_path):
    """Structure after the last line of a trace (with keys)."""
    keys, prev = None, None
    with open(trace_path) as f:
        for line in f:
            e = json.loads(line)
            if e["op"] == "set":
                keys = list(e["keys"])
            elif e["op"] == "ins":
                keys[e["n"] - 1] = e["key"]
            prev = e
    return struct_of(prev, list(keys)), None


_HEAD = re.compile(r'^\{"op":"(\w+)","n":(\d+),"key":(-?\d+),"ret":(-?\d+),"chg":(\d+),')


def nontrivial_hashes(trace_path):
    """Hashes of the distinct (structure before, call) pairs in which more
    than two nodes were re-linked (a rotation or a victim replacement) or a
    duplicate was rejected."""
    hs = set()
    prev = ""
    with open(trace_path) as f:
        for line in f:
            m = _HEAD.match(line)
            body = line[line.index('"root"'):line.index('"fwd"')]
            if m and m.group(1) != "set" and (int(m.group(5)) > 2 or m.group(4) == "-1"):
                hs.add(hash((prev, m.group(1), m.group(2), m.group(3))))
            prev = body
    return hs


# ------------------------------------------------------------------ model checking + generation
def progress_counts(out):
    """States generated / distinct from the last Progress line (a run cut by
    the outer timeout has no summary)."""
    g = d = 0
    for m in re.finditer(r"Progress\(\d+\) at [^\n]*?: (\d+) states generated[^\n]*?\) (\d+) distinct", out.replace(",", "")):
        g, d = int(m.group(1)), int(m.group(2))
    return g, d


def run_mc(cfg, sc, seed, timeout, workers):
    r = vlib.tlc("MC_Avl.tla", cfg, sc, workers=workers, env={"AVL_SEED": seed % 65536},
                 timeout=timeout, xmx="8g", extra=["-continue"])
    if not r["complete"] and not r["timed_out"] and not r["violated"]:
        raise vlib.MachineryError("MC_Avl/%s did not complete:\n%s" % (cfg, r["out"][-3000:]))
    if r["timed_out"]:
        r["generated"], r["distinct"] = progress_counts(r["out"])
    return r


def triples_of(r):
    ts = []
    for s in sorted(vlib.printed(r["out"], "GEN")):      # 16 workers print in any order
        try:
            ts.append(json.loads(s))
        except ValueError:
            if not r["timed_out"]:          # a line cut by the timeout is expected, anything else is not
                raise vlib.MachineryError("unparsable GEN line: %s" % s[:200])
    return ts


def write_triple_scripts(triples, sc, tag, per_file=6000):
    """One script per chunk: N, then (T pre, op) per triple.  Returns jobs and
    the index trace-line -> triple."""
    jobs, index = [], {}
    by_n = collections.defaultdict(list)
    for t in triples:
        by_n[len(t["pre"]["left"])].append(t)
    k = 0
    for nn, ts in sorted(by_n.items()):
        nchunks = max(1, min(len(ts), max(vlib.NCPU, (len(ts) + per_file - 1) // per_file)))
        for c in range(nchunks):
            chunk = ts[c::nchunks]
            sp = sc.path(tag, "t%d.scr" % k)
            tp = sc.path(tag, "t%d.ndjson" % k)
            with open(sp, "w") as f:
                f.write("N %d %d\n" % (nn, [0, 1, 7][k % 3]))
                for i, t in enumerate(chunk):
                    f.write(t_line(t["pre"]) + "\n" + op_line(t["op"]) + "\n")
                    index[(tp, 3 + 2 * i)] = t
            jobs.append((sp, tp, True, False))
            k += 1
    return jobs, index


def compare_triples(results, index):
    """Field-by-field comparison of the real results with the model's.
    Returns (compared, mismatches)."""
    compared, mism = 0, []
    for res in results:
        with open(res["trace"]) as f:
            for ln, line in enumerate(f, 1):
                t = index.get((res["trace"], ln))
                if t is None:
                    continue
                e = json.loads(line)
                compared += 1
                real = struct_of(e, None)
                real.pop("scale", None)
                model = dict(t["post"], key=None)
                model.pop("scale", None)
                if real != model or e["ret"] != t["ret"]:
                    mism.append((res["trace"], ln))
        # every triple of this file must have been reached unless the harness died
        if res["status"] == "ok":
            want = sum(1 for (tp, _ln) in index if tp == res["trace"])
            if res["nlines"] != 1 + 2 * want:
                raise vlib.MachineryError("trace %s has %d lines for %d triples" % (res["trace"], res["nlines"], want))
    return compared, mism


# ------------------------------------------------------------------ entry point
def run(pid, tier, seed, replay=None):
    rep = vlib.Report(pid, tier, seed)
    cfgt = TIERS[tier]
    harness()
    t0 = time.time()
    with vlib.Scratch("verif-" + pid) as sc0:
        sc = UniqueScratch(sc0)
        batch = Batch(sc, rep)
        if replay:
            tp = sc.path("replay", "r.ndjson")
            batch.run([(replay, tp, True, False)])
            batch.confirm_and_report(replay_path=replay)
            rep.add(states=batch.lines + 1, transitions=batch.lines, traces_validated_against_impl=1,
                    evaluations=batch.cnt["ops"], distinct_nontrivial=batch.cnt["nontriv"],
                    rule="replay of one recorded script", exhaustive=False)
            rep.sample({"replay": vlib.read(replay).splitlines()[:4]})
            return rep.finish()

        # ---- 1. model checking: oracle self-test and H <= 4 (H = 5 comes last)
        mc_runs = {}

        def mc_job(j):
            name, cfg, timeout, workers = j
            return name, run_mc(cfg, sc, seed, timeout, workers)
        small = vlib.parallel(mc_job, [("oracle", "MC_Avl_oracle.cfg", 600, 2),
                                       ("h4", "MC_Avl_quick.cfg", 900, max(2, vlib.NCPU - 4))], 2)
        mc_runs.update(small)
        model_viol = [(k, r["violated"]) for k, r in mc_runs.items() if r["violated"]]

        # ---- 2. spec -> code: replay every triple of H <= 4
        triples = triples_of(mc_runs["h4"])
        ninit = int(re.search(r"computing initial states: (\d+) distinct", mc_runs["h4"]["out"]).group(1))
        if len(triples) != mc_runs["h4"]["distinct"] - 2 * ninit and not model_viol:
            raise vlib.MachineryError("expected one GEN line per explored call: %d lines, %d states" %
                                      (len(triples), mc_runs["h4"]["distinct"]))
        jobs, index = write_triple_scripts(triples, sc, "tri4")
        results = batch.run(jobs)
        compared, mism = compare_triples(results, index)
        ntriples, nmism = compared, len(mism)
        tri_nontriv = sum(1 for t in triples if t["chg"] > 2 or t["ret"] == -1)
        tm = triples[len(triples) // 2]
        rep.sample("triple (model): pre %s ; call %s ; post %s ret %d" % (
            brief(tm["pre"]), op_line(tm["op"]), brief(tm["post"]), tm["ret"]))

        # ---- 3. code -> spec: random histories on the real tree
        rnd = random.Random(seed * 7919 + 16)
        hjobs = []
        for i in range(cfgt["hist_files"]):
            nkeys = 24 + (i % 9)                   # 24..32 distinct keys
            sp = sc.path("hist", "h%d.scr" % i)
            with open(sp, "w") as f:
                f.write(gen_history(random.Random(rnd.getrandbits(48)), nkeys, cfgt["hist_steps"]))
            hjobs.append((sp, sc.path("hist", "h%d.ndjson" % i), True, True))
        lines_before = batch.lines
        hres = batch.run(hjobs)
        hist_steps = batch.lines - lines_before - len(hjobs)
        rep.sample("history (script for the real code): " + " ; ".join(vlib.read(hjobs[0][0]).splitlines()[:14]) + " ...")
        if hres and hres[0].get("sample_line"):
            rep.sample("trace line 41 (real code): " + hres[0]["sample_line"])

        # ---- 4. thorough: the H = 5 exploration and its sampled triples
        exhaustive5 = False
        n5 = 0
        if cfgt["mc5_timeout"]:
            name, r5 = mc_job(("h5", "MC_Avl_thorough.cfg", cfgt["mc5_timeout"], vlib.NCPU))
            mc_runs[name] = r5
            exhaustive5 = bool(r5["complete"])
            if r5["violated"]:
                model_viol.append((name, r5["violated"]))
            t5 = triples_of(r5)
            n5 = len(t5)
            if t5:
                jobs5, index5 = write_triple_scripts(t5, sc, "tri5")
                res5 = batch.run(jobs5)
                c5, m5 = compare_triples(res5, index5)
                ntriples += c5
                nmism += len(m5)
                mism += m5
                tri_nontriv += sum(1 for t in t5 if t["chg"] > 2 or t["ret"] == -1)

        # ---- verdicts
        batch.confirm_and_report()
        if model_viol and not rep.viol:
            raise vlib.MachineryError("the MODEL violates its invariants (%s) but the real code was not seen "
                                      "to: model and code disagree, or a defect the replay did not reach" % model_viol)
        ndrift = batch.cnt["drift"]
        if ndrift or nmism:
            print("DRIFT property=%s: %d real results differ field-by-field from the model's although they are "
                  "correct AVL trees (lock-step on %d calls; %d of %d replayed triples differ)" %
                  (pid, ndrift, batch.cnt["ops"], nmism, ntriples), flush=True)
        mc_states = sum(r["distinct"] for r in mc_runs.values())
        mc_trans = sum(r["generated"] for r in mc_runs.values())
        rep.add(states=mc_states + batch.lines + batch.traces,
                transitions=mc_trans + batch.lines,
                traces_validated_against_impl=batch.traces,
                trace_lines=batch.lines,
                evaluations=batch.cnt["ops"],
                distinct_nontrivial=tri_nontriv + len(batch.nontriv),
                triples_replayed=ntriples, triples_h5_sampled=n5, history_steps=hist_steps,
                duplicates_rejected=batch.cnt["dup"],
                drift=ndrift, triple_mismatches=nmism,
                model_checks=[dict(cfg=k, states=r["distinct"], transitions=r["generated"],
                                   complete=bool(r["complete"]), wall_s=round(r["wall_s"], 1))
                              for k, r in sorted(mc_runs.items())],
                rule="evaluation = one real iv_avl_tree_insert/delete call whose complete resulting structure "
                     "(every field of every node, plus forward and backward walks with the real next/prev/min/max) "
                     "TLC judged with the IvAvl predicates; non-trivial = distinct (structure before, call) in which "
                     "more than two nodes were re-linked (rotation or victim replacement) or a duplicate was rejected",
                exhaustive=bool(mc_runs["h4"]["complete"] and (tier == "quick" or exhaustive5)),
                exhaustive_scope="every height-balanced shape of height <= %d x every gap insert, duplicate insert "
                                 "and delete, in the model and (H <= 4) replayed on the real code" %
                                 (5 if exhaustive5 else 4))
        if not rep.viol and (batch.cnt["ops"] == 0 or batch.cnt["dup"] == 0 or tri_nontriv == 0):
            raise vlib.MachineryError("vacuous run: no calls / no duplicates / no rotations exercised")
    rep.assumptions += [
        "the comparator is a total order on integer keys; nodes outside the tree are never passed to delete",
        "heights stay below 256 (uint8_t height is not wrapped in the model)",
        "TLC evaluates spec/IvAvl.tla PART 2/3 on every structure dumped by harness/ivh_avl.c; the one-pass form "
        "is proved equal to the declarative one on all explored results and on all single-field corruptions (H<=3)"]
    vlib.log("C16 %s: %.0fs" % (tier, time.time() - t0))
    return rep.finish()
