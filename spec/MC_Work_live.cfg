SPECIFICATION FairSpec
CONSTANTS
  Workers = {w1, w2}
  MaxThreads = 1
  Items = {a, b, c}
  ContItems = {b}
  LateItems = {c}
PROPERTIES AllComplete Released
CHECK_DEADLOCK FALSE
