#!/usr/bin/env python3
"""C18 (memory / descriptor hygiene): the scenario programs of the other
properties run on the "rec" build (compiler-instrumented accesses, library
allocations in a guarded arena, descriptor creation logged) with repeated
init / use / deinit cycles; TLC validates every trace against MonRes."""
import collections
import os
import random
import sys

sys.path.insert(0, os.path.dirname(os.path.abspath(__file__)))
import vlib
import coregen
import corerun


def with_opts(script, opts):
    first, rest = script.split("\n", 1)
    return first + " " + opts + "\n" + rest


def signature(rule, script, verdict):
    """refine a rule into the signature used by known_findings.json"""
    first = script.split("\n", 1)[0]
    if rule == "C18:out-of-bounds" and ("method=poll" in first or "method=ppoll" in first):
        return "C18:out-of-bounds@poll-notify-without-slot"
    return rule


def gen(pid, tier, seed):
    rnd = random.Random(seed * 7919 + 3)
    n = 200 if tier == "quick" else 800
    scripts = []
    # loop-core programs on every method, three init/use/deinit cycles
    for s in coregen.gen_scripts(seed, n, prefix="C18c"):
        scripts.append(with_opts(s, "memrec=1 cycles=%d" % rnd.choice([1, 2, 3])))
    import mtcheck
    import workcheck
    import sigcheck
    k = 60 if tier == "quick" else 800
    for i in range(k):
        m = rnd.choice(coregen.METHODS)
        scripts.append(with_opts(mtcheck.random_mt_script(rnd, "C18e%d.%d" % (seed, i), "C08", m, []), "memrec=1"))
        scripts.append(with_opts(mtcheck.random_mt_script(rnd, "C18r%d.%d" % (seed, i), "C09", m, []), "memrec=1"))
        scripts.append(with_opts(workcheck.random_work_script(rnd, "C18w%d.%d" % (seed, i), "C13", m), "memrec=1"))
        scripts.append(with_opts(sigcheck.gen_c10(rnd, "C18s%d.%d" % (seed, i), m), "memrec=1"))
        scripts.append(with_opts(sigcheck.gen_c11(rnd, "C18p%d.%d" % (seed, i), m), "memrec=1"))
        scripts.append(with_opts(sigcheck.gen_c19(rnd, "C18o%d.%d" % (seed, i), m), "memrec=1"))
    # thread churn: short-lived threads that use the library
    for i in range(20 if tier == "quick" else 300):
        L = ["B C18t%d.%d method=%s seed=%d maxwait=60 maxcb=200 memrec=1" % (seed, i, rnd.choice(coregen.METHODS), rnd.randint(1, 1 << 30))]
        for t in range(1, rnd.randint(2, 5)):
            L.append("S thr_create %d" % t)
            body = rnd.choice([["iv_init", "iv_deinit"], ["iv_init"], ["iv_init", "tm_reg %d 1 0 1000" % (t + 3), "iv_main", "iv_deinit"],
                               ["iv_init", "tm_reg %d 1 0 1000" % (t + 3), "iv_main"], ["yield"], ["iv_init", "pthread_exit"]])
            L.append("O tm %d" % (t + 3))
            L += ["T %d %s" % (t, b) for b in body]
        L.append("X")
        scripts.append("\n".join(L) + "\n")
    # loops torn down (iv_deinit, or thread exit) with many timers still registered
    for i, cnt in enumerate([100, 127, 128, 129, 300, 1000, 20000] if tier == "quick" else [100, 127, 128, 129, 130, 255, 256, 300, 1000, 16383, 16384, 16385, 20000]):
        m = rnd.choice(coregen.METHODS)
        scripts.append("\n".join(["B C18b%d.%d method=%s seed=1 maxwait=30 memrec=1" % (seed, i, m), "O tm 1", "O tm 2",
                                  "S tm_bulk 2 %d 1000" % cnt, "S tm_reg 1 1 0 1000", "R tm 1 0 1 quit", "X"]) + "\n")
        scripts.append("\n".join(["B C18bt%d.%d method=%s seed=1 maxwait=30 memrec=1" % (seed, i, m), "O tm 1", "O tm 2",
                                  "S thr_create 1", "T 1 iv_init", "T 1 tm_bulk 2 %d 1000" % cnt, "T 1 tm_reg 1 1 0 1000",
                                  "R tm 1 0 1 quit", "T 1 iv_main"] + (["T 1 iv_deinit"] if i % 2 else []) + ["X"]) + "\n")
    # ... and with that many timers all firing (the store grows and shrinks again; nothing is left behind)
    for i, cnt in enumerate([130, 300, 1000] if tier == "quick" else [127, 128, 130, 256, 300, 1000, 16385, 20000]):
        m = rnd.choice(coregen.METHODS)
        scripts.append("\n".join(["B C18x%d.%d method=%s seed=1 maxwait=30 memrec=1 cycles=%d" % (seed, i, m, rnd.choice([1, 2])),
                                  "O tm 1", "O tm 2", "S tm_bulk 2 %d 0" % cnt, "S tm_reg 1 1 0 1000", "X"]) + "\n")
    return scripts


NEED = ["C18:not-lent", "C18:heap-unknown", "C18:leak-mem", "C18:leak-fd", "C18:tls-unpaired", "C18:flags", "C18:bad-free"]


def run(pid, tier, seed, replay=None):
    rep = vlib.Report(pid, tier, seed)
    exe = corerun.build_core("rec")
    with vlib.Scratch("verif-" + pid) as sc:
        scripts = [vlib.read(replay)] if replay else gen(pid, tier, seed)
        idx = corerun.script_index(scripts)
        tfs = corerun.run_scripts(exe, scripts, sc, tag="run")
        verdicts, nev = vlib.validate_traces(tfs, sc)
        if len(verdicts) != len(scripts):
            raise vlib.MachineryError("%d scripts but %d verdicts" % (len(scripts), len(verdicts)))
        bad = collections.OrderedDict()
        nontrivial, seen_rules = set(), collections.Counter()
        for v in verdicts:
            for s in v["seen"]:
                if s.startswith("C18"):
                    seen_rules[s] += 1
                    nontrivial.add(vlib.sha(idx[v["id"]].split("\n", 1)[1])[:16])
            for r in v["viols"]:
                if r.startswith("C18"):
                    bad.setdefault(v["id"], []).append(r)
        pick, rs = [], set()
        for sid, rules in bad.items():
            sigs = {signature(r, idx[sid], None) for r in rules}
            if len(pick) < 10 or not sigs <= rs:
                pick.append(sid)
                rs |= sigs
            if len(pick) >= 40:
                break
        if pick:
            tf2 = corerun.run_scripts(exe, [idx[s] for s in pick], sc, tag="confirm")
            v2, _ = vlib.validate_traces(tf2, sc)
            again = {v["id"]: set(v["viols"]) for v in v2}
            for sid in pick:
                for r in sorted(set(bad[sid])):
                    if r in again.get(sid, ()):
                        rep.violation(signature(r, idx[sid], None), vlib.save_replay_text(pid, idx[sid]), "script %s" % sid)
        if not replay:
            # descriptor balance of iv_fd_pump (splice buffers are pipe pairs, cached per thread): single
            # sessions and many pumps stalled at the same time, judged by MonPump's balance rule
            import check_c17
            exe17, _proj = check_c17.build("plain")
            s17 = check_c17.many_scripts(tier) + check_c17.random_scripts(seed + 3, 300 if tier == "quick" else 3000)
            i17 = {check_c17.script_id(x): x for x in s17}
            v17, n17 = check_c17.validate(check_c17.run_scripts(exe17, s17, sc, "pumpfd"), sc)
            if len(v17) != len(s17):
                raise vlib.MachineryError("%d pump scripts but %d verdicts" % (len(s17), len(v17)))
            for v in v17:
                if "C17:fd-leak" in v["viols"]:
                    rep.violation("C18:leak-fd/pump", vlib.save_replay_text(pid, i17[v["id"]]), "pump script %s" % v["id"])
            rep.add(pump_scripts=len(s17), pump_events=n17)
        rep.add(evaluations=len(scripts), distinct_nontrivial=len(nontrivial), traces_validated_against_impl=len(verdicts),
                trace_events=nev, states=nev + len(tfs), transitions=nev, rules_exercised=dict(seen_rules),
                ends=dict(collections.Counter(v["why"] for v in verdicts)),
                rule="executions of the scenario programs of C01-C13/C19 on the instrumented (rec) build, loop-core programs "
                     "repeated for 1-3 init/use/deinit cycles, plus thread-churn programs; non-trivial = distinct program in which "
                     "an ownership / release rule had its antecedent satisfied", exhaustive=False)
        rep.sample({"script": scripts[0].splitlines()[:20]})
        vac = [r for r in NEED if seen_rules[r] == 0]
        if vac and not replay and not rep.viol:
            raise vlib.MachineryError("vacuous run: rules never exercised: %s" % vac)
    rep.assumptions += [
        "accesses are those of the library's own compiled code (gcc -fsanitize=thread instrumentation with harness/memrec.c as runtime); libc-internal accesses are not seen",
        "library allocations are served from a bump arena with guard gaps, freed blocks are never reused",
        "TLC evaluates spec/MonRes.tla on every recorded execution"]
    return rep.finish()
