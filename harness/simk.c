/* simk -- virtual kernel, baton scheduler and trace logger (DESIGN 3.2, App. E) */
#include "simk.h"
#include <stdarg.h>
#include <fcntl.h>
#include <sys/eventfd.h>
#include <sys/syscall.h>
#include <sys/timerfd.h>
#include <sys/socket.h>

ns_t vnow = VBASE;
__thread int me = 0;
int simk_passthrough;
int simk_in_probe;
int simk_log_dec;
int simk_quiet_io;
int simk_jump_prob;		/* 1 in N scheduling points: virtual time jumps ~10 s */
int simk_wait_limit = 1000;
struct simk_hooks hooks;

/* ------------------------------------------------------------------ trace */
static char trbuf[1 << 20];
static size_t trlen;
static int trfd = 1;
static long trseq;

void tr_open(int fd) { trfd = fd; }

void tr_flush(void)
{
	size_t off = 0;
	while (off < trlen) {
		ssize_t r = __real_write(trfd, trbuf + off, trlen - off);
		if (r <= 0) {
			if (r < 0 && errno == EINTR)
				continue;
			break;
		}
		off += r;
	}
	trlen = 0;
}

static pthread_mutex_t trmx = PTHREAD_MUTEX_INITIALIZER;
int __real_pthread_mutex_lock(pthread_mutex_t *);
int __real_pthread_mutex_unlock(pthread_mutex_t *);

extern int memrec_on;
void memrec_flush(void);

void tr(const char *fmt, ...)
{
	va_list ap;
	int n;

	if (memrec_on)
		memrec_flush();	/* the accesses of the segment that ends here */

	if (simk_passthrough)
		__real_pthread_mutex_lock(&trmx);
	if (trlen > sizeof(trbuf) - 8192)
		tr_flush();
	n = snprintf(trbuf + trlen, 64, "{\"t\":%d,", me);
	trlen += n;
	va_start(ap, fmt);
	n = vsnprintf(trbuf + trlen, sizeof(trbuf) - trlen - 2, fmt, ap);
	va_end(ap);
	if (n > 0)
		trlen += ((size_t)n < sizeof(trbuf) - trlen - 2) ? (size_t)n : sizeof(trbuf) - trlen - 3;
	trbuf[trlen++] = '\n';
	trseq++;
	if (simk_passthrough)
		__real_pthread_mutex_unlock(&trmx);
}

/* ----------------------------------------------------------------- errnos */
static const struct { const char *n; int e; } errtab[] = {
	{"EINTR", EINTR}, {"ENOSYS", ENOSYS}, {"EPERM", EPERM}, {"EMFILE", EMFILE},
	{"EAGAIN", EAGAIN}, {"EINVAL", EINVAL}, {"EBADF", EBADF}, {"EPIPE", EPIPE},
	{"ECHILD", ECHILD}, {"ESRCH", ESRCH}, {"ENOMEM", ENOMEM}, {"EIO", EIO},
	{"ECONNRESET", ECONNRESET}, {"ENFILE", ENFILE}, {"EEXIST", EEXIST},
	{"ENOENT", ENOENT}, {NULL, 0} };

int errno_by_name(const char *s)
{
	for (int i = 0; errtab[i].n; i++)
		if (!strcmp(errtab[i].n, s))
			return errtab[i].e;
	return atoi(s);
}

const char *errno_name(int e)
{
	static __thread char b[16];
	for (int i = 0; errtab[i].n; i++)
		if (errtab[i].e == e)
			return errtab[i].n;
	snprintf(b, sizeof b, "E%d", e);
	return b;
}

/* ----------------------------------------------------------------- faults */
#define MAXFAULT 32
static struct { char call[24]; int nth, err, from; } faults[MAXFAULT];
static int nfaults;
static struct { char call[24]; int cnt; } callcnt[64];
static int ncallcnt;

void fault_add(const char *call, int nth, int err, int from)
{
	if (nfaults >= MAXFAULT)
		return;
	snprintf(faults[nfaults].call, sizeof faults[0].call, "%s", call);
	faults[nfaults].nth = nth;
	faults[nfaults].err = err;
	faults[nfaults].from = from;
	nfaults++;
}

int fault_check(const char *call)
{
	int i, c = 0;

	if (!nfaults)
		return 0;
	for (i = 0; i < ncallcnt; i++)
		if (!strcmp(callcnt[i].call, call))
			break;
	if (i == ncallcnt) {
		if (ncallcnt == 64)
			return 0;
		snprintf(callcnt[i].call, sizeof callcnt[0].call, "%s", call);
		callcnt[i].cnt = 0;
		ncallcnt++;
	}
	c = ++callcnt[i].cnt;
	for (i = 0; i < nfaults; i++) {
		if (strcmp(faults[i].call, call))
			continue;
		if (c == faults[i].nth || (faults[i].from && c >= faults[i].nth)) {
			tr("\"e\":\"Flt\",\"c\":\"%s\",\"n\":%d,\"err\":\"%s\"}", call, c, errno_name(faults[i].err));
			return faults[i].err;
		}
	}
	return 0;
}

/* -------------------------------------------------------------- scheduler */
#define MAXT 64
enum tst { ST_NONE, ST_RUN, ST_LOCK, ST_WAIT, ST_JOIN, ST_DONE, ST_FLAG };
struct th {
	enum tst st;
	void *obj;
	ns_t deadline;		/* <0: none */
	int retry;
	pthread_t pt;
	int join_target;
	int detached;
	int joined;
};
static struct th T[MAXT];
static int nth = 1;
static pthread_mutex_t M = PTHREAD_MUTEX_INITIALIZER;
static pthread_cond_t C = PTHREAD_COND_INITIALIZER;
static int cur;
static unsigned rs = 1;
static const int *schedv;
static int schedn, schedi;
static int quiesce_idx;
static int nwaits;
static pthread_key_t exitkey;
static int sticky = 3;		/* 1 in `sticky+1` chance to consider switching */
int simk_sched_det;		/* 1: after the prefix, stay on the current thread, else lowest id */
#define MAXDEC 2000
static short dec[MAXDEC][2];
static int ndec;

static int uflag[32];	/* flags of the scenario program (a blocking work function waits for one) */
struct lk { void *m; int owner; };
#define MAXLK 256
static struct lk L[MAXLK];
static int nl;

int __real_pthread_create(pthread_t *, const pthread_attr_t *, void *(*)(void *), void *);
int __real_pthread_join(pthread_t, void **);
int __real_pthread_detach(pthread_t);
int __real_pthread_spin_lock(pthread_spinlock_t *);
int __real_pthread_spin_unlock(pthread_spinlock_t *);

void sync_log(const char *op, int obj);
int simk_nthreads(void) { return nth; }
/* can thread t get to a signal-delivery point (it runs or sits in a wait)? */
int simk_thread_takes_signals(int t) { return t >= 0 && t < nth && (T[t].st == ST_RUN || T[t].st == ST_WAIT); }
int simk_thread_alive(int t) { return t >= 0 && t < nth && T[t].st != ST_DONE; }
int simk_wait_count(void) { return nwaits; }
void simk_set_schedule(const int *s, int n) { schedv = s; schedn = n; schedi = 0; }
void simk_set_sticky(int n) { sticky = n; }
void simk_yield(void);

static int lk_idx(void *m)
{
	for (int i = 0; i < nl; i++)
		if (L[i].m == m)
			return i;
	if (nl == MAXLK)
		simk_end("toomanylocks", 0);
	L[nl].m = m;
	L[nl].owner = -1;
	return nl++;
}

static unsigned rnd(void)
{
	rs = rs * 1103515245u + 12345u;
	return rs >> 16;
}

static int enabled(int i)
{
	struct th *t = &T[i];

	switch (t->st) {
	case ST_RUN:
		return 1;
	case ST_LOCK:
		return L[lk_idx(t->obj)].owner == -1;
	case ST_WAIT:
		return t->retry || (t->deadline >= 0 && t->deadline <= vnow) || simk_sig_pending_unblocked(i);
	case ST_JOIN:
		return T[t->join_target].st == ST_DONE;
	case ST_FLAG:
		return uflag[(long)t->obj & 31];
	default:
		return 0;
	}
}

/* timer descriptors (simulated by eventfds) */
#define MAXTF 16
static struct { int fd; int armed; int fired; ns_t deadline; } TF[MAXTF];
static int ntf;

static void tf_fire_due(void)
{
	for (int i = 0; i < ntf; i++) {
		if (TF[i].armed && TF[i].deadline <= vnow) {
			uint64_t one = 1;
			__real_write(TF[i].fd, &one, 8);
			TF[i].armed = 0;
			TF[i].fired = 1;
		}
	}
}

static ns_t tf_min_deadline(void)
{
	ns_t d = -1;
	for (int i = 0; i < ntf; i++)
		if (TF[i].armed && (d < 0 || TF[i].deadline < d))
			d = TF[i].deadline;
	return d;
}

/* as seen by a waiter: armed, or expired and not yet consumed */
static ns_t tf_effective(void)
{
	ns_t d = -1;
	for (int i = 0; i < ntf; i++)
		if ((TF[i].armed || TF[i].fired) && (d < 0 || TF[i].deadline < d))
			d = TF[i].deadline;
	return d;
}

void simk_progress(void)
{
	for (int i = 0; i < nth; i++)
		T[i].retry = 1;
}

void simk_advance(ns_t d)
{
	vnow += d;
	tf_fire_due();
	simk_progress();
}

/* environment-side passage of time while every thread is blocked: never
 * beyond the earliest deadline some waiter asked for */
void simk_advance_clamped(ns_t d)
{
	ns_t target = vnow + d, md = tf_min_deadline();

	for (int i = 0; i < nth; i++)
		if (T[i].st == ST_WAIT && T[i].deadline >= 0 && (md < 0 || T[i].deadline < md))
			md = T[i].deadline;
	if (md >= 0 && target > md)
		target = md;
	if (target > vnow)
		vnow = target;
	tf_fire_due();
	simk_progress();
}

/* nothing is enabled: apply scripted environment events, else jump virtual
 * time to the earliest deadline, else report a hang.  Called with M held. */
static void quiescence(void)
{
	ns_t d = -1;
	int q = ++quiesce_idx;

	tr("\"e\":\"Qui\",\"n\":%d}", q);
	if (hooks.env_at_quiescence && hooks.env_at_quiescence(q) > 0) {
		simk_progress();
		return;
	}
	for (int i = 0; i < nth; i++)
		if (T[i].st == ST_WAIT && T[i].deadline >= 0 && (d < 0 || T[i].deadline < d))
			d = T[i].deadline;
	ns_t td = tf_min_deadline();
	if (td >= 0 && (d < 0 || td < d))
		d = td;
	/* the horizon of an execution: a deadline decades away counts as "never" (the virtual clock
	 * stays far below the value at which logged seconds are clamped) */
	if (d > VBASE + SIMK_HORIZON)
		d = -1;
	if (d < 0) {
		if (hooks.env_at_hang && hooks.env_at_hang() > 0) {
			simk_progress();
			return;
		}
		simk_end("hang", 0);
	}
	if (d > vnow)
		vnow = d;
	tf_fire_due();
	simk_progress();
}

/* choose who runs next; returns when the calling thread holds the baton */
static void pick_and_wait(void)
{
	for (;;) {
		int cand[MAXT], n = 0, nx;

		for (int i = 0; i < nth; i++)
			if (enabled(i))
				cand[n++] = i;
		if (n == 0) {
			quiescence();
			continue;
		}
		if (simk_jump_prob && !simk_sched_det && (rnd() % simk_jump_prob) == 0) {
			/* time passes while threads are runnable (e.g. across the
			 * 10 s idle timeout of a pool thread) */
			vnow += (rnd() & 1) ? 10 * NSEC : 10 * NSEC + 1;
			tr("\"e\":\"Env\",\"op\":\"jump\",\"o\":0,\"n\":0,\"now\":[%lld,%lld]}", TS(vnow));
			tf_fire_due();
			simk_progress();
			continue;
		}
		nx = -1;
		if (n > 1 && schedv && schedi < schedn) {
			int want = schedv[schedi++];
			for (int i = 0; i < n; i++)
				if (cand[i] == want)
					nx = want;
		}
		if (nx < 0) {
			int mine = 0;
			for (int i = 0; i < n; i++)
				if (cand[i] == me)
					mine = 1;
			if (n == 1)
				nx = cand[0];
			else if (simk_sched_det)
				nx = mine ? me : cand[0];
			else if (mine && (rnd() % (sticky + 1)) != 0)
				nx = me;
			else
				nx = cand[rnd() % n];
		}
		if (n > 1 && ndec < MAXDEC) {
			int mask = 0;
			for (int i = 0; i < n; i++)
				mask |= 1 << cand[i];
			dec[ndec][0] = nx;
			dec[ndec][1] = mask;
			ndec++;
		}
		cur = nx;
		if (cur != me) {
			pthread_cond_broadcast(&C);
			while (cur != me)
				pthread_cond_wait(&C, &M);
		}
		return;
	}
}

static int mt(void) { return nth > 1 && !simk_passthrough; }

void sync_log(const char *op, int obj)
{
	if (nth > 1 || simk_passthrough)
		tr("\"e\":\"Sy\",\"op\":\"%s\",\"x\":%d}", op, obj);
}

int __wrap_pthread_mutex_lock(pthread_mutex_t *m)
{
	if (simk_passthrough) {
		int r = __real_pthread_mutex_lock(m);
		return r;
	}
	__real_pthread_mutex_lock(&M);
	int li = lk_idx(m);
	T[me].st = ST_LOCK;
	T[me].obj = m;
	pick_and_wait();
	L[li].owner = me;
	T[me].st = ST_RUN;
	sync_log("lock", li);
	__real_pthread_mutex_unlock(&M);
	return __real_pthread_mutex_lock(m);
}

int __wrap_pthread_mutex_unlock(pthread_mutex_t *m)
{
	if (simk_passthrough)
		return __real_pthread_mutex_unlock(m);
	int r = __real_pthread_mutex_unlock(m);
	__real_pthread_mutex_lock(&M);
	int li = lk_idx(m);
	L[li].owner = -1;
	sync_log("unlock", li);
	if (mt())
		pick_and_wait();
	__real_pthread_mutex_unlock(&M);
	return r;
}

int __wrap_pthread_spin_lock(pthread_spinlock_t *m)
{
	if (simk_passthrough)
		return __real_pthread_spin_lock(m);
	__real_pthread_mutex_lock(&M);
	int li = lk_idx((void *)m);
	T[me].st = ST_LOCK;
	T[me].obj = (void *)m;
	pick_and_wait();
	L[li].owner = me;
	T[me].st = ST_RUN;
	sync_log("lock", li);
	__real_pthread_mutex_unlock(&M);
	return __real_pthread_spin_lock(m);
}

int __wrap_pthread_spin_unlock(pthread_spinlock_t *m)
{
	if (simk_passthrough)
		return __real_pthread_spin_unlock(m);
	int r = __real_pthread_spin_unlock(m);
	__real_pthread_mutex_lock(&M);
	int li = lk_idx((void *)m);
	L[li].owner = -1;
	sync_log("unlock", li);
	if (mt())
		pick_and_wait();
	__real_pthread_mutex_unlock(&M);
	return r;
}

int __real_pthread_once(pthread_once_t *, void (*)(void));

int __wrap_pthread_once(pthread_once_t *o, void (*fn)(void))
{
	int li = simk_passthrough ? 0 : lk_idx(o);
	if (!simk_passthrough)
		sync_log("acq", li);
	int r = __real_pthread_once(o, fn);
	if (!simk_passthrough)
		sync_log("rel", li);
	return r;
}

int __real_pthread_spin_init(pthread_spinlock_t *, int);
int __real_pthread_mutex_init(pthread_mutex_t *, const pthread_mutexattr_t *);

/* (re-)initialisation makes the lock free whatever the table said (the
 * library re-initialises its signal lock in a forked child) */
int __wrap_pthread_spin_init(pthread_spinlock_t *m, int ps)
{
	if (!simk_passthrough)
		L[lk_idx((void *)m)].owner = -1;
	return __real_pthread_spin_init(m, ps);
}

int __wrap_pthread_mutex_init(pthread_mutex_t *m, const pthread_mutexattr_t *a)
{
	if (!simk_passthrough)
		L[lk_idx(m)].owner = -1;
	return __real_pthread_mutex_init(m, a);
}

/* a plain yield point (used around operations that publish state to other
 * threads: writes to event descriptors, epoll_ctl kicks, ...) */
static void yield_point(void)
{
	simk_sigpoint();
	if (!mt())
		return;
	__real_pthread_mutex_lock(&M);
	pick_and_wait();
	__real_pthread_mutex_unlock(&M);
}

void simk_yield(void) { yield_point(); }

/* the scenario program blocks the calling thread until another thread sets
 * flag n (used to keep work functions running for as long as a scenario needs) */
void simk_flag_wait(int n)
{
	if (simk_passthrough)
		return;
	__real_pthread_mutex_lock(&M);
	while (!uflag[n & 31]) {
		T[me].st = ST_FLAG;
		T[me].obj = (void *)(long)(n & 31);
		pick_and_wait();
	}
	T[me].st = ST_RUN;
	sync_log("acq", 5000 + (n & 31));
	__real_pthread_mutex_unlock(&M);
}

void simk_flag_set(int n)
{
	__real_pthread_mutex_lock(&M);
	sync_log("rel", 5000 + (n & 31));
	uflag[n & 31] = 1;
	simk_progress();
	__real_pthread_mutex_unlock(&M);
	yield_point();
}

struct boot { void *(*fn)(void *); void *arg; int id; };

static void exitkey_d(void *v)
{
	long round = (long)v;

	if (round == 1) {
		/* come back after the library's own exit destructors ran */
		pthread_setspecific(exitkey, (void *)2);
		return;
	}
	__real_pthread_mutex_lock(&M);
	T[me].st = ST_DONE;
	simk_sig_thread_exit(me);
	sync_log("exit", me);
	simk_progress();
	/* hand the baton on without waiting for it back */
	for (;;) {
		int n = 0, cand[MAXT];
		for (int i = 0; i < nth; i++)
			if (enabled(i))
				cand[n++] = i;
		if (n) {
			cur = cand[rnd() % n];
			pthread_cond_broadcast(&C);
			break;
		}
		quiescence();
	}
	__real_pthread_mutex_unlock(&M);
}

static void *boot(void *p)
{
	struct boot b = *(struct boot *)p;

	__real_free(p);
	me = b.id;
	pthread_setspecific(exitkey, (void *)1);
	__real_pthread_mutex_lock(&M);
	while (cur != me)
		pthread_cond_wait(&C, &M);
	sync_log("begin", me);
	__real_pthread_mutex_unlock(&M);
	return b.fn(b.arg);
}

int __wrap_pthread_create(pthread_t *pt, const pthread_attr_t *a, void *(*fn)(void *), void *arg)
{
	if (simk_passthrough)
		return __real_pthread_create(pt, a, fn, arg);
	int e = fault_check("pthread_create");
	if (e)
		return e;
	struct boot *b = __real_malloc(sizeof *b);
	b->fn = fn;
	b->arg = arg;
	__real_pthread_mutex_lock(&M);
	if (nth >= MAXT)
		simk_end("toomanythreads", 0);
	b->id = nth++;
	T[b->id].st = ST_RUN;
	T[b->id].deadline = -1;
	simk_thread_inherit_mask(b->id, me);
	sync_log("create", b->id);
	__real_pthread_mutex_unlock(&M);
	int r = __real_pthread_create(pt, a, boot, b);
	T[b->id].pt = *pt;
	yield_point();
	return r;
}

static int tid_of(pthread_t pt)
{
	/* pthread_t values are reused after a join: skip joined threads */
	for (int i = 0; i < nth; i++)
		if (!T[i].joined && pthread_equal(T[i].pt, pt))
			return i;
	return -1;
}

int __wrap_pthread_join(pthread_t pt, void **rv)
{
	if (simk_passthrough)
		return __real_pthread_join(pt, rv);
	__real_pthread_mutex_lock(&M);
	int tgt = tid_of(pt);
	if (tgt < 0)
		simk_end("badjoin", 0);
	T[me].st = ST_JOIN;
	T[me].join_target = tgt;
	pick_and_wait();
	T[me].st = ST_RUN;
	T[tgt].joined = 1;
	sync_log("join", tgt);
	tr("\"e\":\"Join\",\"x\":%d}", tgt);
	__real_pthread_mutex_unlock(&M);
	return __real_pthread_join(pt, rv);
}

int __wrap_pthread_detach(pthread_t pt)
{
	if (!simk_passthrough) {
		int tgt = tid_of(pt);
		if (tgt >= 0)
			T[tgt].detached = 1;
		tr("\"e\":\"Detach\",\"x\":%d}", tgt);
	}
	return __real_pthread_detach(pt);
}

/* ------------------------------------------------------------------ clock */
int __wrap_clock_gettime(clockid_t c, struct timespec *ts)
{
	if (simk_passthrough) {
		int r = __real_clock_gettime(c, ts);
		tr("\"e\":\"Clk\",\"v\":[%lld,%lld]}", (long long)ts->tv_sec, (long long)ts->tv_nsec);
		return r;
	}
	int e = fault_check("clock_gettime");
	if (e) {
		errno = e;
		return -1;
	}
	ts->tv_sec = vnow / NSEC;
	ts->tv_nsec = vnow % NSEC;
	tr("\"e\":\"Clk\",\"v\":[%lld,%lld]}", TS(vnow));
	return 0;
}

int __wrap_gettimeofday(struct timeval *tv, void *tz)
{
	tv->tv_sec = vnow / NSEC;
	tv->tv_usec = (vnow % NSEC) / 1000;
	tr("\"e\":\"Clk\",\"v\":[%lld,%lld]}", TS(vnow));
	return 0;
}

/* ------------------------------------------------------------------ waits */
int __real_epoll_wait(int, struct epoll_event *, int, int);
int __real_epoll_pwait2(int, struct epoll_event *, int, const struct timespec *, const sigset_t *);
int __real_ppoll(struct pollfd *, nfds_t, const struct timespec *, const sigset_t *);

static int evbits_epoll(uint32_t e)
{
	return ((e & EPOLLIN) ? 1 : 0) | ((e & EPOLLOUT) ? 2 : 0) |
	       ((e & EPOLLERR) ? 4 : 0) | ((e & EPOLLHUP) ? 8 : 0);
}

static int evbits_poll(short e)
{
	return ((e & POLLIN) ? 1 : 0) | ((e & POLLOUT) ? 2 : 0) |
	       ((e & POLLERR) ? 4 : 0) | ((e & POLLHUP) ? 8 : 0) |
	       ((e & POLLNVAL) ? 16 : 0);
}

static void log_wr(int r, int err, struct epoll_event *ev, struct pollfd *pf, nfds_t npf)
{
	char evs[512], truth[512];
	int arr[64], oth = 0, n = hooks.nfid, off = 0;

	memset(arr, 0, sizeof arr);
	if (r > 0 && ev) {
		for (int i = 0; i < r; i++) {
			int f = hooks.fid_of_ptr ? hooks.fid_of_ptr(ev[i].data.ptr) : 0;
			if (f > 0 && f < 64)
				arr[f] |= evbits_epoll(ev[i].events);
			else
				oth++;
		}
	} else if (r > 0 && pf) {
		for (nfds_t i = 0; i < npf; i++) {
			if (!pf[i].revents)
				continue;
			int f = hooks.fid_of_osfd ? hooks.fid_of_osfd(pf[i].fd) : 0;
			if (f > 0 && f < 64)
				arr[f] |= evbits_poll(pf[i].revents);
			else
				oth++;
		}
	}
	evs[0] = 0;
	for (int i = 1; i <= n; i++)
		off += snprintf(evs + off, sizeof evs - off, "%s%d", i > 1 ? "," : "", arr[i]);
	truth[0] = 0;
	if (hooks.truth_json)
		hooks.truth_json(truth, sizeof truth);
	tr("\"e\":\"WR\",\"r\":%d,\"err\":\"%s\",\"ev\":[%s],\"oth\":%d,\"tr\":[%s],\"now\":[%lld,%lld]}",
	   r, err ? errno_name(err) : "", evs, oth, truth, TS(vnow));
}

/* prim: 0 epoll_wait 1 epoll_pwait2 2 poll 3 ppoll */
static const char *primname[] = { "epoll_wait", "epoll_pwait2", "poll", "ppoll" };

static int real_poll0(int prim, int epfd, struct epoll_event *ev, int max, struct pollfd *pf, nfds_t npf)
{
	int r;

	do {
		if (prim <= 1)
			r = __real_epoll_wait(epfd, ev, max, 0);
		else
			r = __real_poll(pf, npf, 0);
	} while (r < 0 && errno == EINTR);
	return r;
}

static int do_wait(int prim, int epfd, struct epoll_event *ev, int max,
		   struct pollfd *pf, nfds_t npf, ns_t rel)
{
	int e, r, first = 1;
	ns_t deadline;
	char truth[512];

	if (++nwaits > simk_wait_limit)
		simk_end("runaway", 0);
	if (hooks.check_touch)
		hooks.check_touch();
	e = fault_check(primname[prim]);
	if (e) {
		errno = e;
		return -1;
	}
	tr("\"e\":\"WE\",\"p\":\"%s\",\"to\":[%lld,%lld],\"tfd\":[%lld,%lld],\"now\":[%lld,%lld]}",
	   primname[prim], TSREL(rel, vnow), TS(tf_effective()), TS(vnow));
	deadline = rel < 0 ? -1 : vnow + rel;

	__real_pthread_mutex_lock(&M);
	T[me].deadline = deadline;
	for (;;) {
		if (simk_sig_pending_unblocked(me)) {
			/* a signal arrives while in (or entering) the wait: the
			 * handler runs and the wait fails with EINTR */
			int n;
			__real_pthread_mutex_unlock(&M);
			n = simk_sigpoint();
			__real_pthread_mutex_lock(&M);
			if (n) {
				r = -1;
				errno = EINTR;
				break;
			}
		}
		r = real_poll0(prim, epfd, ev, max, pf, npf);
		if (r != 0 || rel == 0 || (deadline >= 0 && deadline <= vnow))
			break;
		if (first) {
			truth[0] = 0;
			if (hooks.truth_json)
				hooks.truth_json(truth, sizeof truth);
			tr("\"e\":\"Blk\",\"tr\":[%s]}", truth);
			first = 0;
		}
		T[me].st = ST_WAIT;
		T[me].retry = 0;
		pick_and_wait();
		T[me].st = ST_RUN;
	}
	T[me].st = ST_RUN;
	T[me].deadline = -1;
	e = r < 0 ? errno : 0;
	if (memrec_on && memrec_words && r > 0 && prim <= 1)
		sync_log("acq", 1000 + epfd);
	log_wr(r, e, ev, pf, npf);
	__real_pthread_mutex_unlock(&M);
	errno = e;
	return r;
}

int __wrap_epoll_wait(int epfd, struct epoll_event *ev, int max, int ms)
{
	if (simk_passthrough) {
		tr("\"e\":\"WE\",\"p\":\"epoll_wait\",\"to\":[%lld,%lld],\"tfd\":[-1,0],\"now\":[-1,0]}", ms < 0 ? -1LL : ms / 1000LL, ms < 0 ? 0LL : (ms % 1000) * 1000000LL);
		int r = __real_epoll_wait(epfd, ev, max, ms);
		int e = errno;
		log_wr(r, r < 0 ? e : 0, ev, NULL, 0);
		errno = e;
		return r;
	}
	return do_wait(0, epfd, ev, max, NULL, 0, ms < 0 ? -1 : (ns_t)ms * 1000000LL);
}

int __wrap_epoll_pwait2(int epfd, struct epoll_event *ev, int max, const struct timespec *ts, const sigset_t *ss)
{
	if (simk_passthrough) {
		tr("\"e\":\"WE\",\"p\":\"epoll_pwait2\",\"to\":[%lld,%lld],\"tfd\":[-1,0],\"now\":[-1,0]}", ts ? (long long)ts->tv_sec : -1LL, ts ? (long long)ts->tv_nsec : 0LL);
		int r = __real_epoll_pwait2(epfd, ev, max, ts, ss);
		int e = errno;
		log_wr(r, r < 0 ? e : 0, ev, NULL, 0);
		errno = e;
		return r;
	}
	return do_wait(1, epfd, ev, max, NULL, 0, ts ? ts->tv_sec * NSEC + ts->tv_nsec : -1);
}

int __wrap_poll(struct pollfd *pf, nfds_t n, int ms)
{
	if (simk_passthrough) {
		tr("\"e\":\"WE\",\"p\":\"poll\",\"to\":[%lld,%lld],\"tfd\":[-1,0],\"now\":[-1,0]}", ms < 0 ? -1LL : ms / 1000LL, ms < 0 ? 0LL : (ms % 1000) * 1000000LL);
		int r = __real_poll(pf, n, ms);
		int e = errno;
		log_wr(r, r < 0 ? e : 0, NULL, pf, n);
		errno = e;
		return r;
	}
	/* a zero-timeout probe of one descriptor (iv_fd_register_try) is not a
	 * loop wait: let it through with fault injection only */
	if (simk_in_probe) {
		int e = fault_check("poll_probe");
		if (e) {
			errno = e;
			return -1;
		}
		return __real_poll(pf, n, 0);
	}
	return do_wait(2, -1, NULL, 0, pf, n, ms < 0 ? -1 : (ns_t)ms * 1000000LL);
}

int __wrap_ppoll(struct pollfd *pf, nfds_t n, const struct timespec *ts, const sigset_t *ss)
{
	if (simk_passthrough) {
		tr("\"e\":\"WE\",\"p\":\"ppoll\",\"to\":[%lld,%lld],\"tfd\":[-1,0],\"now\":[-1,0]}", ts ? (long long)ts->tv_sec : -1LL, ts ? (long long)ts->tv_nsec : 0LL);
		int r = __real_ppoll(pf, n, ts, ss);
		int e = errno;
		log_wr(r, r < 0 ? e : 0, NULL, pf, n);
		errno = e;
		return r;
	}
	return do_wait(3, -1, NULL, 0, pf, n, ts ? ts->tv_sec * NSEC + ts->tv_nsec : -1);
}

/* ------------------------------------------------------- descriptor calls */
int __real_epoll_ctl(int, int, int, struct epoll_event *);
int __real_epoll_create(int);
int __real_timerfd_create(int, int);
int __real_timerfd_settime(int, int, const struct itimerspec *, struct itimerspec *);

int __wrap_epoll_ctl(int epfd, int op, int fd, struct epoll_event *ev)
{
	int e = fault_check("epoll_ctl");
	if (e) {
		errno = e;
		return -1;
	}
	if (memrec_on && memrec_words)
		sync_log("rel", 1000 + epfd);
	int r = __real_epoll_ctl(epfd, op, fd, ev);
	e = errno;
	int f = hooks.fid_of_osfd ? hooks.fid_of_osfd(fd) : 0;
	tr("\"e\":\"Ctl\",\"op\":%d,\"f\":%d,\"m\":%d,\"r\":%d}", op, f,
	   ev ? (int)(ev->events & 0xff) | ((ev->events & EPOLLONESHOT) ? 256 : 0) : 0, r);
	if (!simk_passthrough) {
		__real_pthread_mutex_lock(&M);
		simk_progress();
		__real_pthread_mutex_unlock(&M);
		yield_point();
	}
	errno = e;
	return r;
}

int __wrap_epoll_create(int n)
{
	int e = fault_check("epoll_create");
	if (e) {
		errno = e;
		return -1;
	}
	int r = __real_epoll_create(n);
	if (r >= 0)
		tr("\"e\":\"FdNew\",\"n\":%d,\"k\":\"epoll\"}", r);
	return r;
}

int __wrap_timerfd_create(int clk, int flags)
{
	int e = fault_check("timerfd_create");
	if (e) {
		errno = e;
		return -1;
	}
	if (simk_passthrough)
		return __real_timerfd_create(clk, flags);
	int fd = eventfd(0, EFD_NONBLOCK | EFD_CLOEXEC);
	if (fd >= 0)
		tr("\"e\":\"FdNew\",\"n\":%d,\"k\":\"timerfd\"}", fd);
	if (fd >= 0 && ntf < MAXTF) {
		TF[ntf].fd = fd;
		TF[ntf].armed = 0;
		TF[ntf].fired = 0;
		ntf++;
	}
	tr("\"e\":\"TfdNew\"}");
	return fd;
}

int __wrap_timerfd_settime(int fd, int flags, const struct itimerspec *nv, struct itimerspec *ov)
{
	if (simk_passthrough)
		return __real_timerfd_settime(fd, flags, nv, ov);
	int e = fault_check("timerfd_settime");
	if (e) {
		errno = e;
		return -1;
	}
	for (int i = 0; i < ntf; i++) {
		if (TF[i].fd != fd)
			continue;
		uint64_t cnt;
		ns_t d = nv->it_value.tv_sec * NSEC + nv->it_value.tv_nsec;
		if (d != 0 && !(flags & TFD_TIMER_ABSTIME))
			d += vnow;		/* a relative setting counts from now */
		__real_read(fd, &cnt, 8);	/* drain */
		TF[i].fired = 0;
		if (d == 0) {
			TF[i].armed = 0;
			tr("\"e\":\"Tfd\",\"v\":[-1,0]}");
		} else {
			TF[i].armed = 1;
			TF[i].deadline = d;
			tr("\"e\":\"Tfd\",\"v\":[%lld,%lld]}", TS(d));
			tf_fire_due();
		}
		return 0;
	}
	errno = EBADF;
	return -1;
}

int __wrap_close(int fd)
{
	for (int i = 0; i < ntf; i++) {
		if (TF[i].fd == fd) {
			TF[i] = TF[--ntf];
			break;
		}
	}
	int f = hooks.fid_of_osfd ? hooks.fid_of_osfd(fd) : 0;
	tr("\"e\":\"Close\",\"f\":%d,\"n\":%d}", f, fd);
	int r = __real_close(fd);
	/* the descriptor table is shared: another thread may be handed this number next */
	if (mt() && T[me].st == ST_RUN && cur == me) {
		int e = errno;
		__real_pthread_mutex_lock(&M);
		pick_and_wait();
		__real_pthread_mutex_unlock(&M);
		errno = e;
	}
	return r;
}

int __wrap_pipe(int *p)
{
	int e = fault_check("pipe");
	if (e) {
		errno = e;
		return -1;
	}
	int r = __real_pipe(p);
	if (r == 0) {
		tr("\"e\":\"FdNew\",\"n\":%d,\"k\":\"pipe\"}", p[0]);
		tr("\"e\":\"FdNew\",\"n\":%d,\"k\":\"pipe\"}", p[1]);
	}
	return r;
}

ssize_t __wrap_read(int fd, void *buf, size_t n)
{
	int e = fault_check("read");
	if (e) {
		errno = e;
		return -1;
	}
	for (int i = 0; i < ntf; i++)
		if (TF[i].fd == fd)
			TF[i].fired = 0;
	ssize_t rr = __real_read(fd, buf, n);
	e = errno;
	if (memrec_on && memrec_words && rr > 0)
		sync_log("acq", 1000 + fd);
	errno = e;
	return rr;
}

ssize_t __wrap_write(int fd, const void *buf, size_t n)
{
	int e = fault_check("write");
	if (e) {
		errno = e;
		return -1;
	}
	if (memrec_on && memrec_words)
		sync_log("rel", 1000 + fd);	/* data handed over through a descriptor */
	ssize_t r = __real_write(fd, buf, n);
	e = errno;
	if (!simk_passthrough && !simk_quiet_io) {
		__real_pthread_mutex_lock(&M);
		simk_progress();
		__real_pthread_mutex_unlock(&M);
		yield_point();
	}
	errno = e;
	return r;
}

long __real_syscall(long, ...);

long __wrap_syscall(long nr, ...)
{
	va_list ap;
	long a[6];
	const char *nm = NULL;

	va_start(ap, nr);
	for (int i = 0; i < 6; i++)
		a[i] = va_arg(ap, long);
	va_end(ap);
	switch (nr) {
	case SYS_epoll_create1: nm = "epoll_create1"; break;
	case SYS_eventfd2: nm = "eventfd2"; break;
#ifdef SYS_eventfd
	case SYS_eventfd: nm = "eventfd"; break;
#endif
	case SYS_pipe2: nm = "pipe2"; break;
	default: break;
	}
	if (nm) {
		int e = fault_check(nm);
		if (e) {
			errno = e;
			return -1;
		}
	}
	long r = __real_syscall(nr, a[0], a[1], a[2], a[3], a[4], a[5]);
	if (nm && r >= 0) {
		if (nr == SYS_pipe2) {
			int *pp = (int *)a[0];
			tr("\"e\":\"FdNew\",\"n\":%d,\"k\":\"pipe\"}", pp[0]);
			tr("\"e\":\"FdNew\",\"n\":%d,\"k\":\"pipe\"}", pp[1]);
		} else {
			tr("\"e\":\"FdNew\",\"n\":%d,\"k\":\"%s\"}", (int)r, nm);
		}
	}
	return r;
}

/* ------------------------------------------------------------ init / exit */
static void crash_handler(int sig, siginfo_t *si, void *uc)
{
	/* a general-protection fault (non-canonical address, e.g. a pointer
	 * read from 0xAA-poisoned memory) is reported with SI_KERNEL */
	if (sig == SIGSEGV && si && (si->si_code == SI_KERNEL ||
	    ((uintptr_t)si->si_addr >> 16) == 0xaaaaaaaaaaaaULL))
		simk_end("crash-poison", sig);
	simk_end(sig == SIGALRM ? "timeout" : "crash", sig);
}

void __wrap_abort(void)
{
	simk_end("abort", SIGABRT);
}

void simk_end(const char *why, int sig)
{
	static int ending;

	if (ending++) {
		/* another thread is already writing the trace out: give it the time to finish
		 * (it ends the process), do not cut it off */
		struct timespec ts = { 3, 0 };
		nanosleep(&ts, NULL);
		_exit(0);
	}
	tr("\"e\":\"End\",\"why\":\"%s\",\"sig\":%d,\"now\":[%lld,%lld]}", why, sig, TS(vnow));
	if (ndec && simk_log_dec) {
		/* scheduling decisions (chosen thread, bit mask of enabled threads) */
		static char b[MAXDEC * 12 + 64];
		size_t off = 0;
		for (int i = 0; i < ndec; i++)
			off += snprintf(b + off, sizeof b - off, "%s[%d,%d]", i ? "," : "", dec[i][0], dec[i][1]);
		tr_flush();
		tr("\"e\":\"Dec\",\"d\":[%s]}", b);
	}
	tr_flush();
	_exit(0);
}

void simk_init(unsigned seed)
{
	struct sigaction sa;

	rs = seed ? seed : 1;
	T[0].st = ST_RUN;
	T[0].deadline = -1;
	T[0].pt = pthread_self();
	pthread_key_create(&exitkey, exitkey_d);
	memset(&sa, 0, sizeof sa);
	sa.sa_sigaction = crash_handler;
	sa.sa_flags = SA_SIGINFO;
	sigaction(SIGSEGV, &sa, NULL);
	sigaction(SIGBUS, &sa, NULL);
	sigaction(SIGFPE, &sa, NULL);
	sigaction(SIGILL, &sa, NULL);
	sigaction(SIGABRT, &sa, NULL);
	sigaction(SIGALRM, &sa, NULL);
	/* the harness itself writes to pipes whose reader may be gone; the library's own
	 * signal(SIGPIPE, SIG_IGN) only reaches the simulated disposition table */
	memset(&sa, 0, sizeof sa);
	sa.sa_handler = SIG_IGN;
	sigaction(SIGPIPE, &sa, NULL);
}
