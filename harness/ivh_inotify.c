/* ivh_inotify -- harness for C20 (iv_inotify): replays scripts into the real
 * iv_inotify code on a real inotify descriptor and a scratch directory, and
 * logs one ndjson event per observable (alphabet of spec/MonInotify.tla).
 * The harness only observes; the verdict is TLC's (spec/TraceInotify.tla).
 *
 * Script format (text, one record per line):
 *   B <id> fam=<in|out> poison=<0|1>
 *   I <op> ...            initial file-system state (before inotify exists)
 *   W <slot> <path> <mask-hex>   watch slot: path relative to the scratch directory
 *                         ("." = the directory itself), inotify mask (may have IN_ONESHOT)
 *   P <op> ...            a phase: executed from an iv_task, i.e. outside any handler and
 *                         while the loop cannot read, so all records the phase produces
 *                         are returned by ONE read
 *   R <slot> <occ> <op> ...   reaction: executed inside the occ-th (1-based) handler
 *                         invocation of the slot's watch objects
 *   X                     run the script (in a forked child, in a fresh directory)
 * ops:  c:<p> create  w:<p> append a byte  t:<p> chmod  d:<p> unlink  m:<p>:<q> rename
 *       k:<p> mkdir  r:<p> rmdir   (%XX escapes in paths)
 *       rw:<slot> register a fresh watch object for the slot
 *       rr:<slot> the same, in the memory of the slot's previous object
 *       uw:<slot> unregister the slot's watch object      ui unregister the instance
 * Operations that are not valid at the time (slot already / not registered,
 * instance gone, `ui` outside a handler unless fam=out) are skipped.
 * fam=out additionally unregisters the instance outside any handler when the
 * script is over; the other families end with iv_quit().
 *
 * Every struct iv_inotify / iv_inotify_watch is malloc'ed and filled with 0xAA
 * before use.  When an object is released (unregister returned; handler entry
 * for an IN_IGNORED record or a one-shot watch) it is poisoned (poison=1: 0xAA,
 * handler and cookie kept so that a stale call stays observable) or left as it
 * is (poison=0), kept in quarantine, and checked for writes at every event
 * boundary ("Touch").
 */
#include <stdio.h>
#include <stdlib.h>
#include <stdarg.h>
#include <string.h>
#include <errno.h>
#include <fcntl.h>
#include <signal.h>
#include <unistd.h>
#include <dirent.h>
#include <sys/stat.h>
#include <sys/wait.h>
#include <sys/inotify.h>
#include <pthread.h>
#include <semaphore.h>
#include <time.h>
#include <iv.h>
#include <iv_inotify.h>

ssize_t __real_read(int, void *, size_t);
int __real_inotify_init(void);
int __real_inotify_add_watch(int, const char *, uint32_t);
int __real_inotify_rm_watch(int, int);

/* ------------------------------------------------------------------ script */
#define MAXSLOT 8
#define MAXOPS 64
#define MAXPHASE 32
#define MAXREACT 64
#define MAXOBJ 256

struct op { char kind[3]; char a[272], b[272]; int slot; };
struct oplist { struct op op[MAXOPS]; int n; };
struct slotdef { int defined; char path[32]; uint32_t mask; };
struct react { int slot, occ; struct oplist ops; };

static char script_id[128], fam[8] = "in";
static int poison = 1;
static int peer;	/* peer=1: a second thread runs its own loop and inotify instance meanwhile */
static struct slotdef slotdef[MAXSLOT];
static struct oplist initops, phase[MAXPHASE];
static int nphase;
static struct react react[MAXREACT];
static int nreact;

static void unescape(char *dst, size_t cap, const char *s)
{
	size_t n = 0;

	while (*s && n + 1 < cap) {
		if (s[0] == '%' && s[1] && s[2]) {
			char h[3] = { s[1], s[2], 0 };
			dst[n++] = (char)strtol(h, NULL, 16);
			s += 3;
		} else {
			dst[n++] = *s++;
		}
	}
	dst[n] = 0;
}

static void parse_op(struct oplist *l, char *t)
{
	struct op *o;
	char *a, *b = NULL;

	if (l->n >= MAXOPS)
		return;
	o = &l->op[l->n];
	memset(o, 0, sizeof *o);
	a = strchr(t, ':');
	if (a != NULL) {
		*a++ = 0;
		b = strchr(a, ':');
		if (b != NULL)
			*b++ = 0;
	}
	snprintf(o->kind, sizeof o->kind, "%s", t);
	if (a != NULL)
		unescape(o->a, sizeof o->a, a);
	if (b != NULL)
		unescape(o->b, sizeof o->b, b);
	o->slot = a != NULL ? atoi(a) : 0;
	l->n++;
}

static void reset_script(void)
{
	memset(slotdef, 0, sizeof slotdef);
	memset(&initops, 0, sizeof initops);
	memset(phase, 0, sizeof phase);
	memset(react, 0, sizeof react);
	nphase = nreact = 0;
	strcpy(fam, "in");
	poison = 1;
}

/* ------------------------------------------------------------------- trace */
static int outfd = 1;

static void emit(const char *b, size_t n)
{
	for (size_t off = 0; off < n; ) {
		ssize_t r = write(outfd, b + off, n - off);
		if (r <= 0) {
			if (r < 0 && errno == EINTR)
				continue;
			break;
		}
		off += r;
	}
}

static void ev(const char *fmt, ...)
{
	char b[1024];
	va_list ap;
	int n;

	va_start(ap, fmt);
	n = vsnprintf(b, sizeof b - 2, fmt, ap);
	va_end(ap);
	if (n < 0)
		return;
	if (n > (int)sizeof b - 2)
		n = sizeof b - 2;
	b[n++] = '\n';
	emit(b, n);
}

/* printable, JSON-safe, injective rendering of a file name */
static const char *enc(const char *s, size_t len)
{
	static char buf[4][160];
	static int k;
	char *d = buf[k = (k + 1) & 3];
	size_t n = 0;

	for (size_t i = 0; i < len && s[i] && n + 4 < sizeof buf[0]; i++) {
		unsigned char c = s[i];
		if (c >= 0x20 && c < 0x7f && c != '"' && c != '\\' && c != '#')
			d[n++] = c;
		else
			n += sprintf(d + n, "#%02x", c);
	}
	d[n] = 0;
	return d;
}

/* ---------------------------------------------------------------- objects */
struct wobj {
	int oid, slot, oneshot;
	int state;			/* 0 new, 1 registered, 2 released */
	struct iv_inotify_watch *mem;
};
static struct wobj obj[MAXOBJ];
static int nobj;
static struct wobj *cur[MAXSLOT];	/* the slot's latest object */
static int occ[MAXSLOT];

static struct iv_inotify *inst;
static int inst_state;			/* 0 none, 1 registered, 2 released */
static int inofd = -1, last_wd = -1;
static int depth;			/* handler nesting */

struct quar { void *mem; unsigned char *expect; size_t size; int inst, oid, reported; };
static struct quar Q[MAXOBJ + 1];
static int nq;

static void check_touch(void)
{
	for (int i = 0; i < nq; i++) {
		if (memcmp(Q[i].mem, Q[i].expect, Q[i].size) != 0) {
			size_t j = 0;
			while (((unsigned char *)Q[i].mem)[j] == Q[i].expect[j])
				j++;
			if (!Q[i].reported)
				ev("{\"e\":\"Touch\",\"k\":\"%s\",\"o\":%d,\"off\":%d}",
				   Q[i].inst ? "inst" : "watch", Q[i].oid, (int)j);
			Q[i].reported = 1;
			memcpy(Q[i].mem, Q[i].expect, Q[i].size);
		}
	}
}

static void quarantine(void *mem, size_t size, int is_inst, int oid)
{
	if (nq >= MAXOBJ + 1)
		return;
	Q[nq].mem = mem;
	Q[nq].size = size;
	Q[nq].expect = malloc(size);
	memcpy(Q[nq].expect, mem, size);
	Q[nq].inst = is_inst;
	Q[nq].oid = oid;
	Q[nq].reported = 0;
	nq++;
}

static void *unquarantine(void *mem)
{
	for (int i = 0; i < nq; i++) {
		if (Q[i].mem == mem) {
			free(Q[i].expect);
			Q[i] = Q[--nq];
			return mem;
		}
	}
	return NULL;
}

static void watch_handler(void *cookie, struct inotify_event *e);

/* the watch object is no longer lent to the library */
static void release_watch(struct wobj *o)
{
	struct iv_inotify_watch *w = o->mem;

	o->state = 2;
	if (poison) {
		memset(w, 0xAA, sizeof *w);
		w->handler = watch_handler;
		w->cookie = o;
	}
	quarantine(w, sizeof *w, 0, o->oid);
}

static void release_inst(void)
{
	inst_state = 2;
	inofd = -1;
	for (int s = 0; s < MAXSLOT; s++)
		if (cur[s] != NULL && cur[s]->state == 1)
			release_watch(cur[s]);
	if (poison)
		memset(inst, 0xAA, sizeof *inst);
	quarantine(inst, sizeof *inst, 1, 0);
}

/* ------------------------------------------------------------- API calls */
static void do_ireg(void)
{
	int r;

	inst = malloc(sizeof *inst);
	memset(inst, 0xAA, sizeof *inst);
	check_touch();
	ev("{\"e\":\"ApiB\",\"op\":\"ireg\",\"o\":0,\"os\":0}");
	IV_INOTIFY_INIT(inst);
	r = iv_inotify_register(inst);
	ev("{\"e\":\"ApiE\",\"op\":\"ireg\",\"o\":0,\"os\":0,\"wd\":-1,\"ret\":%d}", r);
	if (r == 0)
		inst_state = 1;
}

static void do_iunreg(void)
{
	if (inst_state != 1)
		return;
	check_touch();
	ev("{\"e\":\"ApiB\",\"op\":\"iunreg\",\"o\":0,\"os\":0}");
	iv_inotify_unregister(inst);
	ev("{\"e\":\"ApiE\",\"op\":\"iunreg\",\"o\":0,\"os\":0,\"wd\":-1,\"ret\":0}");
	release_inst();
	check_touch();
}

static void do_wreg(int s, int reuse)
{
	struct iv_inotify_watch *w = NULL;
	struct wobj *o;
	int r;

	if (s < 0 || s >= MAXSLOT || !slotdef[s].defined || inst_state != 1 || nobj >= MAXOBJ)
		return;
	if (cur[s] != NULL && cur[s]->state == 1)
		return;
	check_touch();
	if (reuse && cur[s] != NULL && cur[s]->state == 2)
		w = unquarantine(cur[s]->mem);
	if (w == NULL)
		w = malloc(sizeof *w);
	memset(w, 0xAA, sizeof *w);
	o = &obj[nobj];
	o->oid = ++nobj;
	o->slot = s;
	o->oneshot = !!(slotdef[s].mask & IN_ONESHOT);
	o->state = 0;
	o->mem = w;
	cur[s] = o;
	IV_INOTIFY_WATCH_INIT(w);
	w->inotify = inst;
	w->pathname = slotdef[s].path;
	w->mask = slotdef[s].mask;
	w->cookie = o;
	w->handler = watch_handler;
	ev("{\"e\":\"ApiB\",\"op\":\"wreg\",\"o\":%d,\"os\":%d,\"slot\":%d,\"path\":\"%s\"}",
	   o->oid, o->oneshot, s, enc(slotdef[s].path, 64));
	last_wd = -1;
	r = iv_inotify_watch_register(w);
	ev("{\"e\":\"ApiE\",\"op\":\"wreg\",\"o\":%d,\"os\":%d,\"wd\":%d,\"ret\":%d}",
	   o->oid, o->oneshot, r == 0 ? last_wd : -1, r == 0 ? 0 : -1);
	if (r == 0)
		o->state = 1;
	else
		release_watch(o);
}

static void do_wunreg(int s)
{
	struct wobj *o;

	if (s < 0 || s >= MAXSLOT || inst_state != 1)
		return;
	o = cur[s];
	if (o == NULL || o->state != 1)
		return;
	check_touch();
	ev("{\"e\":\"ApiB\",\"op\":\"wunreg\",\"o\":%d,\"os\":%d}", o->oid, o->oneshot);
	iv_inotify_watch_unregister(o->mem);
	ev("{\"e\":\"ApiE\",\"op\":\"wunreg\",\"o\":%d,\"os\":%d,\"wd\":-1,\"ret\":0}", o->oid, o->oneshot);
	release_watch(o);
	check_touch();
}

/* ------------------------------------------------------- file-system ops */
static int fs_op(const struct op *o)
{
	int r = -1, fd;

	switch (o->kind[0]) {
	case 'c':
		fd = open(o->a, O_WRONLY | O_CREAT, 0644);
		if (fd >= 0)
			r = close(fd);
		break;
	case 'w':
		fd = open(o->a, O_WRONLY | O_APPEND);
		if (fd >= 0) {
			r = write(fd, "x", 1) == 1 ? 0 : -1;
			close(fd);
		}
		break;
	case 't': {
		struct stat st;
		if (stat(o->a, &st) == 0)
			r = chmod(o->a, (st.st_mode & 0777) ^ 0010);
		break;
	}
	case 'd': r = unlink(o->a); break;
	case 'm': r = rename(o->a, o->b); break;
	case 'k': r = mkdir(o->a, 0755); break;
	case 'r': r = rmdir(o->a); break;
	}
	return r;
}

static void run_ops(const struct oplist *l, int quiet)
{
	for (int i = 0; i < l->n; i++) {
		const struct op *o = &l->op[i];

		if (!strcmp(o->kind, "rw")) do_wreg(o->slot, 0);
		else if (!strcmp(o->kind, "rr")) do_wreg(o->slot, 1);
		else if (!strcmp(o->kind, "uw")) do_wunreg(o->slot);
		else if (!strcmp(o->kind, "ui")) {
			if (depth > 0 || !strcmp(fam, "out"))
				do_iunreg();
		} else {
			int r = fs_op(o);
			if (!quiet)
				ev("{\"e\":\"Fs\",\"op\":\"%s\",\"a\":\"%s\",\"b\":\"%s\",\"r\":%d}",
				   o->kind, enc(o->a, 64), enc(o->b, 64), r);
		}
	}
}

/* --------------------------------------------------------------- wrappers */
static __thread int is_peer;

int __wrap_inotify_init(void)
{
	if (is_peer)
		return __real_inotify_init();
	inofd = __real_inotify_init();
	return inofd;
}

int __wrap_inotify_add_watch(int fd, const char *path, uint32_t mask)
{
	if (is_peer)
		return __real_inotify_add_watch(fd, path, mask);
	last_wd = __real_inotify_add_watch(fd, path, mask);
	return last_wd;
}

int __wrap_inotify_rm_watch(int fd, int wd)
{
	return __real_inotify_rm_watch(fd, wd);
}

static void rec_json(char **pp, char *end, const struct inotify_event *e, int first)
{
	uint32_t al = 0;

	if (e->len >= 4)
		memcpy(&al, e->name, 4);
	*pp += snprintf(*pp, end - *pp,
			"%s{\"wd\":%d,\"mask\":%u,\"ign\":%d,\"ck\":%u,\"lc\":%u,\"len\":%u,\"name\":\"%s\",\"al\":%u}",
			first ? "" : ",", e->wd, e->mask & 0x7fffffff, !!(e->mask & IN_IGNORED),
			e->cookie % 1000000, (e->len + 15) / 16, e->len,
			e->len ? enc(e->name, e->len) : "", al & 0x7fffffff);
}

ssize_t __wrap_read(int fd, void *buf, size_t n)
{
	ssize_t r = __real_read(fd, buf, n);

	if (fd >= 0 && fd == inofd && !is_peer) {
		int e = errno;
		size_t cap = 65536, cnt = 0;
		char *b = malloc(cap), *p = b;

		p += snprintf(p, cap, "{\"e\":\"Read\",\"ret\":%d,\"recs\":[", r < 0 ? -errno : (int)r);
		for (ssize_t off = 0; r > 0 && off + (ssize_t)sizeof(struct inotify_event) <= r; ) {
			struct inotify_event *ie = (struct inotify_event *)((char *)buf + off);
			if ((size_t)(p - b) + 512 > cap)
				break;
			rec_json(&p, b + cap, ie, cnt == 0);
			cnt++;
			off += sizeof(struct inotify_event) + ie->len;
		}
		p += snprintf(p, b + cap - p, "]}\n");
		emit(b, p - b);
		free(b);
		errno = e;
	}
	return r;
}


/* ------------------------------------------------------------------- peer */
/* peer=1: another thread of the program has its own loop and its own inotify
 * instance, watching its own directory in which three files were created
 * before it starts reading.  It is let go when the scripted thread enters a
 * handler (typically in the middle of a batch of records) and reads and
 * handles its three events before that handler continues.  Instances of
 * different threads share nothing, so neither side may notice the other. */
static sem_t peer_ready, peer_go, peer_done;
static int peer_state;		/* 0 none, 1 ready, 2 released */
static pthread_t peer_thr;
static char peer_dir[64];
static int peer_n, peer_bad;
static struct iv_inotify peer_inst;
static struct iv_inotify_watch peer_watch;
static struct iv_timer peer_tmo;

static void peer_handler(void *cookie, struct inotify_event *e)
{
	peer_n++;
	if (e->wd != peer_watch.wd || e->len < 3 || strncmp(e->name, "b_", 2) || !(e->mask & IN_CREATE))
		peer_bad++;
	if (peer_n == 3) {
		iv_inotify_watch_unregister(&peer_watch);
		iv_inotify_unregister(&peer_inst);
		iv_timer_unregister(&peer_tmo);
	}
}

static void peer_timeout(void *dummy)
{
	/* its events never came: give up (counts as a loss) */
	iv_inotify_watch_unregister(&peer_watch);
	iv_inotify_unregister(&peer_inst);
}

static void *peer_main(void *dummy)
{
	char path[96];

	is_peer = 1;
	iv_init();
	memset(&peer_inst, 0xAA, sizeof peer_inst);
	memset(&peer_watch, 0xAA, sizeof peer_watch);
	IV_INOTIFY_INIT(&peer_inst);
	if (iv_inotify_register(&peer_inst) == 0) {
		IV_INOTIFY_WATCH_INIT(&peer_watch);
		peer_watch.inotify = &peer_inst;
		peer_watch.pathname = peer_dir;
		peer_watch.mask = IN_CREATE;
		peer_watch.handler = peer_handler;
		if (iv_inotify_watch_register(&peer_watch) == 0) {
			for (int i = 1; i <= 3; i++) {
				snprintf(path, sizeof path, "%s/b_%d", peer_dir, i);
				close(open(path, O_CREAT | O_WRONLY, 0600));
			}
			IV_TIMER_INIT(&peer_tmo);
			peer_tmo.handler = peer_timeout;
			sem_post(&peer_ready);
			sem_wait(&peer_go);
			iv_validate_now();
			peer_tmo.expires = iv_now;
			peer_tmo.expires.tv_sec += 3;
			iv_timer_register(&peer_tmo);
			iv_main();
		} else {
			iv_inotify_unregister(&peer_inst);
			peer_bad = -1;
			sem_post(&peer_ready);
			sem_wait(&peer_go);
		}
	} else {
		peer_bad = -1;
		sem_post(&peer_ready);
		sem_wait(&peer_go);
	}
	iv_deinit();
	sem_post(&peer_done);
	return NULL;
}

static void peer_start(void)
{
	snprintf(peer_dir, sizeof peer_dir, "../peer-%d", (int)getpid());
	mkdir(peer_dir, 0700);
	sem_init(&peer_ready, 0, 0);
	sem_init(&peer_go, 0, 0);
	sem_init(&peer_done, 0, 0);
	if (pthread_create(&peer_thr, NULL, peer_main, NULL))
		return;
	sem_wait(&peer_ready);
	peer_state = 1;
}

static void peer_release(void)
{
	struct timespec ts;

	if (peer_state != 1)
		return;
	peer_state = 2;
	sem_post(&peer_go);
	clock_gettime(CLOCK_REALTIME, &ts);
	ts.tv_sec += 8;
	sem_timedwait(&peer_done, &ts);
}

static void peer_finish(void)
{
	char path[96];

	if (!peer_state)
		return;
	peer_release();
	pthread_join(peer_thr, NULL);
	for (int i = 1; i <= 3; i++) {
		snprintf(path, sizeof path, "%s/b_%d", peer_dir, i);
		unlink(path);
	}
	rmdir(peer_dir);
	if (peer_bad >= 0)
		ev("{\"e\":\"Peer\",\"n\":%d,\"bad\":%d}", peer_n, peer_bad);
}

/* ---------------------------------------------------------------- handler */
static void watch_handler(void *cookie, struct inotify_event *e)
{
	struct wobj *o = cookie;
	int s = o->slot;

	check_touch();
	ev("{\"e\":\"CbB\",\"o\":%d,\"wd\":%d,\"mask\":%u,\"ign\":%d,\"ck\":%u,\"lc\":%u,\"name\":\"%s\"}",
	   o->oid, e->wd, e->mask & 0x7fffffff, !!(e->mask & IN_IGNORED), e->cookie % 1000000,
	   (e->len + 15) / 16, e->len ? enc(e->name, e->len) : "");
	peer_release();
	depth++;
	/* a watch removed by the kernel or declared one-shot is the user's again */
	if (o->state == 1 && ((e->mask & IN_IGNORED) || o->oneshot))
		release_watch(o);
	occ[s]++;
	for (int i = 0; i < nreact; i++)
		if (react[i].slot == s && react[i].occ == occ[s])
			run_ops(&react[i].ops, 0);
	depth--;
	check_touch();
	ev("{\"e\":\"CbE\",\"o\":%d}", o->oid);
}

/* ------------------------------------------------------------------ driver */
static struct iv_task ptask;
static int ph;

static void phase_task(void *_dummy)
{
	check_touch();
	if (ph < nphase) {
		ev("{\"e\":\"Ph\",\"k\":%d}", ph);
		run_ops(&phase[ph], 0);
		ph++;
		iv_task_register(&ptask);
		return;
	}
	ev("{\"e\":\"Ph\",\"k\":%d}", ph);
	if (inst_state == 1) {
		if (!strcmp(fam, "out"))
			do_iunreg();
		else
			iv_quit();
	}
}

static void run_script(void)
{
	run_ops(&initops, 1);
	iv_init();
	do_ireg();
	if (inst_state != 1) {
		ev("{\"e\":\"End\",\"why\":\"noinotify\",\"sig\":0}");
		return;
	}
	IV_TASK_INIT(&ptask);
	ptask.handler = phase_task;
	iv_task_register(&ptask);
	if (peer)
		peer_start();
	iv_main();
	check_touch();
	peer_finish();
	ev("{\"e\":\"End\",\"why\":\"ok\",\"sig\":0}");
}

static void rm_rf(const char *path)
{
	DIR *d = opendir(path);
	struct dirent *de;
	char p[512];

	if (d != NULL) {
		while ((de = readdir(d)) != NULL) {
			if (!strcmp(de->d_name, ".") || !strcmp(de->d_name, ".."))
				continue;
			snprintf(p, sizeof p, "%s/%s", path, de->d_name);
			if (unlink(p) != 0)
				rm_rf(p);
		}
		closedir(d);
	}
	rmdir(path);
}

int main(int argc, char **argv)
{
	FILE *in = stdin;
	const char *base = "/tmp";
	int timeout_s = 5, ntimeouts = 0;
	char *line = NULL;
	size_t cap = 0;

	for (int i = 1; i < argc; i++) {
		if (!strcmp(argv[i], "-i") && i + 1 < argc)
			in = fopen(argv[++i], "r");
		else if (!strcmp(argv[i], "-o") && i + 1 < argc)
			outfd = open(argv[++i], O_WRONLY | O_CREAT | O_APPEND, 0644);
		else if (!strcmp(argv[i], "-T") && i + 1 < argc)
			timeout_s = atoi(argv[++i]);
		else if (!strcmp(argv[i], "-d") && i + 1 < argc)
			base = argv[++i];
	}
	if (in == NULL || outfd < 0) {
		fprintf(stderr, "ivh_inotify: cannot open input/output\n");
		return 2;
	}
	reset_script();
	while (getline(&line, &cap, in) > 0) {
		char *tok[MAXOPS + 8];
		int nt = 0;

		for (char *s = strtok(line, " \t\r\n"); s && nt < MAXOPS + 8; s = strtok(NULL, " \t\r\n"))
			tok[nt++] = s;
		if (nt == 0 || tok[0][0] == '#')
			continue;
		switch (tok[0][0]) {
		case 'B':
			reset_script();
			snprintf(script_id, sizeof script_id, "%s", nt > 1 ? tok[1] : "?");
			for (int i = 2; i < nt; i++) {
				if (!strncmp(tok[i], "fam=", 4)) snprintf(fam, sizeof fam, "%s", tok[i] + 4);
				else if (!strncmp(tok[i], "poison=", 7)) poison = atoi(tok[i] + 7);
				else if (!strncmp(tok[i], "peer=", 5)) peer = atoi(tok[i] + 5);
			}
			break;
		case 'I':
			for (int i = 1; i < nt; i++)
				parse_op(&initops, tok[i]);
			break;
		case 'W':
			if (nt >= 4 && atoi(tok[1]) >= 0 && atoi(tok[1]) < MAXSLOT) {
				struct slotdef *sd = &slotdef[atoi(tok[1])];
				sd->defined = 1;
				unescape(sd->path, sizeof sd->path, tok[2]);
				sd->mask = (uint32_t)strtoul(tok[3], NULL, 16);
			}
			break;
		case 'P':
			if (nphase < MAXPHASE) {
				for (int i = 1; i < nt; i++)
					parse_op(&phase[nphase], tok[i]);
				nphase++;
			}
			break;
		case 'R':
			if (nreact < MAXREACT && nt >= 3) {
				react[nreact].slot = atoi(tok[1]);
				react[nreact].occ = atoi(tok[2]);
				for (int i = 3; i < nt; i++)
					parse_op(&react[nreact].ops, tok[i]);
				nreact++;
			}
			break;
		case 'X': {
			char dir[256];
			int st = 0;
			pid_t pid;

			ev("{\"e\":\"Reset\",\"id\":\"%s\",\"fam\":\"%s\",\"poison\":%d}", script_id, fam, poison);
			if (ntimeouts >= 3) {
				ev("{\"e\":\"End\",\"why\":\"skipped\",\"sig\":0}");
				break;
			}
			snprintf(dir, sizeof dir, "%s/ivhino-XXXXXX", base);
			if (mkdtemp(dir) == NULL) {
				fprintf(stderr, "ivh_inotify: mkdtemp failed in %s\n", base);
				return 2;
			}
			pid = fork();
			if (pid < 0) {
				fprintf(stderr, "ivh_inotify: fork failed\n");
				rm_rf(dir);
				return 2;
			}
			if (pid == 0) {
				if (chdir(dir) != 0)
					_exit(3);
				alarm(timeout_s);
				run_script();
				_exit(0);
			}
			while (waitpid(pid, &st, 0) < 0 && errno == EINTR)
				;
			if (WIFSIGNALED(st)) {
				if (WTERMSIG(st) == SIGALRM)
					ntimeouts++;
				ev("{\"e\":\"End\",\"why\":\"%s\",\"sig\":%d}",
				   WTERMSIG(st) == SIGALRM ? "hang" : "crash", WTERMSIG(st));
			} else if (WEXITSTATUS(st) != 0) {
				fprintf(stderr, "ivh_inotify: child exited with %d\n", WEXITSTATUS(st));
				rm_rf(dir);
				return 2;
			}
			rm_rf(dir);
			break;
		}
		default:
			break;
		}
	}
	return 0;
}
