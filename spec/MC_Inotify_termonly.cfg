SPECIFICATION MCSpec
CONSTANTS
  MaxWd = 2
  MaxObj = 2
  MaxBatch = 3
  MaxReads = 1
  MaxLen = 1
  Aliases = {0}
  TermInit = "garbage"
  Variant = "code"
INVARIANT OnlyTermViolation
INVARIANT TypeOK
INVARIANT Structure
CHECK_DEADLOCK FALSE
VIEW MCView
