--------------------------- MODULE IvPump ---------------------------
(* System model of src/iv_fd_pump.c, shaped like the code, at the granularity
   of one step per OBSERVABLE event (the alphabet of MonPump): every step
   emits exactly one event into `ev`; the code's silent decisions between two
   events are folded into the program counter computation (AfterBegin/AfterIn).

     p.pc        where the code is:
       idle        no pump (before iv_fd_pump_init / after iv_fd_pump_destroy)
       initbands   iv_fd_pump_init: about to call set_bands(1, 0)
       inite       iv_fd_pump_init: about to return
       ready       between calls (iv_fd_pump_pump / is_done / destroy may be called)
       in          iv_fd_pump_try_input: about to read()/splice() from from_fd
       fion        ... got EAGAIN in splice mode with bytes buffered: ioctl(FIONREAD)
       out         iv_fd_pump_try_output: about to write()/splice() to to_fd
       shut        about to shutdown(to_fd, SHUT_WR) (saw_fin 1 -> 2 with RELAY_EOF)
       sw          __iv_fd_pump_pump: switch (saw_fin) -> set_bands(...)
       ret         iv_fd_pump_pump: buffer release and return p.rv
       failed      a call returned -1 (only is_done / destroy are sensible now)
       dbands/dend iv_fd_pump_destroy: set_bands(0,0) if saw_fin != 2 / buf_put, return
     p.bytes p.full p.fin p.buf   ip->bytes, ip->full, ip->saw_fin, ip->buf != NULL
     p.rv        value __iv_fd_pump_pump returns
     p.cache     number of buffers in the per-thread cache (num_bufs)
     p.probed    splice_available != -1
     ghost:  p.rd  input stream bytes consumed,  p.dl  bytes delivered,
             p.shut  output was shut down,  p.L  length of the input stream,
             p.relay  IV_FD_PUMP_FLAG_RELAY_EOF,  p.mode  "rw" | "sp" (per process)

   The ENVIRONMENT chooses every read/splice result, every write/splice
   result, the FIONREAD answer, and when the user calls pump/is_done/destroy.
   Enabled(p, e) / Apply(p, e) are the transition relation as functions of the
   event, so that the model checker (MC_Pump), the generator (GenPump) and the
   trace validator (TracePump, lock-step) all use the same definition. *)
EXTENDS Naturals, Integers, Sequences, FiniteSets, TLC

CONSTANTS BufSize,     \* BUF_SIZE (4096 in the code, 4 for model checking)
          MaxStream,   \* longest input stream the environment feeds
          MaxCached,   \* MAX_CACHED_BUFS (20 in the code)
          Modes,       \* subset of {"rw", "sp"}
          Relays       \* subset of {0, 1}

VARIABLES p, ev

SpliceReq == 1048576   \* length the code asks splice() for on input

Min(a, b) == IF a <= b THEN a ELSE b

Idle(mode) ==
  [ pc |-> "idle", mode |-> mode, relay |-> 0, L |-> 0, buf |-> FALSE, bytes |-> 0,
    full |-> FALSE, fin |-> 0, rv |-> 0, rd |-> 0, dl |-> 0, shut |-> FALSE,
    cache |-> 0, probed |-> FALSE ]

(* ---- events ---- *)
EvInitB(mode, relay, len) == [e |-> "InitB", mode |-> mode, relay |-> relay, L |-> len, bs |-> BufSize]
EvInitE == [e |-> "InitE"]
EvBands(i, o) == [e |-> "Bands", i |-> i, o |-> o]
EvPumpB == [e |-> "PumpB"]
EvIn(q, r, a) == [e |-> "In", q |-> q, r |-> r, a |-> a]
EvFion(v) == [e |-> "Fion", v |-> v]
EvOut(q, r, a) == [e |-> "Out", q |-> q, r |-> r, a |-> a]
EvShut == [e |-> "Shut", how |-> 1]
EvPumpE(q) == [e |-> "PumpE", ret |-> q.rv, pb |-> q.bytes, pf |-> IF q.full THEN 1 ELSE 0, ps |-> q.fin]
EvDone(v) == [e |-> "Done", v |-> v]
EvDestroyB == [e |-> "DestroyB"]
EvDestroyE == [e |-> "DestroyE"]

(* ---- silent control flow of __iv_fd_pump_pump ---- *)
(* if (ip->bytes && iv_fd_pump_try_output(ip)) ... switch (ip->saw_fin) *)
AfterIn(q) == IF q.bytes > 0 THEN "out" ELSE "sw"
(* if (!ip->full && ip->saw_fin == 0 && iv_fd_pump_try_input(ip)) *)
AfterBegin(q) == IF ~q.full /\ q.fin = 0 THEN "in" ELSE AfterIn(q)

InReq(q) == IF q.mode = "rw" THEN BufSize - q.bytes ELSE SpliceReq

(* switch (ip->saw_fin) { case 0: set_bands(!full, !!bytes) case 1: (0,1) case 2: (0,0) } *)
SwBands(q) ==
  CASE q.fin = 0 -> <<IF q.full THEN 0 ELSE 1, IF q.bytes > 0 THEN 1 ELSE 0>>
    [] q.fin = 1 -> <<0, 1>>
    [] OTHER -> <<0, 0>>

(* buf_get(): from the cache, else allocated *)
BufGet(q) == IF q.buf THEN q
             ELSE [q EXCEPT !.buf = TRUE, !.cache = IF @ > 0 THEN @ - 1 ELSE 0]
(* buf_put(buf, bytes): a pipe with data in it is freed, everything else cached *)
BufPut(q) ==
  IF ~q.buf THEN q
  ELSE [q EXCEPT !.buf = FALSE,
                 !.cache = IF q.mode = "sp" /\ q.bytes > 0 THEN @ ELSE Min(@ + 1, MaxCached)]

(* ---- iv_fd_pump_init ---- *)
InitBegin(q, e) ==
  [q EXCEPT !.pc = "initbands", !.relay = e.relay, !.L = e.L, !.buf = FALSE, !.bytes = 0,
            !.full = FALSE, !.fin = 0, !.rv = 0, !.rd = 0, !.dl = 0, !.shut = FALSE,
            (* check_splice_available() leaves its two probe pipes in the cache *)
            !.cache = IF q.mode = "sp" /\ ~q.probed THEN Min(@ + 2, MaxCached) ELSE @,
            !.probed = TRUE]

(* ---- iv_fd_pump_try_input ---- *)
TryInput(q0, e) ==
  LET q == BufGet(q0) IN
  CASE e.r > 0 ->
         LET nb == q.bytes + e.r IN
         LET q1 == [q EXCEPT !.bytes = nb, !.rd = @ + e.r,
                             !.full = IF q.mode = "rw" /\ nb = BufSize THEN TRUE ELSE @]
         IN [q1 EXCEPT !.pc = AfterIn(q1)]
    [] e.r = -3 -> q                                     \* EINTR: retry
    [] e.r = -2 -> [q EXCEPT !.rv = -1, !.pc = "ret"]    \* errno != EAGAIN
    [] e.r = -1 -> [q EXCEPT !.pc = IF q.mode = "sp" /\ q.bytes > 0 THEN "fion" ELSE AfterIn(q)]
    [] OTHER ->                                          \* end of file
         IF q.bytes = 0
         THEN IF q.relay = 1 THEN [q EXCEPT !.fin = 1, !.pc = "shut"]
                             ELSE [q EXCEPT !.fin = 2, !.pc = "sw"]
         ELSE [q EXCEPT !.fin = 1, !.pc = "out"]

Fionread(q, e) ==
  LET q1 == [q EXCEPT !.full = IF e.v > 0 THEN TRUE ELSE @] IN [q1 EXCEPT !.pc = AfterIn(q1)]

(* ---- iv_fd_pump_try_output ---- *)
TryOutput(q, e) ==
  CASE e.r > 0 ->
         LET q1 == [q EXCEPT !.full = FALSE, !.bytes = @ - e.r, !.dl = @ + e.r] IN
         (* memmove(buf, buf + ret, bytes): the buffer again starts at stream position dl *)
         IF q1.bytes = 0 /\ q1.fin = 1
         THEN IF q1.relay = 1 THEN [q1 EXCEPT !.pc = "shut"] ELSE [q1 EXCEPT !.fin = 2, !.pc = "sw"]
         ELSE [q1 EXCEPT !.pc = "sw"]
    [] e.r = -3 -> q
    [] e.r = -1 -> [q EXCEPT !.pc = "sw"]
    [] OTHER -> [q EXCEPT !.rv = -1, !.pc = "ret"]       \* 0 or errno != EAGAIN

Shutdown(q, e) == [q EXCEPT !.shut = TRUE, !.fin = 2, !.pc = "sw"]

SetBands(q, e) ==
  CASE q.pc = "initbands" -> [q EXCEPT !.pc = "inite"]
    [] q.pc = "sw" -> [q EXCEPT !.rv = IF q.fin = 2 THEN 0 ELSE 1, !.pc = "ret"]
    [] OTHER -> [q EXCEPT !.pc = "dend"]

(* ---- iv_fd_pump_pump: if (ret < 0 || !ip->bytes) buf_put ---- *)
PumpRet(q, e) ==
  LET q1 == IF q.rv < 0 \/ q.bytes = 0 THEN BufPut(q) ELSE q IN
  [q1 EXCEPT !.pc = IF q.rv < 0 THEN "failed" ELSE "ready"]

Enabled(q, e) ==
  CASE e.e = "InitB" -> q.pc = "idle" /\ e.mode = q.mode /\ e.bs = BufSize /\ e.relay \in {0, 1} /\ e.L >= 0
    [] e.e = "InitE" -> q.pc = "inite"
    [] e.e = "Bands" -> \/ q.pc = "initbands" /\ e.i = 1 /\ e.o = 0
                        \/ q.pc = "sw" /\ <<e.i, e.o>> = SwBands(q)
                        \/ q.pc = "dbands" /\ e.i = 0 /\ e.o = 0
    [] e.e = "PumpB" -> q.pc = "ready"
    [] e.e = "In" -> /\ q.pc = "in" /\ e.q = InReq(q) /\ e.r >= -3
                     /\ e.r > 0 => (e.r <= e.q /\ e.r <= q.L - q.rd /\ e.a = q.rd)
                     /\ e.r = 0 => q.rd = q.L
    [] e.e = "Fion" -> q.pc = "fion"
    [] e.e = "Out" -> /\ q.pc = "out" /\ e.q = q.bytes /\ e.r >= -3
                      /\ e.r > 0 => (e.r <= q.bytes /\ e.a = q.rd - q.bytes)
    [] e.e = "Shut" -> q.pc = "shut" /\ e.how = 1
    [] e.e = "PumpE" -> /\ q.pc = "ret" /\ e.ret = q.rv
                        /\ e.pb >= 0 => (e.pb = q.bytes /\ e.pf = (IF q.full THEN 1 ELSE 0) /\ e.ps = q.fin)
    [] e.e = "Done" -> q.pc \in {"ready", "failed"} /\ e.v = (IF q.fin = 2 THEN 1 ELSE 0)
    [] e.e = "DestroyB" -> q.pc \in {"ready", "failed"}
    [] e.e = "DestroyE" -> q.pc = "dend"
    [] OTHER -> FALSE

Apply(q, e) ==
  CASE e.e = "InitB" -> InitBegin(q, e)
    [] e.e = "InitE" -> [q EXCEPT !.pc = "ready"]
    [] e.e = "Bands" -> SetBands(q, e)
    [] e.e = "PumpB" -> [q EXCEPT !.pc = AfterBegin(q)]
    [] e.e = "In" -> TryInput(q, e)
    [] e.e = "Fion" -> Fionread(q, e)
    [] e.e = "Out" -> TryOutput(q, e)
    [] e.e = "Shut" -> Shutdown(q, e)
    [] e.e = "PumpE" -> PumpRet(q, e)
    [] e.e = "Done" -> q
    [] e.e = "DestroyB" -> [q EXCEPT !.pc = IF q.fin # 2 THEN "dbands" ELSE "dend"]
    [] e.e = "DestroyE" -> [BufPut(q) EXCEPT !.pc = "idle"]
    [] OTHER -> q

Fire(e) == Enabled(p, e) /\ p' = Apply(p, e) /\ ev' = e

(* ---- actions (the environment's choices are the existential quantifiers) ---- *)
PumpInit == \E r \in Relays : \E len \in 0..MaxStream : Fire(EvInitB(p.mode, r, len))
InitBands == p.pc = "initbands" /\ Fire(EvBands(1, 0))
InitEnd == Fire(EvInitE)
PumpBegin == Fire(EvPumpB)
InputData == \E n \in 1..MaxStream : Fire(EvIn(InReq(p), n, p.rd))
InputEof == Fire(EvIn(InReq(p), 0, -1))
InputAgain == Fire(EvIn(InReq(p), -1, -1))
InputError == Fire(EvIn(InReq(p), -2, -1))
InputEintr == Fire(EvIn(InReq(p), -3, -1))
FionAnswer == \E v \in {0, 1} : Fire(EvFion(v))
OutputData == \E n \in 1..MaxStream : Fire(EvOut(p.bytes, n, p.rd - p.bytes))
OutputAgain == Fire(EvOut(p.bytes, -1, -1))
OutputZero == Fire(EvOut(p.bytes, 0, -1))
OutputError == Fire(EvOut(p.bytes, -2, -1))
OutputEintr == Fire(EvOut(p.bytes, -3, -1))
ShutdownOut == Fire(EvShut)
SwitchBands == p.pc = "sw" /\ Fire(EvBands(SwBands(p)[1], SwBands(p)[2]))
PumpEnd == Fire(EvPumpE(p))
IsDone == Fire(EvDone(IF p.fin = 2 THEN 1 ELSE 0))
DestroyBegin == Fire(EvDestroyB)
DestroyBands == p.pc = "dbands" /\ Fire(EvBands(0, 0))
DestroyEnd == Fire(EvDestroyE)

Init == /\ \E m \in Modes : p = Idle(m)
        /\ ev = [e |-> "none"]

Next == \/ PumpInit \/ InitBands \/ InitEnd \/ PumpBegin
        \/ InputData \/ InputEof \/ InputAgain \/ InputError \/ InputEintr \/ FionAnswer
        \/ OutputData \/ OutputAgain \/ OutputZero \/ OutputError \/ OutputEintr
        \/ ShutdownOut \/ SwitchBands \/ PumpEnd \/ IsDone
        \/ DestroyBegin \/ DestroyBands \/ DestroyEnd

(* ---- structural invariants ---- *)
PCs == {"idle", "initbands", "inite", "ready", "in", "fion", "out", "shut", "sw", "ret",
        "failed", "dbands", "dend"}
TypeOK ==
  /\ p.pc \in PCs /\ p.mode \in Modes /\ p.relay \in {0, 1} /\ p.L \in 0..MaxStream
  /\ p.buf \in BOOLEAN /\ p.full \in BOOLEAN /\ p.shut \in BOOLEAN /\ p.probed \in BOOLEAN
  /\ p.bytes \in 0..MaxStream /\ p.fin \in 0..2 /\ p.rv \in {-1, 0, 1}
  /\ p.rd \in 0..MaxStream /\ p.dl \in 0..MaxStream /\ p.cache \in 0..MaxCached

Structure ==
  /\ p.bytes = p.rd - p.dl                      \* delivered o buffered = what was read
  /\ p.dl <= p.rd /\ p.rd <= p.L
  /\ p.mode = "rw" => (p.bytes <= BufSize /\ (p.full <=> p.bytes = BufSize))
  /\ p.mode = "sp" /\ p.full => p.bytes > 0
  /\ p.fin >= 1 => p.rd = p.L
  /\ p.fin = 2 => p.bytes = 0
  /\ p.shut => (p.fin = 2 /\ p.relay = 1)      \* shutdown only with bytes = 0 after EOF
  /\ p.pc = "ready" => (p.buf <=> p.bytes > 0)
  /\ p.pc \in {"fion", "out"} => p.buf
=============================================================================
