SPECIFICATION Spec
CONSTANTS
  FD = {1}
  TM = {1}
  TK = {1, 2}
  EVS = {1}
  Method = "ep"
  Hids = {1}
  Expiries = {0, 2}
  MaxTime = 3
  MaxOps = 4
  MaxSetup = 3
  MaxCbOps = 2
  MaxWaits = 3
  MaxKern = 1
  AllowTry = FALSE
  KeepTasks = TRUE
  KernMode = "free"
  GenMode = FALSE
  MaxIntr = 0
  InitBits = {0}
INVARIANTS NoViolation NumObjsOK ActiveRegistered HandledRegistered EpollSync PollArrayOK ExpiredOK TasksOK EventsOK TimerFdOK
VIEW View
CHECK_DEADLOCK FALSE
