SPECIFICATION TSpec
CONSTANTS
  SplitBits = 7
  MaxNodes = 8
CONSTANT Timers <- TraceTimers
CHECK_DEADLOCK FALSE
