SPECIFICATION GSpec
CONSTANTS
  BufSize = 4
  MaxStream = 5
  MaxCached = 2
  Modes = {"rw", "sp"}
  Relays = {0, 1}
  MaxCalls = 4
  MaxIntr = 0
  MaxAgain = 2
INVARIANT Emit
CHECK_DEADLOCK FALSE
