#!/usr/bin/env python3
"""Regenerates /verif/MANIFEST.json from the table below."""
import json, os
V = os.path.dirname(os.path.dirname(os.path.abspath(__file__)))
TB = ("Trusted: TLC; the virtual kernel harness/simk.c (virtual clock, blocking decided by the harness over real "
      "descriptors, fault injection); gcc; the trampolines' observation of callbacks. Bounded: programs of the "
      "generator profile, not all programs.")
CHECKS = {
 "C01": ("TLC model checking of spec/IvCore.tla composed with the MonCore monitor + TLC trace validation of MonCore / MonSig / MonInotify rules about released objects (C01:*) on every execution of seeded, hand-written and spec-generated API programs (4 poll methods; descriptors, timers, tasks, events, raw events, signal and wait interests, inotify), objects poisoned at unregister", "4/C01"),
 "C02": ("TLC model checking of spec/IvCore.tla (epoll and poll back ends) composed with MonCore + TLC trace validation of MonCore rules C02:sleep-on-ready / due-not-dispatched / not-reported against poll(2)-measured ground truth at every wait", "4/C02"),
 "C03": ("TLC model checking of spec/IvCore.tla composed with MonCore + TLC trace validation of MonCore rules C03:* (registered, current handler pointer, cookie, condition at preceding poll, once per iteration)", "4/C03"),
 "C04": ("TLC model checking of spec/IvCore.tla (timers, kernel-timer automaton) composed with MonCore + TLC trace validation of MonCore rules C04:early/twice/oversleep/starved under a virtual clock and simulated timerfd + lock-step of the real timer store against spec/IvTimerHeap.tla", "4/C04"),
 "C05": ("TLC model checking of spec/IvTimerHeap.tla (radix-tree heap, SplitBits 1/2, all paths) + lock-step validation of the real store against it (populations crossing 128) + TLA+ order/exactly-once monitor on histories up to 17000 timers (crossing 16384) + MonCore rules C05:order and (for the clause on when other timers fire) C04:oversleep/early/starved on loop executions", "4/C05"),
 "C06": ("TLC model checking of spec/IvCore.tla (task epochs) composed with MonCore + TLC trace validation of MonCore rules C06:* (exactly once, unregistered at entry, no blocking wait with a task pending, once per poll interval)", "4/C06"),
 "C07": ("TLC model checking of spec/IvCore.tla and spec/IvEventReg.tla (failing registrations) + TLC trace validation of MonCore rules C07:* (return iff quit or nothing registered, no poll without objects, no nesting, spin) and of the blocking-while-due rules of C02/C04/C06, incl. spec-generated programs with failing registrations in threaded programs", "4/C07"),
 "C15": ("all MonCore rules under the method x fault-plan matrix (EINTR at the k-th wait and signals interrupting waits, ENOSYS/EPERM fall-backs from the 1st/k-th call), raw-event bursts with eventfd absent/old, iv_fd_pump read/write fallback under MonPump; IvCore model checked with interrupted waits", "4/C15"),
 "C08": ("TLC model checking of spec/IvEvent.tla (no lost wake-up, no over-delivery, liveness) and spec/IvEventReg.tla (registration life cycle; its generated programs replayed on the real code) + schedule enumeration of real threads under the baton scheduler, traces validated by TLC against MonCore rules C08:*", "4/C08"),
 "C09": ("TLC model checking of spec/IvRaw.tla (eventfd / pipe modes) + schedule enumeration and bursts on the real code in eventfd2 / eventfd / pipe mode, traces validated against MonCore rules C09:*", "4/C09"),
 "C10": ("TLC model checking of spec/IvSignal.tla and spec/IvSignalFork.tla (fork: child copy of the signal state, three refuted guard-less variants) composed with the MonSig monitor + simulated signal deliveries on the real code plus a real-fork pass-through scenario (harness/ivh_sigfork_real.c: forked child that keeps using the library), traces validated by TLC against MonSig rules C10:*", "4/C10"),
 "C11": ("TLC model checking of spec/IvWait.tla composed with MonSig + simulated child processes (pid reuse, strangers, exit-before-fork-returns) on the real code, traces validated against MonSig rules C11:*", "4/C11"),
 "C12": ("TLC model checking of spec/IvWork.tla (exactly-once, max concurrency, no stranded work, liveness) + schedule enumeration / random schedules with 10 s time jumps on the real pool, traces validated against MonWork rules C12:*", "4/C12"),
 "C13": ("TLC model checking of spec/IvWork.tla (release only when drained, hooks paired, liveness Released) + real pool shutdown / iv_thread exit scenarios, traces validated against MonWork rules C13:*", "4/C13"),
 "C14": ("happens-before race analysis in TLA+ (spec/TraceSync.tla: vector clocks over recorded lock / thread / descriptor synchronisation, FastTrack-style per-byte epochs) evaluated by TLC on compiler-instrumented access traces of multi-threaded scenario programs", "4/C14"),
 "C18": ("ownership state machine spec/MonRes.tla (heap blocks, descriptors, lent user objects, tls hooks, fcntl flags) evaluated by TLC on access / acquire / release traces of the instrumented build over repeated init/use/deinit cycles and thread churn", "4/C18"),
 "C20": ("TLC model checking of spec/IvInotify.tla composed with MonInotify (+ five model variants rejected), BFS-complete spec-generated handler-reaction programs and random scripts on real inotify, traces validated by TLC (TraceInotify)", "4/C20"),
 "C16": ("TLA+ transcription spec/IvAvl.tla of iv_avl.c, TLC one-step exploration from every balanced shape (H<=4 quick, H=5 thorough) with all invariants, every (shape, operation, result) triple replayed on the real code and compared field by field, random real histories validated step by step by TLC (TraceAvl: invariants = verdict, lock-step = drift)", "4/C16"),
 "C17": ("TLC model checking of spec/IvPump.tla composed with MonPump (BufSize 4, both modes, RELAY_EOF on/off), BFS-complete spec-generated environment programs + random chunkings replayed on the real pump with scripted read/write/splice results, traces validated by TLC (TracePump: MonPump verdicts + lock-step on bytes/full/saw_fin)", "4/C17"),
 "C19": ("TLC model checking of spec/IvPopen.tla (three child policies, liveness Terminates) composed with MonSig + simulated children and virtual time on the real code, traces validated against MonSig rules C19:*", "4/C19"),
}
LEVEL = {"C15": "fault_enumeration"}
m = {
 "version": 1,
 "setup_cmd": "python3 -c \"import sys; sys.path.insert(0,'lib'); import corerun; corerun.build_core()\"",
 "hooks": {"guard": "IVYKIS_VERIF",
           "enable": "no source hooks exist: checks compile /repo/src/*.c directly with -DIVYKIS_VERIF and observe through -Wl,--wrap interposition, trampolines and compiler instrumentation",
           "baseline_off_cmd": "make -C /repo && make -C /repo/test check",
           "source_commits": [], "add_only": True},
 "engines": [{"name": "tlc-trace-validation", "path": "spec/TraceCore.tla", "serves_properties": sorted(CHECKS),
              "kind_free_text": "TLA+ monitors (spec/MonCore.tla, MonWork.tla, MonSig.tla via spec/TraceAll.tla) evaluated by TLC on ndjson traces recorded from the real library under the virtual kernel"},
             {"name": "tlc-model-checking", "path": "spec/", "serves_properties": ["C05", "C08", "C09", "C10", "C11", "C12", "C13", "C16", "C17", "C19", "C20"],
              "kind_free_text": "TLC exhaustive model checking of the implementation-shaped system models IvEvent, IvRaw, IvWork, IvSignal, IvWait, IvPopen"}],
 "checks": [], "not_applicable": [],
 "notes": "bin/check <id> --tier quick|thorough; see DESIGN.md",
}
for pid in sorted(CHECKS):
    tech, ref = CHECKS[pid]
    m["checks"].append({
        "property_id": pid,
        "quick_cmd": "bin/check %s --tier quick" % pid,
        "thorough_cmd": "bin/check %s --tier thorough" % pid,
        "evidence_file": "evidence/%s.json" % pid,
        "replay_cmd_template": "bin/check %s --replay {path}" % pid,
        "engine": "tlc-trace-validation",
        "level_claimed": {"category": LEVEL.get(pid, "model_checking"),
                          "text": "Explicit TLA+ monitor specification checked by TLC on every event of every execution of the real code; executions are generated from seeded programs (and, where listed in DESIGN.md, exhaustively from the TLA+ system model) on all four Linux poll methods.",
                          "design_ref": "DESIGN.md section " + ref},
        "level_note": TB,
        "technique": tech})
allp = [json.loads(l)["id"] for l in open(os.path.join(V, "properties.jsonl"))]
for pid in allp:
    if pid not in CHECKS:
        m["not_applicable"].append({"property_id": pid, "reason": "check chain not finished yet (claiming rule, DESIGN.md Appendix I); work in progress"})
json.dump(m, open(os.path.join(V, "MANIFEST.json"), "w"), indent=1)
print("wrote MANIFEST.json with", len(m["checks"]), "checks")
