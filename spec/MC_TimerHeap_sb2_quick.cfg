CONSTANTS
  SplitBits = 2
  MaxNodes = 20
  MaxT = 9
  NExp = 3
  MaxLevel = 100000
  CovPrint = TRUE
CONSTANT Timers <- TimerSet
INIT Init
NEXT Next
CONSTRAINT LevelBound
CHECK_DEADLOCK FALSE
INVARIANTS IBackIndex IMultiset IHeapOrder IRootIsMin INoStale IDepthMinimal INoDangling INoLeak IDeinit
